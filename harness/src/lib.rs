//! Shared machinery of the conformance harness: deterministic scheduler over
//! `metrics::verif::point()` sites, ndjson trace writer, small helpers.
pub mod promparse;
pub mod sched;
pub mod trace;

use rand::{rngs::StdRng, SeedableRng};

/// Seed for every random choice: `VERIF_SEED` or the given default.
pub fn seed(default: u64) -> u64 {
    std::env::var("VERIF_SEED").ok().and_then(|s| s.parse().ok()).unwrap_or(default)
}

pub fn rng(seed: u64) -> StdRng {
    StdRng::seed_from_u64(seed)
}

/// Very small argv helper: `--name value` pairs and flags.
pub struct Args {
    pub pos: Vec<String>,
    pub kv: std::collections::HashMap<String, String>,
}

impl Args {
    pub fn parse() -> Args {
        let mut pos = vec![];
        let mut kv = std::collections::HashMap::new();
        let v: Vec<String> = std::env::args().skip(1).collect();
        let mut i = 0;
        while i < v.len() {
            if let Some(name) = v[i].strip_prefix("--") {
                if i + 1 < v.len() && !v[i + 1].starts_with("--") {
                    kv.insert(name.to_string(), v[i + 1].clone());
                    i += 2;
                } else {
                    kv.insert(name.to_string(), "1".to_string());
                    i += 1;
                }
            } else {
                pos.push(v[i].clone());
                i += 1;
            }
        }
        Args { pos, kv }
    }
    pub fn get(&self, k: &str) -> Option<&str> {
        self.kv.get(k).map(|s| s.as_str())
    }
    pub fn num<T: std::str::FromStr>(&self, k: &str, d: T) -> T {
        self.kv.get(k).and_then(|s| s.parse().ok()).unwrap_or(d)
    }
    pub fn has(&self, k: &str) -> bool {
        self.kv.contains_key(k)
    }
}

/// Runs a child process with a deadline. Returns (stdout, Some(success)) or (partial stdout, None) when it
/// had to be killed (a hang of the code under test is data, not a tool error).
pub fn run_child(cmd: &mut std::process::Command, secs: u64) -> (String, Option<bool>) {
    use std::io::Read;
    let mut child = cmd.stdout(std::process::Stdio::piped()).stderr(std::process::Stdio::null()).spawn().expect("spawn child");
    let mut out = child.stdout.take().unwrap();
    let reader = std::thread::spawn(move || {
        let mut s = String::new();
        let _ = out.read_to_string(&mut s);
        s
    });
    let t0 = std::time::Instant::now();
    let status = loop {
        match child.try_wait() {
            Ok(Some(st)) => break Some(st.success()),
            Ok(None) => {
                if t0.elapsed().as_secs() >= secs {
                    let _ = child.kill();
                    let _ = child.wait();
                    break None;
                }
                std::thread::sleep(std::time::Duration::from_millis(5));
            }
            Err(_) => break Some(false),
        }
    };
    (reader.join().unwrap_or_default(), status)
}
