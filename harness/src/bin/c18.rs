use std::io::{Read, Write};
use std::net::{Ipv4Addr, SocketAddr};
use std::time::Duration;

fn main() {
    let rt = tokio::runtime::Builder::new_multi_thread().worker_threads(2).enable_all().build().unwrap();
    for s in ["127.0.0.1", "127.0.0.1/32", "127.0.0.9/28", "::1", "10.0.0.0/8", "127.0.0.1/33", "abc"] {
        let r = metrics_exporter_prometheus::PrometheusBuilder::new().add_allowed_address(s);
        println!("add_allowed_address({s:?}) -> {:?}", r.map(|_| "ok"));
    }
    let l = std::net::TcpListener::bind("127.0.0.1:0").unwrap();
    let port = l.local_addr().unwrap().port();
    drop(l);
    let b = metrics_exporter_prometheus::PrometheusBuilder::new()
        .with_http_listener(SocketAddr::from(([127, 0, 0, 1], port)))
        .add_allowed_address("127.0.0.9/28")
        .unwrap();
    let (rec, fut) = {
        let _g = rt.enter();
        b.build().unwrap()
    };
    let jh = rt.spawn(fut);
    use metrics::Recorder;
    let md = metrics::Metadata::new("t", metrics::Level::INFO, None);
    let c = rec.register_counter(&metrics::Key::from_name("c18_probe_total"), &md);
    c.increment(3);
    let connect = |src: [u8; 4]| -> std::io::Result<std::net::TcpStream> {
        rt.block_on(async {
            let s = tokio::net::TcpSocket::new_v4()?;
            s.bind(SocketAddr::from((Ipv4Addr::from(src), 0)))?;
            let st = s.connect(SocketAddr::from(([127, 0, 0, 1], port))).await?;
            let st = st.into_std()?;
            st.set_nonblocking(false)?;
            Ok(st)
        })
    };
    let dump = |mut s: std::net::TcpStream, what: &str| {
        s.set_read_timeout(Some(Duration::from_secs(2))).unwrap();
        let mut buf = vec![0u8; 65536];
        let mut acc = vec![];
        loop {
            match s.read(&mut buf) {
                Ok(0) => {
                    println!("{what}: EOF after {:?}", String::from_utf8_lossy(&acc));
                    break;
                }
                Ok(n) => acc.extend_from_slice(&buf[..n]),
                Err(e) => {
                    println!("{what}: ERR {e} after {:?}", String::from_utf8_lossy(&acc));
                    break;
                }
            }
        }
    };
    for src in [[127, 0, 0, 0], [127, 0, 0, 1], [127, 0, 0, 15], [127, 0, 0, 16], [127, 255, 255, 254], [127, 3, 2, 1]] {
        match connect(src) {
            Ok(mut s) => {
                s.write_all(b"GET /metrics HTTP/1.1\r\nHost: x\r\nConnection: close\r\n\r\n").unwrap();
                dump(s, &format!("{src:?}"));
            }
            Err(e) => println!("{src:?}: connect error {e}"),
        }
    }
    for (i, g) in [&b"\x16\x03\x01\x02\x00\x01\x00\r\n\r\n"[..], b"HELLO", b"NOT HTTP AT ALL\r\n\r\n", b"GET\r\n\r\n", b"GET / HTTP/9.9\r\n\r\n", b"\r\n\r\n\r\n", b"GET /a b c HTTP/1.1\r\n\r\n"].iter().enumerate() {
        let mut s = connect([127, 0, 0, 2]).unwrap();
        s.write_all(g).unwrap();
        dump(s, &format!("garbage{i} {:?}", String::from_utf8_lossy(g)));
    }
    // half close after GET
    for i in 0..5 {
        let mut s = connect([127, 0, 0, 3]).unwrap();
        s.write_all(b"GET /health HTTP/1.1\r\nHost: x\r\n\r\n").unwrap();
        s.shutdown(std::net::Shutdown::Write).unwrap();
        dump(s, &format!("halfclose{i}"));
    }
    for i in 0..5 {
        let mut s = connect([127, 0, 0, 3]).unwrap();
        s.write_all(b"GET /m HTTP/1.1\r\nHost: x\r\n\r\n").unwrap();
        s.shutdown(std::net::Shutdown::Write).unwrap();
        dump(s, &format!("halfclose-metrics{i}"));
    }
    // keepalive 2 requests pipelined
    let mut s = connect([127, 0, 0, 3]).unwrap();
    s.write_all(b"GET /health HTTP/1.1\r\nHost: x\r\n\r\nGET /health?x=1 HTTP/1.1\r\nHost: x\r\n\r\nGET /health/ HTTP/1.0\r\n\r\n").unwrap();
    dump(s, "pipelined");
    println!("exporter finished: {}", jh.is_finished());
    jh.abort();
}
