//! C18 driver: the HTTP listener of metrics-exporter-prometheus over real loopback sockets.
//!
//! A *program* is a builder call chain (`with_http_listener` / unrelated setters / `add_allowed_address(s)` in the order
//! given; only the last `with_http_listener` carries the probed port) and a list of
//! client operations on numbered connection slots: connect from a given 127.0.0.0/8 source address (the socket is
//! bound to it before `connect`, so the server sees distinct peers), well-formed GETs, half requests, garbage,
//! half-close, reset, orderly close, counter bumps, reads, probes (fresh connection + well-formed GET + read) and
//! concurrent phases (scraper threads + a bumper thread while the main thread keeps injecting faults).
//! Every step and everything read from the sockets is logged as one ndjson event; TraceScrapeEndpoint.tla decides.
//!
//! modes
//!   replay --in programs.ndjson --out trace.ndjson [--paths rotate|all] [--embed rotate|all]
//!       programs from TLC: abstract (W-bit addresses, embedded into 127.0.0.0/8 here) or concrete (strings, as
//!       written into the `prog` field of every `reset` event: that is how a failing run is re-executed).
//!       A program without `ops` is a decision vector: every peer of the W-bit space asks on a fresh connection.
//!   record --runs N --out trace.ndjson [--plain-rate PERMILLE]
//!       seeded random programs: random allowlists / peers at block edges, fault sequences + probes, concurrent phases.
use metrics::Recorder;
use rand::Rng;
use serde_json::{json, Value};
use std::collections::{HashMap, HashSet, VecDeque};
use std::io::{Read, Write};
use std::net::{Ipv4Addr, SocketAddr, TcpStream};
use std::sync::atomic::{AtomicBool, AtomicU64, Ordering};
use std::sync::Arc;
use std::time::{Duration, Instant};

const CTR: &str = "c18_scrapes_observed_total";
const CLEAN_DEADLINE: Duration = Duration::from_secs(15);
const FAULTY_DEADLINE: Duration = Duration::from_secs(3);
/// After this many runs in which the listener failed a healthy client (each is a rejected trace = a violation) the
/// remaining programs are not executed: every further one would cost a full deadline against a dead listener.
const MAX_ABORTED_RUNS: u64 = 3;

// ------------------------------------------------------------------------------------------------ entries

/// The harness's own reading of the documented entry syntax ("IP address or subnet"): `addr` or `addr/len`.
fn classify(s: &str) -> (String, Vec<u8>, u32) {
    fn bits_of(ip: &std::net::IpAddr) -> Vec<u8> {
        let bytes: Vec<u8> = match ip {
            std::net::IpAddr::V4(a) => a.octets().to_vec(),
            std::net::IpAddr::V6(a) => a.octets().to_vec(),
        };
        bytes.iter().flat_map(|b| (0..8).rev().map(move |i| (b >> i) & 1)).collect()
    }
    if let Some((a, n)) = s.split_once('/') {
        if let (Ok(ip), Ok(n)) = (a.parse::<std::net::IpAddr>(), n.parse::<u32>()) {
            let b = bits_of(&ip);
            if n as usize <= b.len() && !s[a.len() + 1..].starts_with('+') {
                return ("cidr".into(), b, n);
            }
        }
        return ("bad".into(), vec![], 0);
    }
    match s.parse::<std::net::IpAddr>() {
        Ok(ip) => {
            let b = bits_of(&ip);
            let n = b.len() as u32;
            ("plain".into(), b, n)
        }
        Err(_) => ("bad".into(), vec![], 0),
    }
}

fn entry_json(s: &str) -> Value {
    let (k, a, n) = classify(s);
    json!({"k": k, "a": a, "n": n, "s": s})
}

fn bits32(ip: Ipv4Addr) -> Vec<u8> {
    let v = u32::from(ip);
    (0..32).rev().map(|i| ((v >> i) & 1) as u8).collect()
}

/// Embedding of the W-bit model space into 127.0.0.0/8: the W bits sit at bit positions [shift, shift+W) of the
/// address, the lower bits are a fixed filler, so abstract prefix length L is concrete 32-shift-W+L.
#[derive(Clone, Copy)]
struct Embedding {
    shift: u32,
    filler: u32,
    host32: bool, // write the single-host block (L = W) as /32
}
const EMBEDDINGS: [Embedding; 5] = [
    Embedding { shift: 0, filler: 0, host32: false },        // 127.0.0.{0..15}, /28../32
    Embedding { shift: 6, filler: 5, host32: false },        // straddles the last two octets, /22../26
    Embedding { shift: 20, filler: 0x0102, host32: true },   // second octet, /8../11 and /32
    Embedding { shift: 14, filler: 9, host32: false },       // straddles octets 2/3, /14../18
    Embedding { shift: 1, filler: 1, host32: true },         // odd addresses, /27../30 and /32
];
impl Embedding {
    fn addr(&self, bits: &[u8]) -> Ipv4Addr {
        let a = bits.iter().fold(0u32, |acc, b| acc * 2 + *b as u32);
        Ipv4Addr::from(0x7f00_0000u32 | (a << self.shift) | self.filler)
    }
    fn entry(&self, e: &Value) -> String {
        let k = e["k"].as_str().unwrap_or("bad");
        let bits: Vec<u8> = e["a"].as_array().map(|v| v.iter().map(|x| x.as_u64().unwrap() as u8).collect()).unwrap_or_default();
        let w = bits.len() as u32;
        match k {
            "plain" => self.addr(&bits).to_string(),
            "cidr" => {
                let l = e["n"].as_u64().unwrap() as u32;
                let p = if l == w && self.host32 { 32 } else { 32 - self.shift - w + l };
                format!("{}/{}", self.addr(&bits), p)
            }
            _ => "not-an-address".to_string(),
        }
    }
}

// ------------------------------------------------------------------------------------------------ programs

#[derive(Clone, Debug)]
enum Op {
    Connect { c: i64, peer: Ipv4Addr },
    Get { c: i64, path: String },
    Partial { c: i64, path: String },
    Rest { c: i64 },
    Garbage { c: i64, kind: u64 },
    HalfClose { c: i64 },
    Rst { c: i64, how: String },
    Close { c: i64 },
    Bump { n: u64 },
    Read { c: i64 },
    Probe { peer: Ipv4Addr, path: String },
    Par { scrapers: usize, each: usize, peers: Vec<Ipv4Addr>, faults: Vec<Op> },
}

fn op_json(o: &Op) -> Value {
    match o {
        Op::Connect { c, peer } => json!({"op": "connect", "c": c, "peer": peer.to_string()}),
        Op::Get { c, path } => json!({"op": "get", "c": c, "path": path}),
        Op::Partial { c, path } => json!({"op": "partial", "c": c, "path": path}),
        Op::Rest { c } => json!({"op": "rest", "c": c}),
        Op::Garbage { c, kind } => json!({"op": "garbage", "c": c, "kind": kind}),
        Op::HalfClose { c } => json!({"op": "halfclose", "c": c}),
        Op::Rst { c, how } => json!({"op": "rst", "c": c, "how": how}),
        Op::Close { c } => json!({"op": "close", "c": c}),
        Op::Bump { n } => json!({"op": "bump", "n": n}),
        Op::Read { c } => json!({"op": "read", "c": c}),
        Op::Probe { peer, path } => json!({"op": "probe", "peer": peer.to_string(), "path": path}),
        Op::Par { scrapers, each, peers, faults } => json!({"op": "par", "scrapers": scrapers, "each": each,
            "peers": peers.iter().map(|p| p.to_string()).collect::<Vec<_>>(), "faults": faults.iter().map(op_json).collect::<Vec<_>>()}),
    }
}

fn op_from(v: &Value, emb: Option<&Embedding>) -> Option<Op> {
    let c = v["c"].as_i64().unwrap_or(0);
    let path = v["path"].as_str().unwrap_or("metrics").to_string();
    let peer = |x: &Value| -> Option<Ipv4Addr> {
        if let Some(s) = x.as_str() {
            s.parse().ok()
        } else {
            let bits: Vec<u8> = x.as_array()?.iter().map(|b| b.as_u64().unwrap() as u8).collect();
            Some(emb?.addr(&bits))
        }
    };
    Some(match v["op"].as_str()? {
        "connect" => Op::Connect { c, peer: peer(&v["peer"])? },
        "get" => Op::Get { c, path },
        "partial" => Op::Partial { c, path },
        "rest" => Op::Rest { c },
        "garbage" => Op::Garbage { c, kind: v["kind"].as_u64().unwrap_or(c as u64) },
        "halfclose" => Op::HalfClose { c },
        "rst" => Op::Rst { c, how: v["how"].as_str().unwrap_or("linger0").to_string() },
        "close" => Op::Close { c },
        "bump" => Op::Bump { n: v["n"].as_u64().unwrap_or(1) },
        "read" => Op::Read { c },
        "probe" => Op::Probe { peer: peer(&v["peer"])?, path },
        "par" => Op::Par {
            scrapers: v["scrapers"].as_u64()? as usize,
            each: v["each"].as_u64()? as usize,
            peers: v["peers"].as_array()?.iter().filter_map(|p| peer(p)).collect(),
            faults: v["faults"].as_array()?.iter().filter_map(|o| op_from(o, emb)).collect(),
        },
        _ => return None,
    })
}

/// One call on the PrometheusBuilder before build().
#[derive(Clone, Debug, PartialEq, Eq, Hash)]
enum Call {
    Listen,        // with_http_listener(addr): the LAST one gets the real port, earlier ones a decoy address
    Other,         // a setter that has nothing to do with the exporter configuration
    Allow(String), // add_allowed_address(s)
}

fn std_calls(entries: Vec<String>) -> Vec<Call> {
    std::iter::once(Call::Listen).chain(entries.into_iter().map(Call::Allow)).collect()
}

fn call_json(c: &Call) -> Value {
    match c {
        Call::Listen => json!({"op": "listen"}),
        Call::Other => json!({"op": "other"}),
        Call::Allow(s) => json!({"op": "allow", "s": s}),
    }
}

/// the call as the trace specification reads it
fn call_event(c: &Call) -> Value {
    let none = json!({"k": "none", "a": [], "n": 0, "s": ""});
    match c {
        Call::Listen => json!({"op": "listen", "e": none}),
        Call::Other => json!({"op": "other", "e": none}),
        Call::Allow(s) => json!({"op": "allow", "e": entry_json(s)}),
    }
}

fn allow_entries(calls: &[Call]) -> Vec<String> {
    calls.iter().filter_map(|c| if let Call::Allow(s) = c { Some(s.clone()) } else { None }).collect()
}

struct Program {
    mode: String,
    calls: Vec<Call>, // the builder call chain before build(), in order
    ops: Vec<Op>,
    flavor: u64, // 0: exporter future spawned on a shared multi-thread runtime; 1: own current-thread runtime + thread (as install() does)
}

impl Program {
    fn to_json(&self) -> Value {
        json!({"concrete": true, "mode": self.mode, "flavor": self.flavor, "calls": self.calls.iter().map(call_json).collect::<Vec<_>>(),
               "ops": self.ops.iter().map(op_json).collect::<Vec<_>>()})
    }
}

fn path_raw(class: &str) -> &'static str {
    match class {
        "health" => "/health",
        "healthq" => "/health?probe=1",
        "root" => "/",
        "healthslash" => "/health/",
        "other" => "/healthz",
        "deep" => "/health/metrics",
        _ => "/metrics",
    }
}
const RENDER_PATHS: [&str; 5] = ["metrics", "root", "healthslash", "other", "deep"];
const HEALTH_PATHS: [&str; 2] = ["health", "healthq"];

// ------------------------------------------------------------------------------------------------ exporter

struct Exporter {
    port: u16,
    _recorder: metrics_exporter_prometheus::PrometheusRecorder,
    counter: metrics::Counter,
    pre: Arc<AtomicU64>,  // increments started
    post: Arc<AtomicU64>, // increments completed
    stop: Arc<AtomicBool>,
    jh: Option<tokio::task::JoinHandle<()>>,
    th: Option<std::thread::JoinHandle<()>>,
    finished: Arc<AtomicBool>,
}

impl Exporter {
    /// Ok(exporter) or Err((1-based index of the rejected entry, message)).
    fn start(srt: &tokio::runtime::Runtime, calls: &[Call], flavor: u64) -> Result<Exporter, (usize, String)> {
        for _attempt in 0..50 {
            let l = std::net::TcpListener::bind("127.0.0.1:0").expect("bind an ephemeral port");
            let port = l.local_addr().unwrap().port();
            drop(l);
            // the chain exactly as the program spells it; only the last with_http_listener carries the port we probe
            let last_listen = calls.iter().rposition(|c| *c == Call::Listen).expect("a program sets the listen address");
            let mut b = metrics_exporter_prometheus::PrometheusBuilder::new();
            let mut nallow = 0;
            for (i, c) in calls.iter().enumerate() {
                b = match c {
                    Call::Listen if i == last_listen => b.with_http_listener(SocketAddr::from(([127, 0, 0, 1], port))),
                    Call::Listen => b.with_http_listener(SocketAddr::from(([127, 0, 0, 1], 1))), // never built
                    Call::Other if i % 2 == 0 => b.set_bucket_count(std::num::NonZeroU32::new(3).unwrap()),
                    Call::Other => b.set_enable_unit_suffix(false),
                    Call::Allow(e) => {
                        nallow += 1;
                        match b.add_allowed_address(e) {
                            Ok(b) => b,
                            Err(err) => return Err((nallow, err.to_string())),
                        }
                    }
                };
            }
            let b = b.upkeep_timeout(Duration::from_secs(3600));
            let stop = Arc::new(AtomicBool::new(false));
            let finished = Arc::new(AtomicBool::new(false));
            let (recorder, jh, th);
            if flavor == 0 {
                let built = {
                    let _g = srt.enter();
                    b.build()
                };
                let (r, fut) = match built {
                    Ok(x) => x,
                    Err(metrics_exporter_prometheus::BuildError::FailedToCreateHTTPListener(_)) => continue,
                    Err(e) => panic!("tool error: build failed: {e}"),
                };
                let fin = finished.clone();
                jh = Some(srt.spawn(async move {
                    let _ = fut.await;
                    fin.store(true, Ordering::SeqCst);
                }));
                th = None;
                recorder = r;
            } else {
                let rt = tokio::runtime::Builder::new_current_thread().enable_all().build().expect("runtime");
                let built = {
                    let _g = rt.enter();
                    b.build()
                };
                let (r, fut) = match built {
                    Ok(x) => x,
                    Err(metrics_exporter_prometheus::BuildError::FailedToCreateHTTPListener(_)) => continue,
                    Err(e) => panic!("tool error: build failed: {e}"),
                };
                let fin = finished.clone();
                let st = stop.clone();
                th = Some(std::thread::spawn(move || {
                    rt.block_on(async move {
                        let h = tokio::spawn(async move {
                            let _ = fut.await;
                            fin.store(true, Ordering::SeqCst);
                        });
                        while !st.load(Ordering::SeqCst) {
                            tokio::time::sleep(Duration::from_millis(3)).await;
                        }
                        h.abort();
                    });
                }));
                jh = None;
                recorder = r;
            }
            let md = metrics::Metadata::new("c18", metrics::Level::INFO, None);
            let counter = recorder.register_counter(&metrics::Key::from_name(CTR), &md);
            counter.increment(0);
            // a little company so that the body is a realistic exposition (labels with characters to escape, a summary)
            let g = recorder.register_gauge(
                &metrics::Key::from_parts("c18_gauge", vec![metrics::Label::new("why", "a \"quoted\" \\ value\nnext")]),
                &md,
            );
            g.set(-1.5);
            let h = recorder.register_histogram(&metrics::Key::from_name("c18_latency"), &md);
            for v in [0.25, 1.0, 3.5] {
                h.record(v);
            }
            recorder.describe_counter(CTR.into(), None, "scrapes observed by the harness".into());
            return Ok(Exporter {
                port,
                _recorder: recorder,
                counter,
                pre: Arc::new(AtomicU64::new(0)),
                post: Arc::new(AtomicU64::new(0)),
                stop,
                jh,
                th,
                finished,
            });
        }
        panic!("tool error: no free port");
    }
    fn bump(&self, n: u64) {
        self.pre.fetch_add(n, Ordering::SeqCst);
        self.counter.increment(n);
        self.post.fetch_add(n, Ordering::SeqCst);
    }
    fn shutdown(mut self) {
        self.stop.store(true, Ordering::SeqCst);
        if let Some(j) = self.jh.take() {
            j.abort();
        }
        if let Some(t) = self.th.take() {
            let _ = t.join();
        }
    }
}

// ------------------------------------------------------------------------------------------------ sockets

enum ConnectErr {
    Local(String),  // the source address cannot be used on this machine: not an observation of the exporter
    Refused(String),
    Timeout,
}

fn connect(crt: &tokio::runtime::Runtime, src: Ipv4Addr, port: u16) -> Result<TcpStream, ConnectErr> {
    crt.block_on(async {
        let s = tokio::net::TcpSocket::new_v4().map_err(|e| ConnectErr::Local(e.to_string()))?;
        s.bind(SocketAddr::from((src, 0))).map_err(|e| ConnectErr::Local(format!("bind {src}: {e}")))?;
        let fut = s.connect(SocketAddr::from(([127, 0, 0, 1], port)));
        match tokio::time::timeout(Duration::from_secs(10), fut).await {
            Err(_) => Err(ConnectErr::Timeout),
            Ok(Err(e)) => match e.kind() {
                std::io::ErrorKind::AddrNotAvailable | std::io::ErrorKind::InvalidInput | std::io::ErrorKind::AddrInUse => {
                    Err(ConnectErr::Local(e.to_string()))
                }
                _ => Err(ConnectErr::Refused(e.to_string())),
            },
            Ok(Ok(st)) => {
                let st = st.into_std().map_err(|e| ConnectErr::Local(e.to_string()))?;
                st.set_nonblocking(false).map_err(|e| ConnectErr::Local(e.to_string()))?;
                let _ = st.set_nodelay(true);
                Ok(st)
            }
        }
    })
}

/// RST: SO_LINGER 0, then close.
fn reset_linger0(crt: &tokio::runtime::Runtime, s: TcpStream) {
    let _g = crt.enter();
    let _ = s.set_nonblocking(true);
    if let Ok(t) = tokio::net::TcpStream::from_std(s) {
        #[allow(deprecated)]
        let _ = t.set_linger(Some(Duration::from_secs(0)));
        drop(t);
    }
}

enum Outcome {
    Resp { st: u64, body: Vec<u8> },
    Closed(&'static str),
    Timeout,
}

fn find(h: &[u8], n: &[u8]) -> Option<usize> {
    h.windows(n.len()).position(|w| w == n)
}

fn read_response(s: &mut TcpStream, buf: &mut Vec<u8>, deadline: Duration) -> Outcome {
    let t0 = Instant::now();
    loop {
        if let Some(p) = find(buf, b"\r\n\r\n") {
            let head = String::from_utf8_lossy(&buf[..p]).to_string();
            let mut lines = head.split("\r\n");
            let status = lines.next().unwrap_or("");
            let st = status.split(' ').nth(1).and_then(|x| x.parse::<u64>().ok()).unwrap_or(0);
            let mut clen: Option<usize> = None;
            for l in lines {
                if let Some((k, v)) = l.split_once(':') {
                    if k.trim().eq_ignore_ascii_case("content-length") {
                        clen = v.trim().parse().ok();
                    }
                }
            }
            if let Some(n) = clen {
                if buf.len() >= p + 4 + n {
                    let body = buf[p + 4..p + 4 + n].to_vec();
                    buf.drain(..p + 4 + n);
                    return Outcome::Resp { st, body };
                }
            } else if !status.starts_with("HTTP/") {
                return Outcome::Resp { st: 0, body: buf.split_off(0) };
            }
            // no content-length: the body ends with the connection (handled at EOF below)
        }
        let left = deadline.checked_sub(t0.elapsed()).unwrap_or(Duration::from_millis(0));
        if left.is_zero() {
            return Outcome::Timeout;
        }
        let _ = s.set_read_timeout(Some(left.max(Duration::from_millis(1))));
        let mut tmp = [0u8; 16384];
        match s.read(&mut tmp) {
            Ok(0) => {
                if let Some(p) = find(buf, b"\r\n\r\n") {
                    // response delimited by the close
                    let head = String::from_utf8_lossy(&buf[..p]).to_string();
                    let st = head.split(' ').nth(1).and_then(|x| x.parse::<u64>().ok()).unwrap_or(0);
                    if !head.to_ascii_lowercase().contains("content-length") {
                        let body = buf[p + 4..].to_vec();
                        buf.clear();
                        return Outcome::Resp { st, body };
                    }
                }
                return Outcome::Closed("eof");
            }
            Ok(n) => buf.extend_from_slice(&tmp[..n]),
            Err(e) if e.kind() == std::io::ErrorKind::WouldBlock || e.kind() == std::io::ErrorKind::TimedOut => return Outcome::Timeout,
            Err(e) if e.kind() == std::io::ErrorKind::Interrupted => {}
            Err(_) => return Outcome::Closed("reset"),
        }
    }
}

/// (body class, counter value shown or -1)
fn classify_body(body: &[u8]) -> (&'static str, i64) {
    if body.is_empty() {
        return ("empty", -1);
    }
    if body == b"OK" {
        return ("ok", -1);
    }
    let text = match std::str::from_utf8(body) {
        Ok(t) => t,
        Err(_) => return ("junk", -1),
    };
    match vh::promparse::parse_exposition(text) {
        Ok(exp) => {
            let v = exp.family(CTR).filter(|f| f.mtype == "counter").and_then(|f| f.samples.first()).and_then(|s| s.value.parse::<i64>().ok());
            match v {
                Some(v) => ("expo", v),
                None => ("expo_without_counter", -1),
            }
        }
        Err(_) => {
            // still report a counter line if one is there: "never any metric data" must see it
            if text.contains(CTR) {
                ("junk_with_metrics", -1)
            } else {
                ("junk", -1)
            }
        }
    }
}

const GARBAGE: [&[u8]; 6] = [
    b"\x16\x03\x01\x02\x00\x01\x00\x01\xfc\x03\x03\r\n\r\n",
    b"NOT HTTP AT ALL\r\n\r\n",
    b"GET\r\n\r\n",
    b"GET / HTTP/9.9\r\n\r\n",
    b"GET /a b c HTTP/1.1\r\n\r\n",
    b"\x00\x00\xff\xfe\x01\x02\x03\r\n\r\n",
];

// ------------------------------------------------------------------------------------------------ execution

struct Conn {
    s: TcpStream,
    buf: Vec<u8>,
    lo: VecDeque<u64>, // completed increments when each outstanding GET was sent
    partial_lo: u64,
    clean: bool,       // no client-side fault on this connection so far (deadline selection only)
}

#[derive(Default)]
struct Stats {
    runs: u64,
    events: u64,
    resp: u64,
    n200: u64,
    n403: u64,
    n400: u64,
    closed: u64,
    timeouts: u64,
    refused: u64,
    build_err: u64,
    skipped_peers: u64,
    panics: u64,
    aborted_runs: u64, // runs in which a healthy client was refused / not answered / cut off
    distinct: HashSet<u64>,
    nontrivial: HashSet<u64>,
}

fn h64<T: std::hash::Hash>(t: &T) -> u64 {
    use std::hash::Hasher;
    let mut h = std::collections::hash_map::DefaultHasher::new();
    t.hash(&mut h);
    h.finish()
}

struct Exec<'a> {
    crt: &'a tokio::runtime::Runtime,
    ex: &'a Exporter,
    conns: HashMap<i64, Conn>,
    ev: Vec<Value>,
    par: bool,     // a bumper thread is running: counter bounds come from the shadows
    spec_ctr: u64, // the trace specification's `ctr` after the events logged so far
    aborted: bool, // the listener did not answer a healthy client: stop hammering it (bounded run time)
    cfg_hash: u64,
    peers: HashMap<i64, Ipv4Addr>,
    paths: HashMap<i64, VecDeque<String>>,
}

impl<'a> Exec<'a> {
    fn log(&mut self, v: Value) {
        self.ev.push(v);
    }
    fn connect(&mut self, c: i64, peer: Ipv4Addr, st: &mut Stats) -> bool {
        self.conns.remove(&c);
        match connect(self.crt, peer, self.ex.port) {
            Ok(s) => {
                self.log(json!({"ev": "connect", "c": c, "peer": bits32(peer), "ps": peer.to_string()}));
                self.conns.insert(c, Conn { s, buf: vec![], lo: VecDeque::new(), partial_lo: 0, clean: true });
                self.peers.insert(c, peer);
                self.paths.insert(c, VecDeque::new());
                true
            }
            Err(ConnectErr::Local(_)) => {
                st.skipped_peers += 1;
                false
            }
            Err(ConnectErr::Refused(e)) => {
                st.refused += 1;
                self.log(json!({"ev": "refused", "c": c, "ps": peer.to_string(), "err": e}));
                self.aborted = true;
                false
            }
            Err(ConnectErr::Timeout) => {
                st.refused += 1;
                self.log(json!({"ev": "connect_timeout", "c": c, "ps": peer.to_string()}));
                self.aborted = true;
                false
            }
        }
    }
    fn send_get(&mut self, c: i64, path: &str) {
        let lo = self.ex.post.load(Ordering::SeqCst);
        if let Some(cn) = self.conns.get_mut(&c) {
            let req = format!("GET {} HTTP/1.1\r\nHost: 127.0.0.1\r\nUser-Agent: c18\r\n\r\n", path_raw(path));
            let werr = cn.s.write_all(req.as_bytes()).is_err();
            cn.lo.push_back(lo);
            self.paths.entry(c).or_default().push_back(path.to_string());
            self.log(json!({"ev": "get", "c": c, "path": path, "raw": path_raw(path), "werr": werr}));
        }
    }
    fn read(&mut self, c: i64, st: &mut Stats) {
        let par = self.par;
        let (out, lo, clean) = match self.conns.get_mut(&c) {
            Some(cn) => {
                let d = if cn.clean { CLEAN_DEADLINE } else { FAULTY_DEADLINE };
                let clean = cn.clean;
                let out = read_response(&mut cn.s, &mut cn.buf, d);
                (out, cn.lo.front().copied().unwrap_or(0), clean)
            }
            None => return,
        };
        let hi = self.ex.pre.load(Ordering::SeqCst);
        match out {
            Outcome::Resp { st: code, body } => {
                let (class, v) = classify_body(&body);
                if let Some(cn) = self.conns.get_mut(&c) {
                    if code != 400 {
                        cn.lo.pop_front();
                    }
                }
                let path = if code != 400 { self.paths.get_mut(&c).and_then(|q| q.pop_front()).unwrap_or_default() } else { String::new() };
                st.resp += 1;
                match code {
                    200 => st.n200 += 1,
                    403 => st.n403 += 1,
                    400 => st.n400 += 1,
                    _ => {}
                }
                let key = h64(&(self.cfg_hash, self.peers.get(&c).copied(), path.clone(), code, class));
                st.distinct.insert(key);
                if code == 403 || (code == 200 && self.cfg_hash != 0) {
                    st.nontrivial.insert(key);
                }
                if par {
                    self.spec_ctr = self.spec_ctr.max(hi);
                }
                self.log(json!({"ev": "resp", "c": c, "st": code, "body": class, "v": v, "blen": body.len(), "par": par, "lo": lo, "hi": hi}));
            }
            Outcome::Closed(how) => {
                st.closed += 1;
                self.log(json!({"ev": "closed", "c": c, "how": how}));
                if clean {
                    self.aborted = true;
                }
            }
            Outcome::Timeout => {
                st.timeouts += 1;
                self.log(json!({"ev": "timeout", "c": c}));
                if clean {
                    self.aborted = true;
                }
            }
        }
    }
    fn step(&mut self, op: &Op, st: &mut Stats) {
        if self.aborted {
            return;
        }
        match op {
            Op::Connect { c, peer } => {
                self.connect(*c, *peer, st);
            }
            Op::Get { c, path } => self.send_get(*c, path),
            Op::Partial { c, path } => {
                let lo = self.ex.post.load(Ordering::SeqCst);
                if let Some(cn) = self.conns.get_mut(c) {
                    let req = format!("GET {} HTTP/1.1\r\nHost: 127.0.0.1\r\nUser-Agent: c18\r\n\r\n", path_raw(path));
                    let half = req.len() / 2;
                    let _ = cn.s.write_all(&req.as_bytes()[..half]);
                    cn.partial_lo = lo;
                    self.paths.entry(*c).or_default().push_back(path.to_string());
                    self.log(json!({"ev": "partial", "c": c, "path": path}));
                }
            }
            Op::Rest { c } => {
                let path = self.paths.get(c).and_then(|q| q.back().cloned()).unwrap_or_default();
                if let Some(cn) = self.conns.get_mut(c) {
                    let req = format!("GET {} HTTP/1.1\r\nHost: 127.0.0.1\r\nUser-Agent: c18\r\n\r\n", path_raw(&path));
                    let half = req.len() / 2;
                    let _ = cn.s.write_all(&req.as_bytes()[half..]);
                    let lo = cn.partial_lo;
                    cn.lo.push_back(lo);
                    self.log(json!({"ev": "rest", "c": c}));
                }
            }
            Op::Garbage { c, kind } => {
                if let Some(cn) = self.conns.get_mut(c) {
                    let _ = cn.s.write_all(GARBAGE[(*kind as usize) % GARBAGE.len()]);
                    cn.clean = false;
                    self.log(json!({"ev": "garbage", "c": c, "kind": kind % GARBAGE.len() as u64}));
                }
            }
            Op::HalfClose { c } => {
                if let Some(cn) = self.conns.get_mut(c) {
                    let _ = cn.s.shutdown(std::net::Shutdown::Write);
                    cn.clean = false;
                    self.log(json!({"ev": "halfclose", "c": c}));
                }
            }
            Op::Rst { c, how } => {
                if let Some(cn) = self.conns.remove(c) {
                    if how == "unread" {
                        // close with unread data: wait (bounded) until something is there to leave unread
                        if !cn.lo.is_empty() && cn.buf.is_empty() {
                            let _ = cn.s.set_read_timeout(Some(Duration::from_millis(1500)));
                            let mut one = [0u8; 1];
                            let _ = cn.s.peek(&mut one);
                        }
                        drop(cn);
                    } else {
                        reset_linger0(self.crt, cn.s);
                    }
                    self.log(json!({"ev": "rst", "c": c, "how": how}));
                }
            }
            Op::Close { c } => {
                if let Some(cn) = self.conns.remove(c) {
                    let _ = cn.s.shutdown(std::net::Shutdown::Both);
                    drop(cn);
                    self.log(json!({"ev": "close", "c": c}));
                }
            }
            Op::Bump { n } => {
                if !self.par {
                    self.ex.bump(*n);
                    self.spec_ctr += *n;
                    self.log(json!({"ev": "bump", "n": n}));
                }
            }
            Op::Read { c } => self.read(*c, st),
            Op::Probe { peer, path } => {
                // a later client: fresh connection, well-formed request, must be answered
                let c = 20;
                if self.connect(c, *peer, st) {
                    self.send_get(c, path);
                    self.read(c, st);
                    self.step(&Op::Close { c }, st);
                }
            }
            Op::Par { scrapers, each, peers, faults } => self.par_phase(*scrapers, *each, peers, faults, st),
        }
    }

    fn par_phase(&mut self, scrapers: usize, each: usize, peers: &[Ipv4Addr], faults: &[Op], st: &mut Stats) {
        if peers.is_empty() {
            return;
        }
        let stopb = Arc::new(AtomicBool::new(false));
        let ex = self.ex;
        let crt = self.crt;
        let cfg_hash = self.cfg_hash;
        let mut results: Vec<(Vec<Value>, Stats)> = vec![];
        self.par = true;
        std::thread::scope(|sc| {
            let sb = stopb.clone();
            let bumper = sc.spawn(move || {
                let mut i = 0u64;
                while !sb.load(Ordering::SeqCst) {
                    ex.bump(1 + i % 3);
                    i += 1;
                    if i % 8 == 0 {
                        std::thread::sleep(Duration::from_micros(200));
                    }
                }
            });
            let mut hs = vec![];
            for t in 0..scrapers {
                let peers = peers.to_vec();
                hs.push(sc.spawn(move || {
                    let mut st = Stats::default();
                    let mut e = Exec { crt, ex, conns: HashMap::new(), ev: vec![], par: true, spec_ctr: 0, aborted: false, cfg_hash,
                                       peers: HashMap::new(), paths: HashMap::new() };
                    let c = 21 + t as i64;
                    for j in 0..each {
                        if e.aborted {
                            break;
                        }
                        let peer = peers[(t * 7 + j) % peers.len()];
                        let path = if (t + j) % 5 == 4 { HEALTH_PATHS[j % 2] } else { RENDER_PATHS[(t + j) % RENDER_PATHS.len()] };
                        if e.connect(c, peer, &mut st) {
                            e.send_get(c, path);
                            if j % 3 == 2 {
                                // keep-alive: a second request on the same connection
                                e.send_get(c, "metrics");
                                e.read(c, &mut st);
                            }
                            e.read(c, &mut st);
                            e.step(&Op::Close { c }, &mut st);
                        }
                    }
                    (e.ev, st, e.aborted)
                }));
            }
            // the main thread keeps misbehaving meanwhile
            for f in faults {
                self.step(f, st);
            }
            for h in hs {
                match h.join() {
                    Ok((ev, s, ab)) => {
                        if ab {
                            self.aborted = true;
                        }
                        results.push((ev, s));
                    }
                    Err(_) => st.panics += 1,
                }
            }
            stopb.store(true, Ordering::SeqCst);
            let _ = bumper.join();
        });
        self.par = false;
        for (ev, s) in results {
            for e in ev {
                if e["ev"] == "resp" {
                    self.spec_ctr = self.spec_ctr.max(e["hi"].as_u64().unwrap_or(0));
                }
                self.ev.push(e);
            }
            st.resp += s.resp;
            st.n200 += s.n200;
            st.n403 += s.n403;
            st.n400 += s.n400;
            st.closed += s.closed;
            st.timeouts += s.timeouts;
            st.refused += s.refused;
            st.skipped_peers += s.skipped_peers;
            st.distinct.extend(s.distinct);
            st.nontrivial.extend(s.nontrivial);
        }
        // bring the specification's counter up to the real one (the bumper has stopped: pre = post = total)
        let total = self.ex.pre.load(Ordering::SeqCst);
        if total > self.spec_ctr {
            self.log(json!({"ev": "bump", "n": total - self.spec_ctr}));
            self.spec_ctr = total;
        }
    }
}

fn run_program(srt: &tokio::runtime::Runtime, crt: &tokio::runtime::Runtime, p: &Program, run: u64, w: &mut vh::trace::Writer, st: &mut Stats) {
    st.runs += 1;
    let hist_json: Vec<Value> = p.calls.iter().map(call_event).collect();
    let started = std::panic::catch_unwind(std::panic::AssertUnwindSafe(|| Exporter::start(srt, &p.calls, p.flavor)));
    let mut reset = json!({"ev": "reset", "run": run, "mode": p.mode, "flavor": p.flavor, "hist": hist_json,
                           "prog": p.to_json().to_string()});
    let ex = match started {
        Err(_) => {
            st.panics += 1;
            reset["ok"] = json!(false);
            reset["bad"] = json!(-1);
            w.put(&reset);
            w.put(&json!({"ev": "panic", "at": "build"}));
            return;
        }
        Ok(Err((bad, msg))) => {
            st.build_err += 1;
            reset["ok"] = json!(false);
            reset["bad"] = json!(bad);
            reset["err"] = json!(msg);
            w.put(&reset);
            return;
        }
        Ok(Ok(ex)) => ex,
    };
    reset["ok"] = json!(true);
    reset["bad"] = json!(0);
    w.put(&reset);
    let cfg_hash = if allow_entries(&p.calls).is_empty() { 0 } else { h64(&p.calls) | 1 };
    let mut e = Exec { crt, ex: &ex, conns: HashMap::new(), ev: vec![], par: false, spec_ctr: 0, aborted: false, cfg_hash,
                       peers: HashMap::new(), paths: HashMap::new() };
    for op in &p.ops {
        e.step(op, st);
    }
    if ex.finished.load(Ordering::SeqCst) {
        e.ev.push(json!({"ev": "exporter_exited"}));
    }
    if e.aborted {
        st.aborted_runs += 1;
    }
    let ev = std::mem::take(&mut e.ev);
    drop(e);
    for v in &ev {
        w.put(v);
    }
    st.events += ev.len() as u64 + 1;
    ex.shutdown();
}

// ------------------------------------------------------------------------------------------------ program sources

/// A decision vector: every peer of the W-bit space asks on a fresh connection (in rotated order, so that the first
/// peer differs between configurations), one path per peer (rotating) or all paths.
fn vector_ops(w: usize, emb: &Embedding, idx: usize, all_paths: bool) -> Vec<Op> {
    let n = 1usize << w;
    let classes = ["metrics", "health", "root", "healthq", "healthslash", "other"];
    let mut ops = vec![];
    for i in 0..n {
        let a = (i * 7 + idx * 5) % n; // 7 is coprime to 2^w
        let bits: Vec<u8> = (0..w).rev().map(|b| ((a >> b) & 1) as u8).collect();
        let c = 1 + (i % 3) as i64;
        ops.push(Op::Connect { c, peer: emb.addr(&bits) });
        let paths: Vec<&str> = if all_paths { classes.to_vec() } else { vec![classes[(i + idx) % classes.len()]] };
        if i % 4 == 1 {
            // pipelined: all requests, a counter bump while they are outstanding, then all responses
            for p in &paths {
                ops.push(Op::Get { c, path: p.to_string() });
            }
            ops.push(Op::Bump { n: 1 + (i as u64 % 3) });
            for _ in &paths {
                ops.push(Op::Read { c });
            }
        } else {
            // keep-alive: request / response pairs on one connection
            for (j, p) in paths.iter().enumerate() {
                ops.push(Op::Get { c, path: p.to_string() });
                if (i + j) % 5 == 0 {
                    ops.push(Op::Bump { n: 1 });
                }
                ops.push(Op::Read { c });
            }
        }
        ops.push(Op::Close { c });
    }
    ops
}

fn programs_from_line(v: &Value, idx: usize, all_paths: bool, all_emb: bool) -> Vec<Program> {
    if v["concrete"].as_bool() == Some(true) {
        let calls: Vec<Call> = match v["calls"].as_array() {
            Some(a) => a
                .iter()
                .map(|c| match c["op"].as_str() {
                    Some("listen") => Call::Listen,
                    Some("allow") => Call::Allow(c["s"].as_str().unwrap_or("").to_string()),
                    _ => Call::Other,
                })
                .collect(),
            None => std_calls(v["entries"].as_array().map(|a| a.iter().map(|s| s.as_str().unwrap_or("").to_string()).collect()).unwrap_or_default()),
        };
        let ops = v["ops"].as_array().map(|a| a.iter().filter_map(|o| op_from(o, None)).collect()).unwrap_or_default();
        return vec![Program { mode: v["mode"].as_str().unwrap_or("replay").to_string(), calls, ops, flavor: v["flavor"].as_u64().unwrap_or(0) }];
    }
    // abstract: a builder call history `hist` ([{op, e}]) or, older form, just `entries` (= listen first, then the entries)
    let hist: Vec<Value> = match v["hist"].as_array() {
        Some(h) => h.clone(),
        None => std::iter::once(json!({"op": "listen"}))
            .chain(v["entries"].as_array().cloned().unwrap_or_default().into_iter().map(|e| json!({"op": "allow", "e": e})))
            .collect(),
    };
    if !hist.iter().any(|c| c["op"] == "listen") {
        return vec![]; // the default address 0.0.0.0:9000 is not ours to bind
    }
    let w = hist.iter().filter_map(|c| c["e"]["a"].as_array().map(|a| a.len())).find(|n| *n > 0).unwrap_or(4);
    let embs: Vec<usize> = if all_emb { (0..EMBEDDINGS.len()).collect() } else { vec![idx % EMBEDDINGS.len()] };
    let mut out = vec![];
    for ei in embs {
        let emb = &EMBEDDINGS[ei];
        let calls: Vec<Call> = hist
            .iter()
            .map(|c| match c["op"].as_str() {
                Some("listen") => Call::Listen,
                Some("allow") => Call::Allow(emb.entry(&c["e"])),
                _ => Call::Other,
            })
            .collect();
        let (mode, mut ops): (&str, Vec<Op>) = match v["ops"].as_array() {
            Some(a) => ("tlc", a.iter().filter_map(|o| op_from(o, Some(emb))).collect()),
            None => ("vec", vector_ops(w, emb, idx + ei, all_paths)),
        };
        if mode == "tlc" {
            // read what is still outstanding on open connections? no: leave them as the behaviour left them, and let
            // later clients ask: one peer inside and one outside the model's blocks, on fresh connections
            for (i, a) in [6usize, 15, 0].iter().enumerate() {
                let bits: Vec<u8> = (0..w).rev().map(|b| ((a >> b) & 1) as u8).collect();
                ops.push(Op::Probe { peer: emb.addr(&bits), path: ["metrics", "health", "root"][i].to_string() });
            }
        }
        out.push(Program { mode: mode.to_string(), calls, ops, flavor: ((idx + ei) % 4 == 3) as u64 });
    }
    out
}

fn rand_ip_near(rng: &mut rand::rngs::StdRng, focus: u32) -> u32 {
    match rng.random_range(0..4) {
        0 => focus,
        1 => focus ^ (1 << rng.random_range(0..24)),
        2 => (focus & 0xffff_ff00) | rng.random_range(0..256),
        _ => 0x7f00_0000 | rng.random_range(0..(1u32 << 24)),
    }
}

fn usable_peer(ip: u32) -> bool {
    (ip >> 24) == 127 && ip != 0x7fff_ffff
}

/// Random allowlist + the peers worth asking from (block edges and their outside neighbours).
fn random_config(rng: &mut rand::rngs::StdRng, plain_permille: u32) -> (Vec<String>, Vec<Ipv4Addr>) {
    let focus = 0x7f00_0000u32 | rng.random_range(0..(1u32 << 24));
    let n = [0usize, 1, 1, 2, 2, 3][rng.random_range(0..6)];
    let mut entries = vec![];
    let mut peers: Vec<u32> = vec![focus, 0x7f00_0001];
    for _ in 0..n {
        let r = rng.random_range(0..1000);
        if r < plain_permille {
            let ip = rand_ip_near(rng, focus);
            entries.push(Ipv4Addr::from(ip).to_string());
            peers.extend([ip, ip.wrapping_add(1), ip.wrapping_sub(1)]);
        } else if r < plain_permille + 25 {
            entries.push(["localhost", "", "127.0.0.1/33", "127.0.0.256/8", "abc/8", "127.0.0.1/x", "127.0.0/24"][rng.random_range(0..7)].to_string());
        } else if r < plain_permille + 70 {
            entries.push(["::1/128", "::/0", "10.0.0.0/8", "0.0.0.0/0", "128.0.0.0/1", "0.0.0.0/1", "126.0.0.0/7", "::ffff:127.0.0.1/128"][rng.random_range(0..8)].to_string());
        } else {
            let len = match rng.random_range(0..10) {
                0 => 32,
                1 => 31,
                2 => 30,
                3 => 24,
                4 => 16,
                5 => 8,
                6 => 9,
                _ => rng.random_range(1..=32),
            };
            let ip = rand_ip_near(rng, focus);
            let mask = if len == 0 { 0 } else { u32::MAX << (32 - len) };
            let addr = if rng.random_range(0..2) == 0 { ip & mask } else { ip }; // proper network address, or host bits set
            entries.push(format!("{}/{}", Ipv4Addr::from(addr), len));
            let net = ip & mask;
            let bc = net | !mask;
            peers.extend([net, net.wrapping_sub(1), bc, bc.wrapping_add(1), net.wrapping_add(1), ip]);
        }
    }
    for _ in 0..2 {
        peers.push(rand_ip_near(rng, focus));
    }
    let mut seen = HashSet::new();
    let peers: Vec<Ipv4Addr> = peers.into_iter().filter(|p| usable_peer(*p) && seen.insert(*p)).map(Ipv4Addr::from).collect();
    (entries, peers)
}

/// Client-side bookkeeping for generating only operations the specification's client can do.
#[derive(Clone, Default)]
struct Slot {
    open: bool,
    eof: bool,
    partial: bool,
    garbage: bool,
    pending: usize, // complete requests not yet read
}

fn random_faults(rng: &mut rand::rngs::StdRng, slots: &mut Vec<Slot>, peers: &[Ipv4Addr], nfaults: usize, ops: &mut Vec<Op>, bumps: bool) {
    let paths = ["metrics", "health", "root", "healthq", "other", "healthslash"];
    let mut faults = 0;
    let mut guard = 0;
    while faults < nfaults && guard < 200 {
        guard += 1;
        let c = rng.random_range(0..slots.len());
        let ci = c as i64 + 1;
        let s = slots[c].clone();
        if !s.open {
            ops.push(Op::Connect { c: ci, peer: peers[rng.random_range(0..peers.len())] });
            slots[c] = Slot { open: true, ..Default::default() };
            continue;
        }
        let can_send = !s.eof && !s.partial && !s.garbage && s.pending < 3;
        match rng.random_range(0..12) {
            0 | 1 if can_send => {
                ops.push(Op::Get { c: ci, path: paths[rng.random_range(0..paths.len())].to_string() });
                slots[c].pending += 1;
            }
            2 if can_send => {
                ops.push(Op::Partial { c: ci, path: paths[rng.random_range(0..paths.len())].to_string() });
                slots[c].partial = true;
                faults += 1;
            }
            3 if s.partial && !s.eof => {
                ops.push(Op::Rest { c: ci });
                slots[c].partial = false;
                slots[c].pending += 1;
            }
            4 | 5 if can_send => {
                ops.push(Op::Garbage { c: ci, kind: rng.random_range(0..GARBAGE.len() as u64) });
                slots[c].garbage = true;
                faults += 1;
            }
            6 if !s.eof => {
                ops.push(Op::HalfClose { c: ci });
                slots[c].eof = true;
                faults += 1;
            }
            7 | 8 => {
                ops.push(Op::Rst { c: ci, how: if rng.random_range(0..2) == 0 { "linger0".into() } else { "unread".into() } });
                slots[c] = Slot::default();
                faults += 1;
            }
            9 if s.pending > 0 || s.garbage || s.eof => {
                ops.push(Op::Read { c: ci });
                if s.pending > 0 {
                    slots[c].pending -= 1;
                }
            }
            10 if !s.partial && s.pending == 0 => {
                ops.push(Op::Close { c: ci });
                slots[c] = Slot::default();
            }
            11 if bumps => ops.push(Op::Bump { n: rng.random_range(1..4) }),
            _ => {}
        }
    }
}

fn random_program(rng: &mut rand::rngs::StdRng, idx: usize, plain_permille: u32) -> Program {
    random_program_k(rng, idx, plain_permille, false)
}

/// `soak`: one long sequential history against a single exporter -- some 300 faults over well above a hundred connections
/// that end badly, probes after every round: whatever a bad connection leaves behind must not add up to a refusal of
/// later clients (seeded change C18-inflight_slot_leak needs 64 of them).
fn random_program_k(rng: &mut rand::rngs::StdRng, idx: usize, plain_permille: u32, soak: bool) -> Program {
    let (entries, peers) = random_config(rng, plain_permille);
    let mut ops = vec![];
    let mut slots = vec![Slot::default(); rng.random_range(3..=6)];
    let kind = if soak { 0 } else { idx % 3 };
    let rounds = if soak { 70 } else if kind == 2 { 2 } else { rng.random_range(3..=6) };
    for r in 0..rounds {
        let nf = rng.random_range(1..=5);
        if kind == 2 && r == 1 {
            // concurrent scrapers while faults go on
            let mut faults = vec![];
            let nfp = rng.random_range(3..=8);
            random_faults(rng, &mut slots, &peers, nfp, &mut faults, false);
            ops.push(Op::Par { scrapers: rng.random_range(4..=8), each: rng.random_range(3..=6), peers: peers.clone(), faults });
        } else {
            random_faults(rng, &mut slots, &peers, nf, &mut ops, true);
        }
        // later clients
        let np = rng.random_range(1..=3);
        for _ in 0..np {
            let path = if rng.random_range(0..4) == 0 { HEALTH_PATHS[rng.random_range(0..2)] } else { RENDER_PATHS[rng.random_range(0..RENDER_PATHS.len())] };
            ops.push(Op::Probe { peer: peers[rng.random_range(0..peers.len())], path: path.to_string() });
        }
    }
    // the builder chain: the usual order half of the time, otherwise the listen address is set (once or several times)
    // and unrelated setters are called anywhere among the add_allowed_address calls
    let mut calls: Vec<Call> = entries.into_iter().map(Call::Allow).collect();
    if rng.random_range(0..2) == 0 {
        calls.insert(0, Call::Listen);
    } else {
        for _ in 0..rng.random_range(1..=3) {
            let at = rng.random_range(0..=calls.len());
            calls.insert(at, Call::Listen);
        }
        for _ in 0..rng.random_range(0..=2) {
            let at = rng.random_range(0..=calls.len());
            calls.insert(at, Call::Other);
        }
    }
    Program { mode: ["seq", "seq", "par"][kind].to_string(), calls, ops, flavor: (idx % 5 == 4) as u64 }
}

// ------------------------------------------------------------------------------------------------ main

fn main() {
    let args = vh::Args::parse();
    let mode = args.pos.first().cloned().unwrap_or_default();
    let out = args.get("out").unwrap_or("/tmp/c18_trace.ndjson").to_string();
    // a panic inside a connection task is caught by tokio (the client sees the connection die): keep stderr quiet
    std::panic::set_hook(Box::new(|_| {}));
    let srt = tokio::runtime::Builder::new_multi_thread().worker_threads(2).enable_all().thread_name("c18-server").build().expect("server runtime");
    let crt = tokio::runtime::Builder::new_multi_thread().worker_threads(1).enable_all().thread_name("c18-client").build().expect("client runtime");
    let mut w = vh::trace::Writer::create(&out);
    let mut st = Stats::default();
    let t0 = Instant::now();
    let mut run = 0u64;
    match mode.as_str() {
        "replay" => {
            let all_paths = args.get("paths") == Some("all");
            let all_emb = args.get("embed") == Some("all");
            let text = std::fs::read_to_string(args.get("in").expect("--in")).expect("read programs");
            for (idx, line) in text.lines().filter(|l| !l.trim().is_empty()).enumerate() {
                let v: Value = serde_json::from_str(line).expect("program json");
                for p in programs_from_line(&v, idx, all_paths, all_emb) {
                    if st.aborted_runs >= MAX_ABORTED_RUNS {
                        break;
                    }
                    run += 1;
                    run_program(&srt, &crt, &p, run, &mut w, &mut st);
                }
            }
        }
        "record" => {
            let runs: usize = args.num("runs", 30);
            let plain: u32 = args.num("plain-rate", 30);
            let mut rng = vh::rng(vh::seed(1).wrapping_mul(0x9e37_79b9).wrapping_add(18));
            for idx in 0..runs {
                let p = random_program(&mut rng, idx, plain);
                if st.aborted_runs >= MAX_ABORTED_RUNS {
                    break;
                }
                run += 1;
                run_program(&srt, &crt, &p, run, &mut w, &mut st);
            }
            for k in 0..args.num("soak", 1usize) {
                if st.aborted_runs >= MAX_ABORTED_RUNS {
                    break;
                }
                let p = random_program_k(&mut rng, runs + k, plain, true);
                run += 1;
                run_program(&srt, &crt, &p, run, &mut w, &mut st);
            }
        }
        _ => {
            eprintln!("usage: c18 replay --in programs.ndjson --out trace.ndjson [--paths all] [--embed all] | record --runs N --out trace.ndjson");
            std::process::exit(2);
        }
    }
    w.finish();
    println!(
        "{}",
        json!({"runs": st.runs, "events": st.events, "responses": st.resp, "n200": st.n200, "n403": st.n403, "n400": st.n400,
               "closed": st.closed, "timeouts": st.timeouts, "refused": st.refused, "build_err": st.build_err,
               "skipped_peers": st.skipped_peers, "panics": st.panics, "aborted_runs": st.aborted_runs, "distinct": st.distinct.len(),
               "distinct_nontrivial": st.nontrivial.len(), "wall_ms": t0.elapsed().as_millis() as u64})
    );
    // the runtimes own detached connection tasks of connections the programs left open: do not wait for them
    std::mem::forget(srt);
    std::mem::forget(crt);
    std::process::exit(0);
}
