//! C19 — DebuggingRecorder / Snapshotter conformance harness.
//!
//! A *program* is `{"recs":N,"w":W,"ops":[...]}`: N recorders, each installed locally
//! (`metrics::with_local_recorder`) on its own OS thread; every op names the recorder/thread `r`
//! it is issued on.  Ops (the same records TLC prints from SimDebugSnapshot.tla):
//!   {"ev":"describe","r","k","n","u","d"}          describe_<kind>(name n, unit u (0 = None), description d)
//!   {"ev":"register","r","k","n","l"}              register_<kind>(key (name n, label set l)) -> handle kept
//!   {"ev":"update","r","k","n","l","op","v","c"}   operation on a handle obtained earlier for that metric
//!   {"ev":"snapshot","r"[,"snap":expected]}        Snapshotter::snapshot().into_vec() of recorder r
//! Optional per-op fields chosen by the harness when absent: "via" (how the key / strings are built),
//! "disp" ("tls" = through the thread's current recorder, "direct" = trait call on the recorder),
//! "who" (thread taking the snapshot: 0 = main, else a worker thread, possibly the *other* one).
//!
//! The threads run in lock-step (one op at a time, chosen by the program), so the log is a total order.
//! Every op is logged; a snapshot is logged with its full content, mapped back to model values
//! (kind, name id, label-set id by *canonical* label set, unit id, description id, value).
//! Counters are scaled: model value x <-> x * 2^64 / w  (w a power of two <= 16), so u64 wrap-around is
//! exact arithmetic modulo w; w = 1000000 means unscaled.  Gauge / histogram values are integer valued f64.
//!
//! modes: record --runs N --out F      seeded random programs
//!        replay --in P --out F        programs from TLC (ndjson), snapshots compared with "snap"
//!        rounds --rounds R --gated G --threads N --out F
//!             concurrent use of ONE recorder, real parallel threads: per round a fresh DebuggingRecorder shared
//!             by N threads; behind a spin barrier every thread builds an equal key its own way, registers it as
//!             counter, gauge, histogram (a barrier before each) and updates the handle it got once
//!             (increment(1), increment(1.0), record(tid)); after all threads have finished (no snapshot runs
//!             concurrently with updates) the snapshot is logged as a `round` event.  The first R rounds run
//!             free; G further rounds are *gated*: a per-thread verification hook parks each thread at the
//!             `reg.gap.pre` point of Registry::get_or_create_* (between dropping the shard read guard and
//!             taking the write guard) until all N threads are there, i.e. the schedule in which every thread
//!             misses the key under the read guard (if the point is not reached, nothing is parked).
//!        drains --a-free R1 --a-gated R2 --b-gated R3 --b-free R4 --listed 0|1 --out F
//!             concurrent snapshots of ONE histogram through clones of one Snapshotter (real threads); values
//!             1..N are recorded, all distinct; every snapshot's histogram values are logged (`drain` event) and TLC
//!             checks: never a value twice, none invented, and -- when no record() overlapped a snapshot -- every
//!             value exactly once.
//!             A  N values recorded, recording stops, K threads released by a spin barrier take one snapshot each,
//!                then a final snapshot (strict).  gated: each thread is parked at the bucket's `clr.load.pre`
//!                point (entry of clear_with, before the tail is loaded) until all K are there.
//!             B-gated  writer and snapshotter in hand-shake: the snapshotter is parked at `clr.load.pre` while
//!                the writer records one more value (record() returns before the snapshot goes on), so no push
//!                overlaps the drain (strict).
//!             B-free  a writer records while another thread keeps snapshotting (not strict: see DrainOK).
//!        describes --names K --threads T --out F
//!             concurrent describe_* calls on ONE recorder: for each of K fresh names T threads, released together by
//!             a spin barrier, call describe_<kind>(name, unit_t, description_t) once (variants: exactly one thread
//!             gives a unit; two threads give different units; all the same description; nobody gives a unit);
//!             then one thread registers every name and takes one snapshot.  Per name a `descr` event logs the calls
//!             and the (unit, description) shown; TLC decides that it is the outcome of some sequential order.
use metrics::{Counter, Gauge, Histogram, Key, KeyName, Label, Level, Metadata, Recorder, SharedString, Unit};
use metrics_util::debugging::{DebugValue, DebuggingRecorder, Snapshotter};
use metrics_util::MetricKind;
use rand::rngs::StdRng;
use rand::Rng;
use serde_json::{json, Value};
use std::collections::{HashMap, HashSet};
use std::panic::{catch_unwind, AssertUnwindSafe};
use std::sync::mpsc::{channel, Receiver, Sender};
use vh::trace::Writer;

// ------------------------------------------------------------------------------------------------ universe
const NAMES: [&str; 4] = ["", "req", "lat", "req_total"]; // name ids 1..=3
const DESCS: [&str; 4] = ["", "first description", "second description", ""]; // description ids 1..=3 (3 = empty text)
const NLSETS: i64 = 5;

static L0: [Label; 0] = [];
static L1: [Label; 1] = [Label::from_static_parts("a", "1")];
static L2: [Label; 2] = [Label::from_static_parts("a", "1"), Label::from_static_parts("b", "2")];
static L2R: [Label; 2] = [Label::from_static_parts("b", "2"), Label::from_static_parts("a", "1")];
static L3: [Label; 1] = [Label::from_static_parts("a", "2")];
static L4: [Label; 3] =
    [Label::from_static_parts("a", "1"), Label::from_static_parts("b", "2"), Label::from_static_parts("c", "3")];
static L4R: [Label; 3] =
    [Label::from_static_parts("c", "3"), Label::from_static_parts("a", "1"), Label::from_static_parts("b", "2")];

fn static_labels(l: i64, rev: bool) -> &'static [Label] {
    match (l, rev) {
        (0, _) => &L0,
        (1, _) => &L1,
        (2, false) => &L2,
        (2, true) => &L2R,
        (3, _) => &L3,
        (4, false) => &L4,
        _ => &L4R,
    }
}

fn owned_labels(l: i64, rev: bool) -> Vec<Label> {
    static_labels(l, rev).iter().map(|x| Label::new(x.key().to_string(), x.value().to_string())).collect()
}

/// canonical label set -> id (-1: not a label set of the universe)
fn lset_id(key: &Key) -> i64 {
    let mut got: Vec<(String, String)> = key.labels().map(|l| (l.key().to_string(), l.value().to_string())).collect();
    got.sort();
    for l in 0..NLSETS {
        let mut want: Vec<(String, String)> =
            static_labels(l, false).iter().map(|x| (x.key().to_string(), x.value().to_string())).collect();
        want.sort();
        if want == got {
            return l;
        }
    }
    -1
}

fn unit_of(u: i64) -> Option<Unit> {
    match u {
        1 => Some(Unit::Count),
        2 => Some(Unit::Bytes),
        3 => Some(Unit::Seconds),
        _ => None,
    }
}
fn unit_id(u: &Option<Unit>) -> i64 {
    match u {
        None => 0,
        Some(Unit::Count) => 1,
        Some(Unit::Bytes) => 2,
        Some(Unit::Seconds) => 3,
        Some(_) => 99,
    }
}
fn desc_id(d: &Option<SharedString>) -> i64 {
    match d {
        None => 0,
        Some(s) => (1..=3).find(|i| DESCS[*i as usize] == s.as_ref()).unwrap_or(99),
    }
}
fn name_id(n: &str) -> i64 {
    (1..=3).find(|i| NAMES[*i as usize] == n).unwrap_or(0)
}
fn kind_str(k: MetricKind) -> &'static str {
    match k {
        MetricKind::Counter => "c",
        MetricKind::Gauge => "g",
        MetricKind::Histogram => "h",
    }
}
/// integer valued f64 -> i64 (anything else: a sentinel no model value equals)
fn f_int(f: f64) -> i64 {
    if f.is_finite() && f.fract() == 0.0 && f.abs() < 1.0e9 {
        f as i64
    } else {
        -999_999_999
    }
}

const NVIA: i64 = 7;
/// The same key, built in different ways (static / owned strings, label order, copy-on-write variants).
fn build_key(n: i64, l: i64, via: i64) -> Key {
    let name: &'static str = NAMES[n as usize];
    match via {
        0 => Key::from_static_parts(name, static_labels(l, false)),
        1 => Key::from_parts(name.to_string(), owned_labels(l, false)),
        2 => Key::from_parts(name.to_string(), owned_labels(l, true)),
        3 => Key::from_static_labels(name.to_string(), static_labels(l, true)),
        4 => Key::from_name(name).with_extra_labels(owned_labels(l, false)),
        _ => {
            // a clone of a statically built key whose hash has not been computed yet
            let k = Key::from_static_parts(name, static_labels(l, true));
            k.clone()
        }
    }
}

static META: Metadata<'static> = Metadata::new("c19", Level::INFO, Some("c19::harness"));

macro_rules! by_ls {
    ($mac:ident, $name:literal, $l:expr) => {
        match $l {
            0 => metrics::$mac!($name),
            1 => metrics::$mac!($name, "a" => "1"),
            2 => metrics::$mac!($name, "a" => "1", "b" => "2"),
            3 => metrics::$mac!($name, "a" => "2"),
            _ => metrics::$mac!($name, "b" => "2", "c" => "3", "a" => "1"),
        }
    };
}
macro_rules! by_key {
    ($mac:ident, $n:expr, $l:expr) => {
        match $n {
            1 => by_ls!($mac, "req", $l),
            2 => by_ls!($mac, "lat", $l),
            _ => by_ls!($mac, "req_total", $l),
        }
    };
}

enum Handle {
    C(Counter),
    G(Gauge),
    H(Histogram),
}

// ------------------------------------------------------------------------------------------------ worker
enum Req {
    Op(Value),
    Snap(Snapshotter, Value),
    Stop,
}

fn snapshot_json(s: &Snapshotter, scale: u64) -> Value {
    let mut out = vec![];
    for (ck, unit, desc, value) in s.snapshot().into_vec() {
        let (v, hv): (i64, Vec<i64>) = match value {
            DebugValue::Counter(c) => {
                if c % scale == 0 && c / scale < 1_000_000_000 {
                    ((c / scale) as i64, vec![])
                } else {
                    (-1, vec![])
                }
            }
            DebugValue::Gauge(g) => (f_int(g.into_inner()), vec![]),
            DebugValue::Histogram(vs) => (0, vs.iter().map(|x| f_int(x.into_inner())).collect()),
        };
        out.push(json!({"k": kind_str(ck.kind()), "n": name_id(ck.key().name()), "l": lset_id(ck.key()),
                        "u": unit_id(&unit), "d": desc_id(&desc), "v": v, "hv": hv}));
    }
    Value::Array(out)
}

struct Worker {
    handles: HashMap<(String, i64, i64), Vec<Handle>>,
    scale: u64,
}

impl Worker {
    fn describe(&self, rec: &DebuggingRecorder, op: &Value) {
        let (k, n, u, d) = (op["k"].as_str().unwrap(), op["n"].as_i64().unwrap(), op["u"].as_i64().unwrap(), op["d"].as_i64().unwrap());
        let via = op["via"].as_i64().unwrap_or(0);
        let direct = op["disp"].as_str() == Some("direct");
        let name: &'static str = NAMES[n as usize];
        let desc: &'static str = DESCS[d as usize];
        let unit = unit_of(u);
        if via == 2 {
            // the describe_*! macros (always through the thread's current recorder)
            match (k, unit) {
                ("c", Some(u)) => metrics::describe_counter!(name, u, desc),
                ("c", None) => metrics::describe_counter!(name, desc),
                ("g", Some(u)) => metrics::describe_gauge!(name.to_string(), u, desc.to_string()),
                ("g", None) => metrics::describe_gauge!(name.to_string(), desc.to_string()),
                (_, Some(u)) => metrics::describe_histogram!(name, u, desc),
                (_, None) => metrics::describe_histogram!(name, desc),
            }
            return;
        }
        let (kn, ds): (KeyName, SharedString) = if via == 0 {
            (KeyName::from_const_str(name), SharedString::const_str(desc))
        } else {
            (KeyName::from(name.to_string()), SharedString::from(desc.to_string()))
        };
        let call = |r: &dyn Recorder| match k {
            "c" => r.describe_counter(kn.clone(), unit.clone(), ds.clone()),
            "g" => r.describe_gauge(kn.clone(), unit.clone(), ds.clone()),
            _ => r.describe_histogram(kn.clone(), unit.clone(), ds.clone()),
        };
        if direct {
            call(rec)
        } else {
            metrics::with_recorder(|r| call(r))
        }
    }

    fn register(&mut self, rec: &DebuggingRecorder, op: &Value) {
        let (k, n, l) = (op["k"].as_str().unwrap().to_string(), op["n"].as_i64().unwrap(), op["l"].as_i64().unwrap());
        let via = op["via"].as_i64().unwrap_or(0);
        let direct = op["disp"].as_str() == Some("direct");
        let h = if via == NVIA - 1 {
            // the registration macros with literal names and labels
            match k.as_str() {
                "c" => Handle::C(by_key!(counter, n, l)),
                "g" => Handle::G(by_key!(gauge, n, l)),
                _ => Handle::H(by_key!(histogram, n, l)),
            }
        } else {
            let key = build_key(n, l, via);
            let reg = |r: &dyn Recorder| match k.as_str() {
                "c" => Handle::C(r.register_counter(&key, &META)),
                "g" => Handle::G(r.register_gauge(&key, &META)),
                _ => Handle::H(r.register_histogram(&key, &META)),
            };
            if direct {
                reg(rec)
            } else {
                metrics::with_recorder(|r| reg(r))
            }
        };
        self.handles.entry((k, n, l)).or_default().push(h);
    }

    fn update(&mut self, op: &Value) -> bool {
        let (k, n, l) = (op["k"].as_str().unwrap().to_string(), op["n"].as_i64().unwrap(), op["l"].as_i64().unwrap());
        let (o, v, c) = (op["op"].as_str().unwrap(), op["v"].as_i64().unwrap(), op["c"].as_i64().unwrap_or(1));
        let pick = op["h"].as_u64().unwrap_or(0) as usize;
        let hs = match self.handles.get(&(k, n, l)) {
            Some(hs) if !hs.is_empty() => hs,
            _ => return false,
        };
        match (&hs[pick % hs.len()], o) {
            (Handle::C(h), "inc") => h.increment(v as u64 * self.scale),
            (Handle::C(h), "abs") => h.absolute(v as u64 * self.scale),
            (Handle::G(h), "ginc") => h.increment(v as f64),
            (Handle::G(h), "gdec") => h.decrement(v as f64),
            (Handle::G(h), "gset") => h.set(v as f64),
            (Handle::H(h), "rec") => {
                if c == 1 && pick % 2 == 0 {
                    h.record(v as f64)
                } else {
                    h.record_many(v as f64, c as usize)
                }
            }
            _ => return false,
        }
        true
    }
}

fn worker(r: i64, scale: u64, rx: Receiver<Req>, tx: Sender<Value>, stx: Sender<Snapshotter>) {
    let rec = DebuggingRecorder::new();
    stx.send(rec.snapshotter()).unwrap();
    let mut w = Worker { handles: HashMap::new(), scale };
    // the recorder is this thread's local recorder for the whole run
    metrics::with_local_recorder(&rec, || loop {
        match rx.recv() {
            Ok(Req::Op(op)) => {
                let mut ev = op.clone();
                let res = catch_unwind(AssertUnwindSafe(|| match op["ev"].as_str().unwrap() {
                    "describe" => {
                        w.describe(&rec, &op);
                        true
                    }
                    "register" => {
                        w.register(&rec, &op);
                        true
                    }
                    "update" => w.update(&op),
                    _ => false,
                }));
                match res {
                    Ok(true) => {}
                    Ok(false) => ev = json!({"ev": "harness-error", "r": r, "op": op}),
                    Err(_) => ev = json!({"ev": "panic", "r": r, "op": op}),
                }
                tx.send(ev).unwrap();
            }
            Ok(Req::Snap(s, op)) => {
                let mut ev = op.clone();
                match catch_unwind(AssertUnwindSafe(|| snapshot_json(&s, scale))) {
                    Ok(sn) => ev["snap"] = sn,
                    Err(_) => ev = json!({"ev": "panic", "r": r, "op": op}),
                }
                tx.send(ev).unwrap();
            }
            Ok(Req::Stop) | Err(_) => break,
        }
    });
}

// ------------------------------------------------------------------------------------------------ running a program
#[derive(Default)]
struct Stats {
    events: usize,
    snapshots: usize,
    nonempty: usize,
    compared: usize,
    mismatches: usize,
    panics: usize,
    mismatch_at: Vec<Value>,
}

/// expected snapshot (from TLC): hv is a list of [value, count] pairs; actual: list of values
fn same_snapshot(exp: &Value, act: &Value) -> bool {
    let (e, a) = (exp.as_array().unwrap(), act.as_array().unwrap());
    if e.len() != a.len() {
        return false;
    }
    for (x, y) in e.iter().zip(a.iter()) {
        for f in ["k", "n", "l", "u", "d", "v"] {
            if x[f] != y[f] {
                return false;
            }
        }
        let mut want: Vec<i64> = vec![];
        for p in x["hv"].as_array().unwrap() {
            for _ in 0..p[1].as_i64().unwrap() {
                want.push(p[0].as_i64().unwrap());
            }
        }
        let mut got: Vec<i64> = y["hv"].as_array().unwrap().iter().map(|v| v.as_i64().unwrap()).collect();
        want.sort();
        got.sort();
        if want != got {
            return false;
        }
    }
    true
}

fn run_program(idx: usize, prog: &Value, rng: &mut StdRng, out: &mut Writer, st: &mut Stats) {
    let recs = prog["recs"].as_i64().unwrap_or(1);
    let w = prog["w"].as_u64().unwrap_or(1_000_000);
    let scale: u64 = if w <= 16 && w.is_power_of_two() && w > 1 { (1u64 << 63) / w * 2 } else { 1 };
    out.put(&json!({"ev": "reset", "recs": recs, "w": w, "prog": idx}));
    st.events += 1;
    let mut txs = vec![];
    let mut snaps: Vec<Snapshotter> = vec![];
    let mut joins = vec![];
    let (etx, erx) = channel::<Value>();
    for r in 1..=recs {
        let (tx, rx) = channel::<Req>();
        let (stx, srx) = channel::<Snapshotter>();
        let etx2 = etx.clone();
        joins.push(std::thread::spawn(move || worker(r, scale, rx, etx2, stx)));
        snaps.push(srx.recv().unwrap());
        txs.push(tx);
    }
    for (oi, op0) in prog["ops"].as_array().unwrap().iter().enumerate() {
        let mut op = op0.clone();
        let r = op["r"].as_i64().unwrap();
        let expected = op.as_object_mut().unwrap().remove("snap");
        // choices the program leaves open
        let kind_of_op = op["ev"].as_str().unwrap_or("").to_string();
        if (kind_of_op == "describe" || kind_of_op == "register") && op.get("via").is_none() {
            let nv = if kind_of_op == "describe" { 3 } else { NVIA };
            op["via"] = json!(rng.random_range(0..nv));
        }
        if (kind_of_op == "describe" || kind_of_op == "register") && op.get("disp").is_none() {
            op["disp"] = json!(if rng.random_range(0..3) == 0 { "direct" } else { "tls" });
        }
        if kind_of_op == "update" && op.get("h").is_none() {
            op["h"] = json!(rng.random_range(0..8));
        }
        let ev = if op["ev"] == "snapshot" {
            if op.get("who").is_none() {
                op["who"] = json!(rng.random_range(0..=recs));
            }
            let who = op["who"].as_i64().unwrap();
            if who == 0 {
                let mut ev = op.clone();
                match catch_unwind(AssertUnwindSafe(|| snapshot_json(&snaps[(r - 1) as usize], scale))) {
                    Ok(sn) => ev["snap"] = sn,
                    Err(_) => ev = json!({"ev": "panic", "r": r, "op": op}),
                }
                ev
            } else {
                txs[(who - 1) as usize].send(Req::Snap(snaps[(r - 1) as usize].clone(), op.clone())).unwrap();
                erx.recv().unwrap()
            }
        } else {
            txs[(r - 1) as usize].send(Req::Op(op.clone())).unwrap();
            erx.recv().unwrap()
        };
        if ev["ev"] == "panic" {
            st.panics += 1;
        }
        if ev["ev"] == "snapshot" {
            st.snapshots += 1;
            if ev["snap"].as_array().map(|a| a.len() > 1).unwrap_or(false) {
                st.nonempty += 1;
            }
            if let Some(exp) = expected {
                st.compared += 1;
                if !same_snapshot(&exp, &ev["snap"]) {
                    st.mismatches += 1;
                    if st.mismatch_at.len() < 5 {
                        st.mismatch_at.push(json!({"prog": idx, "op": oi, "expected": exp, "actual": ev["snap"]}));
                    }
                }
            }
        }
        out.put(&ev);
        st.events += 1;
    }
    for tx in &txs {
        let _ = tx.send(Req::Stop);
    }
    for j in joins {
        let _ = j.join();
    }
}

// ------------------------------------------------------------------------------------------------ random programs
fn random_program(rng: &mut StdRng) -> Value {
    let recs: i64 = if rng.random_range(0..5) < 2 { 2 } else { 1 };
    let scaled = rng.random_range(0..2) == 0;
    let w: i64 = if scaled { 16 } else { 1_000_000 };
    let nops = rng.random_range(4..60);
    // a small active universe makes re-registration, shared names and shared metadata frequent
    let nn = rng.random_range(1..=3);
    let names: Vec<i64> = (0..nn).map(|_| rng.random_range(1..=3)).collect();
    let nl = rng.random_range(1..=3);
    let lsets: Vec<i64> = (0..nl).map(|_| rng.random_range(0..NLSETS)).collect();
    let kinds = ["c", "g", "h"];
    let mut registered: Vec<Vec<(String, i64, i64)>> = vec![vec![]; recs as usize];
    let mut ops = vec![];
    for _ in 0..nops {
        let r = rng.random_range(1..=recs);
        let reg = &mut registered[(r - 1) as usize];
        let mut class = rng.random_range(0..11);
        if class >= 5 && class < 9 && reg.is_empty() {
            class = 2;
        }
        match class {
            0 | 1 => {
                let k = kinds[rng.random_range(0..3)];
                let n = names[rng.random_range(0..names.len())];
                ops.push(json!({"ev": "describe", "r": r, "k": k, "n": n, "u": rng.random_range(0..=3), "d": rng.random_range(1..=3)}));
            }
            2 | 3 | 4 => {
                let k = kinds[rng.random_range(0..3)];
                let n = names[rng.random_range(0..names.len())];
                let l = lsets[rng.random_range(0..lsets.len())];
                if !reg.contains(&(k.to_string(), n, l)) {
                    reg.push((k.to_string(), n, l));
                }
                ops.push(json!({"ev": "register", "r": r, "k": k, "n": n, "l": l}));
            }
            5 | 6 | 7 | 8 => {
                let (k, n, l) = reg[rng.random_range(0..reg.len())].clone();
                let (o, v, c): (&str, i64, i64) = match k.as_str() {
                    "c" => {
                        if rng.random_range(0..4) == 0 {
                            ("abs", [1, 3, 9, 14][rng.random_range(0..4)], 1)
                        } else {
                            ("inc", [0, 1, 1, 2, 5, 15][rng.random_range(0..6)], 1)
                        }
                    }
                    "g" => (["ginc", "gdec", "gset"][rng.random_range(0..3)], rng.random_range(0..13), 1),
                    _ => {
                        let c = match rng.random_range(0..20) {
                            0 => 0,
                            1 | 2 => rng.random_range(2..5),
                            3 => 64,
                            4 => rng.random_range(60..140),
                            _ => 1,
                        };
                        ("rec", rng.random_range(0..10), c)
                    }
                };
                ops.push(json!({"ev": "update", "r": r, "k": k, "n": n, "l": l, "op": o, "v": v, "c": c}));
            }
            _ => ops.push(json!({"ev": "snapshot", "r": r})),
        }
    }
    for r in 1..=recs {
        ops.push(json!({"ev": "snapshot", "r": r}));
    }
    json!({"recs": recs, "w": w, "ops": ops})
}

// ------------------------------------------------------------------------------------------------ parallel rounds
use std::sync::atomic::{AtomicUsize, Ordering as AO};
use std::sync::Arc;

thread_local! {
    static CUR_GATE: std::cell::Cell<usize> = std::cell::Cell::new(usize::MAX);
}

fn spin_until(a: &AtomicUsize, n: usize, limit: Option<std::time::Duration>) -> bool {
    let t0 = std::time::Instant::now();
    let mut i = 0u32;
    while a.load(AO::Acquire) < n {
        i += 1;
        if i < 4000 {
            std::hint::spin_loop();
        } else {
            std::thread::yield_now();
            if let Some(l) = limit {
                if i % 64 == 0 && t0.elapsed() > l {
                    return false;
                }
            }
        }
    }
    true
}

/// `rounds` rounds with `n` threads sharing one fresh recorder per round; returns (events, bad rounds, gate timeouts)
fn run_rounds(n: usize, rounds: usize, gated: bool, base: usize, out: &mut Writer) -> (usize, usize, usize) {
    if rounds == 0 {
        return (0, 0, 0);
    }
    let recs: Vec<DebuggingRecorder> = (0..rounds).map(|_| DebuggingRecorder::new()).collect();
    let starts: Vec<AtomicUsize> = (0..rounds * 3).map(|_| AtomicUsize::new(0)).collect();
    let gates: Arc<Vec<AtomicUsize>> = Arc::new((0..rounds * 3).map(|_| AtomicUsize::new(0)).collect());
    let timeouts = Arc::new(AtomicUsize::new(0));
    let panics = AtomicUsize::new(0);
    let shape = |round: usize| -> (i64, i64) { (1 + ((base + round) % 3) as i64, [2i64, 4, 1, 2, 0, 4, 3][(base + round) % 7]) };
    std::thread::scope(|sc| {
        for t in 1..=n {
            let (recs, starts, panics) = (&recs, &starts, &panics);
            let gates = gates.clone();
            let timeouts = timeouts.clone();
            sc.spawn(move || {
                if gated {
                    let g2 = gates.clone();
                    let to = timeouts.clone();
                    metrics::verif::install(Box::new(move |site, _| {
                        if site == "reg.gap.pre" {
                            let g = CUR_GATE.with(|c| c.replace(usize::MAX));
                            if g != usize::MAX {
                                g2[g].fetch_add(1, AO::AcqRel);
                                if !spin_until(&g2[g], n, Some(std::time::Duration::from_secs(5))) {
                                    to.fetch_add(1, AO::Relaxed);
                                }
                            }
                        }
                    }));
                }
                for round in 0..rounds {
                    let rec = &recs[round];
                    let (nm, l) = shape(round);
                    let via = ((t + round) % (NVIA as usize - 1)) as i64;
                    let res = catch_unwind(AssertUnwindSafe(|| {
                        // equal keys, each built in this thread's own way, before the barrier
                        let (kc, kg, kh) = (build_key(nm, l, via), build_key(nm, l, via), build_key(nm, l, via));
                        let arrive = |i: usize| {
                            starts[round * 3 + i].fetch_add(1, AO::AcqRel);
                            spin_until(&starts[round * 3 + i], n, None);
                            if gated {
                                CUR_GATE.with(|c| c.set(round * 3 + i));
                            }
                        };
                        arrive(0);
                        let c = rec.register_counter(&kc, &META);
                        arrive(1);
                        let g = rec.register_gauge(&kg, &META);
                        arrive(2);
                        let h = rec.register_histogram(&kh, &META);
                        CUR_GATE.with(|c| c.set(usize::MAX));
                        c.increment(1);
                        g.increment(1.0);
                        h.record(t as f64);
                    }));
                    if res.is_err() {
                        panics.fetch_add(1, AO::Relaxed);
                        // keep the other threads' barriers moving
                        for i in 0..3 {
                            if starts[round * 3 + i].load(AO::Acquire) < n {
                                starts[round * 3 + i].fetch_add(1, AO::AcqRel);
                            }
                        }
                    }
                }
                if gated {
                    metrics::verif::clear();
                }
            });
        }
    });
    // quiescence: every thread has finished every round
    let mut bad = 0;
    let mut events = 0;
    for (round, rec) in recs.iter().enumerate() {
        let (nm, l) = shape(round);
        let snap = match catch_unwind(AssertUnwindSafe(|| snapshot_json(&rec.snapshotter(), 1))) {
            Ok(s) => s,
            Err(_) => json!("panic"),
        };
        // harness-side tally only (the verdict is TLC's): counter = n, gauge = n, histogram = every tid once
        let ok = snap.as_array().map(|a| {
            a.len() == 3 && a[0]["v"] == json!(n) && a[1]["v"] == json!(n) && {
                let mut hv: Vec<i64> = a[2]["hv"].as_array().unwrap().iter().map(|x| x.as_i64().unwrap()).collect();
                hv.sort();
                hv == (1..=n as i64).collect::<Vec<_>>()
            }
        }).unwrap_or(false);
        if !ok {
            bad += 1;
        }
        out.put(&json!({"ev": "reset", "recs": 1, "w": 1_000_000, "round": base + round}));
        if snap.is_array() {
            out.put(&json!({"ev": "round", "mode": if gated { "gated" } else { "free" }, "n": n, "nm": nm, "l": l, "snap": snap}));
        } else {
            out.put(&json!({"ev": "panic", "r": 1, "op": "round snapshot"}));
        }
        events += 2;
    }
    if panics.load(AO::Relaxed) > 0 {
        out.put(&json!({"ev": "panic", "r": 1, "op": "round thread", "count": panics.load(AO::Relaxed)}));
        events += 1;
    }
    (events, bad, timeouts.load(AO::Relaxed))
}

// ------------------------------------------------------------------------------------------------ concurrent drains
use std::sync::atomic::AtomicBool;

thread_local! {
    static GATE_ARMED: std::cell::Cell<bool> = std::cell::Cell::new(false);
}

/// histogram values of the single metric of the recorder (None: the snapshot does not have that shape)
fn hist_values(s: &Snapshotter) -> Option<Vec<i64>> {
    let v = s.snapshot().into_vec();
    if v.len() != 1 {
        return None;
    }
    match &v[0].3 {
        DebugValue::Histogram(vs) if v[0].0.kind() == MetricKind::Histogram => Some(vs.iter().map(|x| f_int(x.into_inner())).collect()),
        _ => None,
    }
}

fn wait_for(cond: impl Fn() -> bool, limit: std::time::Duration) -> bool {
    let t0 = std::time::Instant::now();
    let mut i = 0u32;
    while !cond() {
        i += 1;
        if i < 2000 {
            std::hint::spin_loop();
        } else {
            std::thread::yield_now();
            if i % 64 == 0 && t0.elapsed() > limit {
                return false;
            }
        }
    }
    true
}

struct DrainStats {
    events: usize,
    dup_rounds: usize,
    missing_values: usize,
    gate_timeouts: usize,
    bad_shape: usize,
}

fn drain_event(mode: &str, recorded: usize, strict: bool, listed: bool, nsnaps: usize, snaps: &[Option<Vec<i64>>], out: &mut Writer, st: &mut DrainStats) {
    out.put(&json!({"ev": "reset", "recs": 1, "w": 1_000_000}));
    st.events += 2;
    if snaps.iter().any(|s| s.is_none()) {
        st.bad_shape += 1;
        out.put(&json!({"ev": "panic", "r": 1, "op": "drain snapshot without exactly one histogram"}));
        return;
    }
    let lists: Vec<&Vec<i64>> = snaps.iter().map(|s| s.as_ref().unwrap()).filter(|s| !s.is_empty()).collect();
    // harness-side tally (information only; the verdict is TLC's)
    let mut seen = vec![0u32; recorded + 1];
    let mut dup = false;
    for l in &lists {
        for &v in l.iter() {
            if v >= 1 && (v as usize) <= recorded {
                seen[v as usize] += 1;
                if seen[v as usize] > 1 {
                    dup = true;
                }
            }
        }
    }
    if dup {
        st.dup_rounds += 1;
    }
    st.missing_values += seen[1..].iter().filter(|c| **c == 0).count();
    // nsnaps = snapshots taken in all (also the empty ones, which are not listed), writers = recording threads
    out.put(&json!({"ev": "drain", "mode": mode, "recorded": recorded, "strict": strict, "listed": listed,
                    "nsnaps": nsnaps, "writers": 1, "snaps": lists}));
}

fn drains_a(rounds: usize, gated: bool, rng: &mut StdRng, out: &mut Writer, st: &mut DrainStats) {
    for round in 0..rounds {
        let k: usize = rng.random_range(2..=4);
        let n: usize = if gated { rng.random_range(1..200) } else { rng.random_range(50..1500) };
        let rec = DebuggingRecorder::new();
        let snap = rec.snapshotter();
        let key = build_key(1 + (round % 3) as i64, (round % NLSETS as usize) as i64, (round % 6) as i64);
        let h = rec.register_histogram(&key, &META);
        for v in 1..=n {
            h.record(v as f64);
        }
        // nothing is recorded from here on
        let start = AtomicUsize::new(0);
        let gate = Arc::new(AtomicUsize::new(0));
        let tmo = Arc::new(AtomicUsize::new(0));
        let mut snaps: Vec<Option<Vec<i64>>> = vec![];
        std::thread::scope(|sc| {
            let hs: Vec<_> = (0..k)
                .map(|_| {
                    let s = snap.clone();
                    let (start, gate, tmo) = (&start, gate.clone(), tmo.clone());
                    sc.spawn(move || {
                        if gated {
                            let (g2, t2) = (gate.clone(), tmo.clone());
                            metrics::verif::install(Box::new(move |site, _| {
                                if site == "clr.load.pre" && GATE_ARMED.with(|c| c.replace(false)) {
                                    g2.fetch_add(1, AO::AcqRel);
                                    if !spin_until(&g2, k, Some(std::time::Duration::from_secs(5))) {
                                        t2.fetch_add(1, AO::Relaxed);
                                    }
                                }
                            }));
                            GATE_ARMED.with(|c| c.set(true));
                        }
                        start.fetch_add(1, AO::AcqRel);
                        spin_until(start, k, None);
                        let r = catch_unwind(AssertUnwindSafe(|| hist_values(&s))).unwrap_or(None);
                        if gated {
                            metrics::verif::clear();
                        }
                        r
                    })
                })
                .collect();
            for j in hs {
                snaps.push(j.join().unwrap_or(None));
            }
        });
        snaps.push(hist_values(&snap)); // whatever the concurrent snapshots did not report is still there
        st.gate_timeouts += tmo.load(AO::Relaxed);
        drain_event(if gated { "A-gated" } else { "A-free" }, n, true, false, snaps.len(), &snaps, out, st);
    }
}

fn drains_b_gated(rounds: usize, rng: &mut StdRng, out: &mut Writer, st: &mut DrainStats) {
    for round in 0..rounds {
        let iters: usize = rng.random_range(2..7);
        let before: Vec<usize> = (0..iters).map(|_| rng.random_range(0..4)).collect();
        let rec = DebuggingRecorder::new();
        let snap = rec.snapshotter();
        let key = build_key(1 + (round % 3) as i64, (round % NLSETS as usize) as i64, (round % 6) as i64);
        let h = rec.register_histogram(&key, &META);
        let wready = AtomicUsize::new(0); // writer finished the values preceding snapshot j
        let atgate = Arc::new(AtomicUsize::new(0)); // snapshotter is parked at clr.load.pre of snapshot j
        let pushed = Arc::new(AtomicUsize::new(0)); // writer recorded the in-window value of snapshot j
        let sdone = AtomicUsize::new(0); // snapshot j returned
        let tmo = Arc::new(AtomicUsize::new(0));
        let limit = std::time::Duration::from_secs(5);
        let mut snaps: Vec<Option<Vec<i64>>> = vec![];
        let mut total = 0usize;
        std::thread::scope(|sc| {
            let (wready, sdone, before) = (&wready, &sdone, &before);
            let (atgate_w, pushed_w) = (atgate.clone(), pushed.clone());
            let writer = sc.spawn(move || {
                let mut next = 1usize;
                for j in 1..=iters {
                    for _ in 0..before[j - 1] {
                        h.record(next as f64);
                        next += 1;
                    }
                    wready.store(j, AO::Release);
                    wait_for(|| atgate_w.load(AO::Acquire) >= j || sdone.load(AO::Acquire) >= j, limit);
                    if atgate_w.load(AO::Acquire) >= j && sdone.load(AO::Acquire) < j {
                        h.record(next as f64); // returns before the snapshot goes on
                        next += 1;
                    }
                    pushed_w.store(j, AO::Release);
                    wait_for(|| sdone.load(AO::Acquire) >= j, limit);
                }
                next - 1
            });
            let (ag, pu, t2) = (atgate.clone(), pushed.clone(), tmo.clone());
            let cur = Arc::new(AtomicUsize::new(0));
            let cur_h = cur.clone();
            metrics::verif::install(Box::new(move |site, _| {
                if site == "clr.load.pre" && GATE_ARMED.with(|c| c.replace(false)) {
                    let j = cur_h.load(AO::Acquire);
                    ag.store(j, AO::Release);
                    if !wait_for(|| pu.load(AO::Acquire) >= j, std::time::Duration::from_secs(5)) {
                        t2.fetch_add(1, AO::Relaxed);
                    }
                }
            }));
            for j in 1..=iters {
                wait_for(|| wready.load(AO::Acquire) >= j, limit);
                cur.store(j, AO::Release);
                GATE_ARMED.with(|c| c.set(true));
                snaps.push(catch_unwind(AssertUnwindSafe(|| hist_values(&snap))).unwrap_or(None));
                GATE_ARMED.with(|c| c.set(false));
                sdone.store(j, AO::Release);
            }
            metrics::verif::clear();
            total = writer.join().unwrap_or(0);
        });
        snaps.push(hist_values(&snap));
        st.gate_timeouts += tmo.load(AO::Relaxed);
        // a hand-shake that timed out may have let a record() overlap the drain: then the round is not strict
        drain_event("B-gated", total, tmo.load(AO::Relaxed) == 0, false, snaps.len(), &snaps, out, st);
    }
}

fn drains_b_free(rounds: usize, listed: bool, rng: &mut StdRng, out: &mut Writer, st: &mut DrainStats) {
    for round in 0..rounds {
        let m: usize = rng.random_range(500..4000);
        let rec = DebuggingRecorder::new();
        let snap = rec.snapshotter();
        let key = build_key(1 + (round % 3) as i64, (round % NLSETS as usize) as i64, (round % 6) as i64);
        let h = rec.register_histogram(&key, &META);
        let done = AtomicBool::new(false);
        let go = AtomicBool::new(false);
        let mut snaps: Vec<Option<Vec<i64>>> = vec![];
        let mut nsnaps = 2usize;
        std::thread::scope(|sc| {
            let (done, go) = (&done, &go);
            sc.spawn(move || {
                while !go.load(AO::Acquire) {
                    std::hint::spin_loop();
                }
                for v in 1..=m {
                    h.record(v as f64);
                }
                done.store(true, AO::Release);
            });
            go.store(true, AO::Release);
            while !done.load(AO::Acquire) {
                let r = catch_unwind(AssertUnwindSafe(|| hist_values(&snap))).unwrap_or(None);
                nsnaps += 1;
                if r.as_ref().map(|v| !v.is_empty()).unwrap_or(true) {
                    snaps.push(r);
                }
            }
        });
        snaps.push(hist_values(&snap));
        snaps.push(hist_values(&snap));
        drain_event("B-free", m, false, listed, nsnaps, &snaps, out, st);
    }
}

/// Directed witness of the inherited bucket finding CF05a on the real recorder: the writer is parked at the bucket's
/// `blk.claim.pre` point (tail loaded, slot not claimed yet) while a complete snapshot runs, then released.
fn drains_cf05a(rounds: usize, listed: bool, rng: &mut StdRng, out: &mut Writer, st: &mut DrainStats) {
    for round in 0..rounds {
        let pre: usize = rng.random_range(1..40);
        let rec = DebuggingRecorder::new();
        let snap = rec.snapshotter();
        let key = build_key(1 + (round % 3) as i64, (round % NLSETS as usize) as i64, (round % 6) as i64);
        let h = rec.register_histogram(&key, &META);
        let parked = Arc::new(AtomicBool::new(false));
        let release = Arc::new(AtomicBool::new(false));
        let wdone = AtomicBool::new(false);
        let limit = std::time::Duration::from_secs(5);
        let mut snaps: Vec<Option<Vec<i64>>> = vec![];
        std::thread::scope(|sc| {
            let (p2, r2, wdone) = (parked.clone(), release.clone(), &wdone);
            sc.spawn(move || {
                for v in 1..=pre {
                    h.record(v as f64);
                }
                let (p3, r3) = (p2.clone(), r2.clone());
                metrics::verif::install(Box::new(move |site, _| {
                    if site == "blk.claim.pre" && GATE_ARMED.with(|c| c.replace(false)) {
                        p3.store(true, AO::Release);
                        wait_for(|| r3.load(AO::Acquire), std::time::Duration::from_secs(5));
                    }
                }));
                GATE_ARMED.with(|c| c.set(true));
                h.record((pre + 1) as f64);
                GATE_ARMED.with(|c| c.set(false));
                metrics::verif::clear();
                wdone.store(true, AO::Release);
            });
            wait_for(|| parked.load(AO::Acquire) || wdone.load(AO::Acquire), limit);
            snaps.push(catch_unwind(AssertUnwindSafe(|| hist_values(&snap))).unwrap_or(None));
            release.store(true, AO::Release);
        });
        snaps.push(hist_values(&snap));
        snaps.push(hist_values(&snap));
        drain_event("B-cf05a", pre + 1, false, listed, snaps.len(), &snaps, out, st);
    }
}

// ------------------------------------------------------------------------------------------------ concurrent describes
fn run_describes(names: usize, threads: usize, base: usize, rng: &mut StdRng, out: &mut Writer) -> (usize, usize) {
    // plan: calls[name][t] = (unit id, description id); description id d <-> text "desc-d"
    let kinds = ["c", "g", "h"];
    let mut plan: Vec<Vec<(i64, i64)>> = vec![];
    for i in 0..names {
        let u1: i64 = rng.random_range(1..=3);
        let u2: i64 = 1 + (u1 % 3);
        let who: usize = rng.random_range(0..threads); // the thread that carries the unit
        let who2: usize = (who + 1 + rng.random_range(0..threads - 1)) % threads;
        let calls: Vec<(i64, i64)> = (0..threads)
            .map(|t| {
                let d = (t + 1) as i64;
                match (base + i) % 5 {
                    0 | 1 => (if t == who { u1 } else { 0 }, d),
                    2 => (if t == who { u1 } else if t == who2 { u2 } else { 0 }, d),
                    3 => (if t == who { u1 } else { 0 }, 1),
                    _ => (0, d),
                }
            })
            .collect();
        plan.push(calls);
    }
    let rec = DebuggingRecorder::new();
    let starts: Vec<AtomicUsize> = (0..names).map(|_| AtomicUsize::new(0)).collect();
    let panics = AtomicUsize::new(0);
    std::thread::scope(|sc| {
        for t in 0..threads {
            let (rec, starts, plan, panics) = (&rec, &starts, &plan, &panics);
            sc.spawn(move || {
                for i in 0..names {
                    let (u, d) = plan[i][t];
                    // strings are built before the barrier, owned or static by thread parity
                    let name = format!("dn{}", base + i);
                    let desc = format!("desc-{}", d);
                    let kn: KeyName = KeyName::from(name);
                    let ds: SharedString = SharedString::from(desc);
                    let unit = unit_of(u);
                    starts[i].fetch_add(1, AO::AcqRel);
                    spin_until(&starts[i], threads, None);
                    let r = catch_unwind(AssertUnwindSafe(|| match kinds[(base + i) % 3] {
                        "c" => rec.describe_counter(kn, unit, ds),
                        "g" => rec.describe_gauge(kn, unit, ds),
                        _ => rec.describe_histogram(kn, unit, ds),
                    }));
                    if r.is_err() {
                        panics.fetch_add(1, AO::Relaxed);
                    }
                }
            });
        }
    });
    // quiescence: register every name (its kind only) and take one snapshot
    for i in 0..names {
        let key = Key::from_name(format!("dn{}", base + i));
        match kinds[(base + i) % 3] {
            "c" => drop(rec.register_counter(&key, &META)),
            "g" => drop(rec.register_gauge(&key, &META)),
            _ => drop(rec.register_histogram(&key, &META)),
        }
    }
    let mut shown: HashMap<String, (i64, i64)> = HashMap::new();
    let snap = catch_unwind(AssertUnwindSafe(|| rec.snapshotter().snapshot().into_vec())).unwrap_or_default();
    for (ck, unit, desc, _) in snap {
        let d = match &desc {
            None => 0,
            Some(s) => s.strip_prefix("desc-").and_then(|x| x.parse::<i64>().ok()).unwrap_or(99),
        };
        shown.insert(format!("{}:{}", kind_str(ck.kind()), ck.key().name()), (unit_id(&unit), d));
    }
    let mut bad = 0;
    for i in 0..names {
        let k = kinds[(base + i) % 3];
        let (su, sd) = shown.get(&format!("{}:dn{}", k, base + i)).cloned().unwrap_or((-1, -1));
        let calls: Vec<Value> = plan[i].iter().map(|(u, d)| json!({"u": u, "d": d})).collect();
        // harness-side tally (information only): a unit was given but none / a foreign one is shown
        let given: Vec<i64> = plan[i].iter().map(|c| c.0).filter(|u| *u != 0).collect();
        if (given.is_empty() && su != 0) || (!given.is_empty() && !given.contains(&su)) {
            bad += 1;
        }
        out.put(&json!({"ev": "reset", "recs": 1, "w": 1_000_000}));
        out.put(&json!({"ev": "descr", "k": k, "name": base + i, "calls": calls, "shown": {"u": su, "d": sd}}));
    }
    if panics.load(AO::Relaxed) > 0 {
        out.put(&json!({"ev": "panic", "r": 1, "op": "describe thread", "count": panics.load(AO::Relaxed)}));
    }
    (2 * names, bad)
}

fn program_fingerprint(p: &Value) -> String {
    // what was asked of the recorders (not how keys were built)
    p["ops"].as_array().unwrap().iter().map(|o| format!("{}{}{}{}{}{}{}{}{};", o["ev"].as_str().unwrap(), o["r"], o["k"], o["n"], o["l"], o["u"], o["d"], o["op"], o["v"])).collect()
}

fn main() {
    let args = vh::Args::parse();
    let mode = args.pos.get(0).map(|s| s.as_str()).unwrap_or("record");
    let seed = vh::seed(1);
    let mut rng = vh::rng(seed);
    let out = args.get("out").unwrap_or("c19.ndjson").to_string();
    let mut w = Writer::create(&out);
    let mut st = Stats::default();
    let mut distinct = HashSet::new();
    let mut two = 0usize;
    let mut runs = 0usize;
    // a panic in the code under test is data (logged as a `panic` event): keep stderr quiet
    std::panic::set_hook(Box::new(|_| {}));
    match mode {
        "record" => {
            let n: usize = args.num("runs", 100);
            for i in 0..n {
                let p = random_program(&mut rng);
                if p["recs"] == 2 {
                    two += 1;
                }
                distinct.insert(program_fingerprint(&p));
                run_program(i, &p, &mut rng, &mut w, &mut st);
                runs += 1;
            }
        }
        "replay" => {
            let inp = args.get("in").expect("--in");
            let text = std::fs::read_to_string(inp).unwrap();
            for (i, line) in text.lines().filter(|l| !l.trim().is_empty()).enumerate() {
                let p: Value = serde_json::from_str(line).unwrap();
                if p["recs"] == 2 {
                    two += 1;
                }
                distinct.insert(program_fingerprint(&p));
                run_program(i, &p, &mut rng, &mut w, &mut st);
                runs += 1;
            }
        }
        "rounds" => {
            let n: usize = args.num("threads", 8);
            let free: usize = args.num("rounds", 2000);
            let gated: usize = args.num("gated", 200);
            let chunk = 500; // recorders are created per chunk
            let (mut ev, mut bad_free, mut bad_gated, mut tmo) = (0, 0, 0, 0);
            let mut done = 0;
            while done < free {
                let k = chunk.min(free - done);
                let (e, b, _) = run_rounds(n, k, false, done, &mut w);
                ev += e;
                bad_free += b;
                done += k;
            }
            let mut gdone = 0;
            while gdone < gated {
                let k = chunk.min(gated - gdone);
                let (e, b, t) = run_rounds(n.min(4), k, true, free + gdone, &mut w);
                ev += e;
                bad_gated += b;
                tmo += t;
                gdone += k;
            }
            w.finish();
            println!("{}", json!({"mode": mode, "seed": seed, "threads": n, "free_rounds": free, "gated_rounds": gated,
                                  "events": ev, "bad_free_rounds": bad_free, "bad_gated_rounds": bad_gated, "gate_timeouts": tmo}));
            return;
        }
        "drains" => {
            let listed = args.num("listed", 0) == 1;
            let mut ds = DrainStats { events: 0, dup_rounds: 0, missing_values: 0, gate_timeouts: 0, bad_shape: 0 };
            let (af, ag, bg, bf): (usize, usize, usize, usize) = (args.num("a-free", 300), args.num("a-gated", 100), args.num("b-gated", 100), args.num("b-free", 40));
            drains_a(af, false, &mut rng, &mut w, &mut ds);
            let strict_missing_a = ds.missing_values;
            drains_a(ag, true, &mut rng, &mut w, &mut ds);
            drains_b_gated(bg, &mut rng, &mut w, &mut ds);
            let strict_missing = ds.missing_values;
            drains_b_free(bf, listed, &mut rng, &mut w, &mut ds);
            let before_w = ds.missing_values;
            let wit: usize = args.num("cf05a", 20);
            drains_cf05a(wit, listed, &mut rng, &mut w, &mut ds);
            let missing_witness = ds.missing_values - before_w;
            ds.missing_values = before_w;
            w.finish();
            println!("{}", json!({"mode": mode, "seed": seed, "a_free": af, "a_gated": ag, "b_gated": bg, "b_free": bf,
                                  "events": ds.events, "rounds_with_duplicates": ds.dup_rounds,
                                  "missing_in_strict_rounds": strict_missing, "missing_in_a_free": strict_missing_a,
                                  "missing_in_b_free": ds.missing_values - strict_missing,
                                  "cf05a_witness_rounds": wit, "missing_in_cf05a_witness": missing_witness,
                                  "gate_timeouts": ds.gate_timeouts, "bad_shape": ds.bad_shape}));
            return;
        }
        "describes" => {
            let names: usize = args.num("names", 3000);
            let threads: usize = args.num("threads", 4).max(2);
            let (mut ev, mut bad, mut done) = (0, 0, 0);
            while done < names {
                let k = 500.min(names - done);
                let (e, b) = run_describes(k, threads, done, &mut rng, &mut w);
                ev += e;
                bad += b;
                done += k;
            }
            w.finish();
            println!("{}", json!({"mode": mode, "seed": seed, "names": names, "threads": threads, "events": ev, "names_with_wrong_unit": bad}));
            return;
        }
        _ => {
            eprintln!("usage: c19 record|replay|rounds|drains|describes ...");
            std::process::exit(2);
        }
    }
    w.finish();
    println!(
        "{}",
        json!({"mode": mode, "seed": seed, "runs": runs, "two_recorder_runs": two, "events": st.events,
               "snapshots": st.snapshots, "snapshots_with_2plus_metrics": st.nonempty,
               "snapshots_compared_with_tlc": st.compared, "mismatches": st.mismatches,
               "mismatch_at": st.mismatch_at, "panics": st.panics, "distinct_programs": distinct.len()})
    );
}
