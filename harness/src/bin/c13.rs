//! C13 driver: metrics-util layers (Stack / PrefixLayer / FilterLayer / Router / Fanout) over probe
//! recorders that log every describe / register / handle update they receive.
//!
//!   c13 replay --in PROGS --out F     programs (configuration tree + operations) exported by TLC (MCLayers.tla)
//!   c13 record --runs N --out F       seeded random configurations / names (non-ASCII, empty, names equal to /
//!                                     extending / sharing prefixes with routes, prefixes and patterns)
//!
//!   c13 hammer --runs R --threads T --calls N --out F
//!                                     real-parallel: for each layer kind T threads make N register_*/describe_* calls each
//!                                     through ONE shared layer tree over counting probes (per-thread distinct names);
//!                                     one {"ev":"reset","cfg"} + {"ev":"hammer","rows":[calls made],"seen":[probe totals]}
//!                                     per run; TraceLayers!HammerOK judges the totals with the delivery function
//!
//! Program: {"cfg": Node, "ops": [Op]}
//!   Node = {"t":"probe","id":n} | {"t":"stack","base":Node,"layers":[Layer]}            Stack::new(base).push(l1).push(l2)..
//!        | {"t":"router","def":Node,"routes":[{"mask":"c|g|h|all","pat":cps,"to":Node}]}  RouterBuilder
//!        | {"t":"fanout","outs":[Node]}                                                  FanoutBuilder
//!   Layer = {"t":"prefix","p":cps} | {"t":"filter","pats":[cps],"ci":bool,"dfa":bool}
//!   Op = {"o":"describe","kind","name":cps,"unit","desc":cps}
//!      | {"o":"register","kind","name":cps,"labels":[[cps,cps]],"lvl","tgt":cps,"mod":bool}
//!      | {"o":"update","h":i,"u","v":"text","n":count}       through the handle returned by the i-th register
//! History program: {"hist": [Call], "ops": [Op]}: calls on real, re-usable builder values, in the given order:
//!   Call = {"c":"new_filter","pats":[cps]} FilterLayer::from_patterns | {"c":"new_default"} FilterLayer::default()
//!        | {"c":"new_prefix","p":cps} | {"c":"add","b":i,"p":cps} | {"c":"ci","b":i,"x":bool} | {"c":"dfa","b":i,"x":bool}
//!        | {"c":"layer","b":i,"onto":k}   Layer::layer(&builder_i, inner): inner = fresh probe (k = 0; its id is the
//!          number of products so far + 1) or the k-th product (consumed, replaced by the wrapped one)
//!   then all products go under one Fanout and the ops are applied to it.
//!   Trace: {"ev":"reset","cfg":{"t":"none"}}, {"ev":"build", c,b,p,pats,x,onto}.., {"ev":"assemble"}, op events.
//! Trace: {"ev":"reset","cfg":Node} then one event per op = the op's fields + "got": what each probe received
//! (text as arrays of code points; numbers as canonical strings).  TraceLayers.tla recomputes "got".
use metrics::{
    Counter, CounterFn, Gauge, GaugeFn, Histogram, HistogramFn, Key, KeyName, Label, Level, Metadata, Recorder,
    SharedString, Unit,
};
use metrics_util::layers::{FanoutBuilder, FilterLayer, Layer, PrefixLayer, RouterBuilder, Stack};
use metrics_util::MetricKindMask;
use rand::rngs::StdRng;
use rand::Rng;
use serde_json::{json, Value};
use std::collections::HashSet;
use std::panic::{catch_unwind, AssertUnwindSafe};
use std::sync::atomic::{AtomicI64, Ordering};
use std::sync::{Arc, Mutex};
use vh::trace::Writer;

type BoxRec = Box<dyn Recorder + Sync>;

// ------------------------------------------------------------------------------------------- text
fn cps(s: &str) -> Value {
    Value::Array(s.chars().map(|c| json!(c as u32)).collect())
}

fn text(v: &Value) -> String {
    v.as_array().map(|a| a.iter().filter_map(|c| c.as_u64().and_then(|c| char::from_u32(c as u32))).collect()).unwrap_or_default()
}

fn f64_canon(v: f64) -> String {
    format!("{:?}/{:016x}", v, v.to_bits())
}

// ------------------------------------------------------------------------------------------- probes
#[derive(Default)]
struct Shared {
    log: Mutex<Vec<Value>>,
}

impl Shared {
    fn put(&self, v: Value) {
        self.log.lock().unwrap().push(v);
    }
    fn take(&self) -> Vec<Value> {
        std::mem::take(&mut *self.log.lock().unwrap())
    }
}

struct Probe {
    id: i64,
    regs: AtomicI64,
    sh: Arc<Shared>,
}

struct ProbeHandle {
    p: i64,
    hid: i64,
    sh: Arc<Shared>,
}

impl ProbeHandle {
    fn upd(&self, u: &str, v: String) {
        self.sh.put(json!({"p": self.p, "hid": self.hid, "u": u, "v": v}));
    }
}

impl CounterFn for ProbeHandle {
    fn increment(&self, value: u64) {
        self.upd("increment", value.to_string())
    }
    fn absolute(&self, value: u64) {
        self.upd("absolute", value.to_string())
    }
}
impl GaugeFn for ProbeHandle {
    fn increment(&self, value: f64) {
        self.upd("increment", f64_canon(value))
    }
    fn decrement(&self, value: f64) {
        self.upd("decrement", f64_canon(value))
    }
    fn set(&self, value: f64) {
        self.upd("set", f64_canon(value))
    }
}
impl HistogramFn for ProbeHandle {
    // record_many deliberately not overridden: the trait default calls record() count times
    fn record(&self, value: f64) {
        self.upd("record", f64_canon(value))
    }
}

fn level_str(l: &Level) -> &'static str {
    if *l == Level::TRACE {
        "trace"
    } else if *l == Level::DEBUG {
        "debug"
    } else if *l == Level::INFO {
        "info"
    } else if *l == Level::WARN {
        "warn"
    } else {
        "error"
    }
}

impl Probe {
    fn describe(&self, kind: &str, name: KeyName, unit: Option<Unit>, desc: SharedString) {
        let d: &str = desc.as_ref();
        self.sh.put(json!({"p": self.id, "op": {"o": "describe", "kind": kind, "name": cps(name.as_str()),
            "unit": unit.map(|u| u.as_str()).unwrap_or("none"), "desc": cps(d)}}));
    }
    fn register(&self, kind: &str, key: &Key, md: &Metadata<'_>) -> Arc<ProbeHandle> {
        let hid = self.regs.fetch_add(1, Ordering::SeqCst);
        let labels: Vec<Value> = key.labels().map(|l| json!([cps(l.key()), cps(l.value())])).collect();
        let modv = match md.module_path() {
            None => json!(false),
            Some(m) if m == md.target() => json!(true),
            Some(m) => json!(format!("other:{m}")),
        };
        self.sh.put(json!({"p": self.id, "hid": hid, "op": {"o": "register", "kind": kind, "name": cps(key.name()),
            "labels": labels, "lvl": level_str(md.level()), "tgt": cps(md.target()), "mod": modv}}));
        Arc::new(ProbeHandle { p: self.id, hid, sh: self.sh.clone() })
    }
}

impl Recorder for Probe {
    fn describe_counter(&self, key: KeyName, unit: Option<Unit>, description: SharedString) {
        self.describe("c", key, unit, description)
    }
    fn describe_gauge(&self, key: KeyName, unit: Option<Unit>, description: SharedString) {
        self.describe("g", key, unit, description)
    }
    fn describe_histogram(&self, key: KeyName, unit: Option<Unit>, description: SharedString) {
        self.describe("h", key, unit, description)
    }
    fn register_counter(&self, key: &Key, metadata: &Metadata<'_>) -> Counter {
        Counter::from_arc(self.register("c", key, metadata))
    }
    fn register_gauge(&self, key: &Key, metadata: &Metadata<'_>) -> Gauge {
        Gauge::from_arc(self.register("g", key, metadata))
    }
    fn register_histogram(&self, key: &Key, metadata: &Metadata<'_>) -> Histogram {
        Histogram::from_arc(self.register("h", key, metadata))
    }
}

// ------------------------------------------------------------------------------------------- counting probes (hammer)
/// One counter per (call kind, metric kind, delivered name); also the handle handed out for that name.
#[derive(Default)]
struct Tally {
    n: AtomicI64,
    incs: AtomicI64,
}
impl CounterFn for Tally {
    fn increment(&self, _: u64) {
        self.incs.fetch_add(1, Ordering::Relaxed);
    }
    fn absolute(&self, _: u64) {
        self.incs.fetch_add(1, Ordering::Relaxed);
    }
}
impl GaugeFn for Tally {
    fn increment(&self, _: f64) {
        self.incs.fetch_add(1, Ordering::Relaxed);
    }
    fn decrement(&self, _: f64) {
        self.incs.fetch_add(1, Ordering::Relaxed);
    }
    fn set(&self, _: f64) {
        self.incs.fetch_add(1, Ordering::Relaxed);
    }
}
impl HistogramFn for Tally {
    fn record(&self, _: f64) {
        self.incs.fetch_add(1, Ordering::Relaxed);
    }
}

const SHARDS: usize = 64;
type TallyMap = std::collections::HashMap<String, Arc<Tally>>;
/// slot = call kind (describe 0 / register 1) x metric kind (c g h)
struct CountProbe {
    id: i64,
    shards: Vec<Mutex<[TallyMap; 6]>>,
}

impl CountProbe {
    fn new(id: i64) -> CountProbe {
        CountProbe { id, shards: (0..SHARDS).map(|_| Mutex::new(Default::default())).collect() }
    }
    fn tally(&self, slot: usize, name: &str) -> Arc<Tally> {
        let sh = (hash_of(name) as usize) % SHARDS;
        let mut g = self.shards[sh].lock().unwrap();
        if let Some(t) = g[slot].get(name) {
            t.n.fetch_add(1, Ordering::Relaxed);
            return t.clone();
        }
        let t = Arc::new(Tally::default());
        t.n.fetch_add(1, Ordering::Relaxed);
        g[slot].insert(name.to_string(), t.clone());
        t
    }
    fn dump(&self, out: &mut Vec<Value>) {
        for sh in &self.shards {
            let g = sh.lock().unwrap();
            for (slot, m) in g.iter().enumerate() {
                for (name, t) in m.iter() {
                    let (o, kind) = (if slot < 3 { "describe" } else { "register" }, ["c", "g", "h"][slot % 3]);
                    out.push(json!({"p": self.id, "o": o, "kind": kind, "name": cps(name), "n": t.n.load(Ordering::SeqCst), "incs": t.incs.load(Ordering::SeqCst)}));
                }
            }
        }
    }
}

struct CountRef(Arc<CountProbe>);

impl std::ops::Deref for CountRef {
    type Target = CountProbe;
    fn deref(&self) -> &CountProbe {
        &self.0
    }
}

impl Recorder for CountRef {
    fn describe_counter(&self, key: KeyName, _: Option<Unit>, _: SharedString) {
        self.tally(0, key.as_str());
    }
    fn describe_gauge(&self, key: KeyName, _: Option<Unit>, _: SharedString) {
        self.tally(1, key.as_str());
    }
    fn describe_histogram(&self, key: KeyName, _: Option<Unit>, _: SharedString) {
        self.tally(2, key.as_str());
    }
    fn register_counter(&self, key: &Key, _: &Metadata<'_>) -> Counter {
        Counter::from_arc(self.tally(3, key.name()))
    }
    fn register_gauge(&self, key: &Key, _: &Metadata<'_>) -> Gauge {
        Gauge::from_arc(self.tally(4, key.name()))
    }
    fn register_histogram(&self, key: &Key, _: &Metadata<'_>) -> Histogram {
        Histogram::from_arc(self.tally(5, key.name()))
    }
}

thread_local! {
    /// when set, `build` makes counting probes and registers them here
    static COUNT_PROBES: std::cell::RefCell<Option<Vec<Arc<CountProbe>>>> = std::cell::RefCell::new(None);
}

// ------------------------------------------------------------------------------------------- building the real stack
fn filter_layer(l: &Value) -> FilterLayer {
    let pats: Vec<String> = l["pats"].as_array().map(|a| a.iter().map(text).collect()).unwrap_or_default();
    let ci = l["ci"].as_bool().unwrap_or(false);
    let dfa = l["dfa"].as_bool().unwrap_or(true);
    // two construction paths of the public API: from_patterns (dfa default true) / default + add_pattern
    let mut f = if pats.len() % 2 == 0 {
        FilterLayer::from_patterns(pats.iter())
    } else {
        let mut f = FilterLayer::default();
        for p in &pats {
            f.add_pattern(p);
        }
        f
    };
    f.case_insensitive(ci).use_dfa(dfa);
    f
}

fn fin<R: Recorder + Sync + 'static>(s: Stack<R>) -> BoxRec {
    Box::new(s)
}

// Up to three pushes on one statically typed Stack (Stack<Prefix<Filter<..>>>); longer runs continue on a boxed stack.
macro_rules! push_fn {
    ($name:ident, $next:ident) => {
        fn $name<R: Recorder + Sync + 'static>(s: Stack<R>, ls: &[Value]) -> BoxRec {
            match ls.first() {
                None => fin(s),
                Some(l) if l["t"] == "prefix" => $next(s.push(PrefixLayer::new(text(&l["p"]))), &ls[1..]),
                Some(l) if l["t"] == "filter" => $next(s.push(filter_layer(l)), &ls[1..]),
                Some(l) => panic!("harness: unknown layer {l}"),
            }
        }
    };
}
fn push0<R: Recorder + Sync + 'static>(s: Stack<R>, ls: &[Value]) -> BoxRec {
    if ls.is_empty() {
        fin(s)
    } else {
        push3(Stack::new(fin(s)), ls)
    }
}
push_fn!(push1, push0);
push_fn!(push2, push1);
push_fn!(push3, push2);

fn mask_of(m: &str) -> MetricKindMask {
    match m {
        "c" => MetricKindMask::COUNTER,
        "g" => MetricKindMask::GAUGE,
        "h" => MetricKindMask::HISTOGRAM,
        "all" => MetricKindMask::ALL,
        _ => panic!("harness: unknown mask {m}"),
    }
}

fn build(n: &Value, sh: &Arc<Shared>) -> BoxRec {
    match n["t"].as_str().unwrap_or("") {
        "probe" => {
            let id = n["id"].as_i64().unwrap();
            let counting = COUNT_PROBES.with(|c| {
                c.borrow_mut().as_mut().map(|v| {
                    let p = Arc::new(CountProbe::new(id));
                    v.push(p.clone());
                    p
                })
            });
            match counting {
                Some(p) => Box::new(CountRef(p)),
                None => Box::new(Probe { id, regs: AtomicI64::new(0), sh: sh.clone() }),
            }
        }
        "stack" => {
            let base = build(&n["base"], sh);
            let empty = vec![];
            let ls = n["layers"].as_array().unwrap_or(&empty);
            push3(Stack::new(base), ls)
        }
        "router" => {
            let mut b = RouterBuilder::from_recorder(build(&n["def"], sh));
            if let Some(rs) = n["routes"].as_array() {
                for r in rs {
                    b.add_route(mask_of(r["mask"].as_str().unwrap_or("")), text(&r["pat"]), build(&r["to"], sh));
                }
            }
            Box::new(b.build())
        }
        "fanout" => {
            let mut b = FanoutBuilder::default();
            if let Some(os) = n["outs"].as_array() {
                for o in os {
                    b = b.add_recorder(build(o, sh));
                }
            }
            Box::new(b.build())
        }
        t => panic!("harness: unknown node type {t}"),
    }
}

// ------------------------------------------------------------------------------------------- running a program
enum AnyHandle {
    C(Counter),
    G(Gauge),
    H(Histogram),
}

fn level_of(s: &str) -> Level {
    match s {
        "trace" => Level::TRACE,
        "debug" => Level::DEBUG,
        "info" => Level::INFO,
        "warn" => Level::WARN,
        _ => Level::ERROR,
    }
}

static LAST_PANIC: Mutex<String> = Mutex::new(String::new());

/// A panic raised by the harness itself (bad program, unknown op) is a tool error, not data.
fn panic_msg() -> String {
    let m = LAST_PANIC.lock().unwrap().clone();
    if m.starts_with("harness:") {
        eprintln!("{m}");
        std::process::exit(2);
    }
    m
}

#[derive(Default)]
struct Stats {
    programs: usize,
    histories: usize,
    events: usize,
    panics: usize,
    nontrivial: HashSet<u64>,
    calls: usize,
    updates: usize,
    dropped: usize,
    renamed: usize,
    multi: usize,
}

fn hash_of(s: &str) -> u64 {
    use std::hash::{Hash, Hasher};
    let mut h = std::collections::hash_map::DefaultHasher::new();
    s.hash(&mut h);
    h.finish()
}

/// Executes one op on the real stack; returns the event (echo of the op with canonical values).
fn apply(top: &BoxRec, op: &Value, handles: &mut Vec<AnyHandle>) -> Value {
    let o = op["o"].as_str().unwrap_or("");
    let kind = op["kind"].as_str().unwrap_or("");
    match o {
        "describe" => {
            let name = KeyName::from(text(&op["name"]));
            let unit = Unit::from_string(op["unit"].as_str().unwrap_or("none"));
            let desc: SharedString = text(&op["desc"]).into();
            match kind {
                "c" => top.describe_counter(name, unit, desc),
                "g" => top.describe_gauge(name, unit, desc),
                _ => top.describe_histogram(name, unit, desc),
            }
            json!({"ev": "describe", "kind": kind, "name": op["name"], "unit": unit.map(|u| u.as_str()).unwrap_or("none"),
                   "desc": op["desc"]})
        }
        "register" => {
            let empty = vec![];
            let labels: Vec<Label> = op["labels"].as_array().unwrap_or(&empty).iter()
                .map(|kv| Label::new(text(&kv[0]), text(&kv[1]))).collect();
            let key = Key::from_parts(text(&op["name"]), labels);
            let tgt = text(&op["tgt"]);
            let lvl = op["lvl"].as_str().unwrap_or("info");
            let with_mod = op["mod"].as_bool().unwrap_or(false);
            let md = Metadata::new(&tgt, level_of(lvl), if with_mod { Some(&tgt) } else { None });
            let h = match kind {
                "c" => AnyHandle::C(top.register_counter(&key, &md)),
                "g" => AnyHandle::G(top.register_gauge(&key, &md)),
                _ => AnyHandle::H(top.register_histogram(&key, &md)),
            };
            handles.push(h);
            json!({"ev": "register", "kind": kind, "name": op["name"], "labels": op["labels"], "lvl": level_str(&level_of(lvl)),
                   "tgt": op["tgt"], "mod": with_mod, "h": handles.len()})
        }
        "update" => {
            let i = op["h"].as_u64().unwrap_or(0) as usize;
            let u = op["u"].as_str().unwrap_or("");
            let vtxt = op["v"].as_str().unwrap_or("0");
            let n = op["n"].as_u64().unwrap_or(1) as usize;
            let h = handles.get(i.wrapping_sub(1)).expect("harness: update of unknown handle");
            let (k, canon) = match h {
                AnyHandle::C(c) => {
                    let v: u64 = vtxt.parse().expect("harness: counter value");
                    match u {
                        "increment" => c.increment(v),
                        "absolute" => c.absolute(v),
                        _ => panic!("harness: counter update {u}"),
                    }
                    ("c", v.to_string())
                }
                AnyHandle::G(g) => {
                    let v = parse_f64(vtxt);
                    match u {
                        "increment" => g.increment(v),
                        "decrement" => g.decrement(v),
                        "set" => g.set(v),
                        _ => panic!("harness: gauge update {u}"),
                    }
                    ("g", f64_canon(v))
                }
                AnyHandle::H(hh) => {
                    let v = parse_f64(vtxt);
                    match u {
                        "record" => hh.record(v),
                        "record_many" => hh.record_many(v, n),
                        _ => panic!("harness: histogram update {u}"),
                    }
                    ("h", f64_canon(v))
                }
            };
            json!({"ev": "update", "h": i, "kind": k, "u": u, "v": canon, "n": n})
        }
        _ => panic!("harness: unknown op {o}"),
    }
}

fn parse_f64(s: &str) -> f64 {
    // "bits:<hex>" (random programs) or the canonical "<debug>/<hex>" of a trace (replay of a failing run)
    if let Some(hex) = s.strip_prefix("bits:").or_else(|| s.split_once('/').map(|x| x.1)) {
        f64::from_bits(u64::from_str_radix(hex, 16).expect("harness: f64 bits"))
    } else {
        s.parse().expect("harness: f64 value")
    }
}

enum Bld {
    F(FilterLayer),
    P(PrefixLayer),
}

/// Executes the builder calls of a history on real builder values; returns the Fanout over all products.
fn run_history(hist: &[Value], sh: &Arc<Shared>, w: &mut Writer, st: &mut Stats) -> BoxRec {
    let mut blds: Vec<Bld> = vec![];
    let mut made: Vec<Option<BoxRec>> = vec![];
    for c in hist {
        let what = c["c"].as_str().unwrap_or("");
        let b = c["b"].as_u64().unwrap_or(0) as usize;
        match what {
            "new_filter" => {
                let pats: Vec<String> = c["pats"].as_array().map(|a| a.iter().map(text).collect()).unwrap_or_default();
                blds.push(Bld::F(FilterLayer::from_patterns(pats.iter())));
            }
            "new_default" => blds.push(Bld::F(FilterLayer::default())),
            "new_prefix" => blds.push(Bld::P(PrefixLayer::new(text(&c["p"])))),
            "add" | "ci" | "dfa" => match blds.get_mut(b.wrapping_sub(1)) {
                Some(Bld::F(f)) => {
                    match what {
                        "add" => f.add_pattern(text(&c["p"])),
                        "ci" => f.case_insensitive(c["x"].as_bool().unwrap_or(false)),
                        _ => f.use_dfa(c["x"].as_bool().unwrap_or(false)),
                    };
                }
                _ => panic!("harness: {what} on a builder that is not a FilterLayer"),
            },
            "layer" => {
                let onto = c["onto"].as_u64().unwrap_or(0) as usize;
                let inner: BoxRec = if onto == 0 {
                    Box::new(Probe { id: made.len() as i64 + 1, regs: AtomicI64::new(0), sh: sh.clone() })
                } else {
                    made.get_mut(onto - 1).and_then(|m| m.take()).expect("harness: layer onto unknown product")
                };
                let out: BoxRec = match blds.get(b.wrapping_sub(1)) {
                    Some(Bld::F(f)) => Box::new(f.layer(inner)),
                    Some(Bld::P(p)) => Box::new(p.layer(inner)),
                    None => panic!("harness: layer of unknown builder"),
                };
                if onto == 0 {
                    made.push(Some(out));
                } else {
                    made[onto - 1] = Some(out);
                }
            }
            _ => panic!("harness: unknown builder call {what}"),
        }
        let or = |k: &str, d: Value| if c[k].is_null() { d } else { c[k].clone() };
        w.put(&json!({"ev": "build", "c": what, "b": or("b", json!(0)), "p": or("p", json!([])), "pats": or("pats", json!([])),
                      "x": or("x", json!(false)), "onto": or("onto", json!(0))}));
        st.events += 1;
    }
    let mut fb = FanoutBuilder::default();
    for m in made {
        fb = fb.add_recorder(m.expect("harness: product missing"));
    }
    w.put(&json!({"ev": "assemble"}));
    st.events += 1;
    Box::new(fb.build())
}

fn run_program(prog: &Value, w: &mut Writer, st: &mut Stats) {
    st.programs += 1;
    let sh = Arc::new(Shared::default());
    let is_hist = prog["hist"].is_array();
    let none_cfg = json!({"t": "none"});
    let cfg = if is_hist { &none_cfg } else { &prog["cfg"] };
    w.put(&json!({"ev": "reset", "cfg": cfg}));
    st.events += 1;
    let built = if is_hist {
        st.histories += 1;
        let hist = prog["hist"].as_array().unwrap().clone();
        catch_unwind(AssertUnwindSafe(|| run_history(&hist, &sh, w, st)))
    } else {
        catch_unwind(AssertUnwindSafe(|| build(cfg, &sh)))
    };
    let top = match built {
        Ok(t) => t,
        Err(_) => {
            st.panics += 1;
            w.put(&json!({"ev": "panic", "at": "build", "msg": panic_msg()}));
            return;
        }
    };
    let cfg_txt = if is_hist { prog["hist"].to_string() } else { cfg.to_string() };
    let mut handles: Vec<AnyHandle> = vec![];
    let empty = vec![];
    for op in prog["ops"].as_array().unwrap_or(&empty) {
        sh.take();
        let r = catch_unwind(AssertUnwindSafe(|| apply(&top, op, &mut handles)));
        let got = sh.take();
        st.events += 1;
        match r {
            Ok(mut ev) => {
                // bookkeeping for the evidence file: outcomes that are not a plain pass-through to one recorder
                let is_upd = ev["ev"] == "update";
                if is_upd {
                    st.updates += 1;
                } else {
                    st.calls += 1;
                }
                let dropped = got.is_empty();
                let renamed = !is_upd && got.iter().any(|g| g["op"]["name"] != ev["name"]);
                let multi = got.len() > 1;
                st.dropped += dropped as usize;
                st.renamed += renamed as usize;
                st.multi += multi as usize;
                let routed = !is_upd && got.len() == 1 && got[0]["p"] != 0;
                if dropped || renamed || multi || routed {
                    st.nontrivial.insert(hash_of(&format!("{cfg_txt}|{op}")));
                }
                ev["got"] = Value::Array(got);
                w.put(&ev);
            }
            Err(_) => {
                st.panics += 1;
                w.put(&json!({"ev": "panic", "at": op, "got": got, "msg": panic_msg()}));
                return;
            }
        }
    }
}

// ------------------------------------------------------------------------------------------- random programs
const ATOMS: &[&str] = &[
    "a", "A", "b", "B", ".", "k", "K", "s", "S", "z", "Z", "@", "[", "`", "{", "_", "0", " ", "\u{e9}", "\u{c9}", "\u{212a}",
    "\u{17f}", "\u{df}", "\u{130}", "\u{131}", "\u{1c5}", "\u{1d49c}", "\u{0}", "\u{7f}", "\u{80}", "ab", "a.b", "..", "tokio",
];

fn rand_str(rng: &mut StdRng, max_atoms: usize) -> String {
    let n = rng.random_range(0..=max_atoms);
    (0..n).map(|_| ATOMS[rng.random_range(0..ATOMS.len())]).collect()
}

fn swap_case(s: &str, rng: &mut StdRng) -> String {
    s.chars().map(|c| {
        if rng.random_bool(0.5) {
            if c.is_lowercase() { c.to_uppercase().next().unwrap_or(c) } else { c.to_lowercase().next().unwrap_or(c) }
        } else {
            c
        }
    }).collect()
}

struct Gen<'a> {
    rng: &'a mut StdRng,
    next_probe: i64,
    strings: Vec<String>, // every prefix / pattern / route used by the configuration
}

impl<'a> Gen<'a> {
    fn probe(&mut self) -> Value {
        let id = self.next_probe;
        self.next_probe += 1;
        json!({"t": "probe", "id": id})
    }
    fn cfg_str(&mut self) -> String {
        // re-use earlier strings (duplicates), extend them (overlaps), or fresh
        let r = self.rng.random_range(0..10);
        let s = if r < 3 && !self.strings.is_empty() {
            self.strings[self.rng.random_range(0..self.strings.len())].clone()
        } else if r < 6 && !self.strings.is_empty() {
            let b = self.strings[self.rng.random_range(0..self.strings.len())].clone();
            if self.rng.random_bool(0.5) {
                b + &rand_str(self.rng, 2)
            } else {
                let k = self.rng.random_range(0..=b.chars().count());
                b.chars().take(k).collect()
            }
        } else {
            rand_str(self.rng, 3)
        };
        self.strings.push(s.clone());
        s
    }
    fn layer(&mut self) -> Value {
        if self.rng.random_bool(0.45) {
            let p = self.cfg_str();
            json!({"t": "prefix", "p": cps(&p)})
        } else {
            let n = if self.rng.random_range(0..40) == 0 { self.rng.random_range(101..140) } else { self.rng.random_range(0..4) };
            let pats: Vec<Value> = (0..n).map(|_| {
                let p = self.cfg_str();
                cps(&p)
            }).collect();
            json!({"t": "filter", "pats": pats, "ci": self.rng.random_bool(0.5), "dfa": self.rng.random_bool(0.5)})
        }
    }
    fn node(&mut self, depth: usize) -> Value {
        let r = if depth == 0 { 0 } else { self.rng.random_range(0..10) };
        match r {
            0 | 1 => self.probe(),
            2..=5 => {
                let base = self.node(depth - 1);
                let nl = self.rng.random_range(0..=3);
                let layers: Vec<Value> = (0..nl).map(|_| self.layer()).collect();
                json!({"t": "stack", "base": base, "layers": layers})
            }
            6 | 7 | 8 => {
                let def = self.node(depth - 1);
                let nr = self.rng.random_range(0..=4);
                let routes: Vec<Value> = (0..nr).map(|_| {
                    let mask = ["c", "g", "h", "all", "all"][self.rng.random_range(0..5)];
                    let pat = self.cfg_str();
                    let to = self.node(depth - 1);
                    json!({"mask": mask, "pat": cps(&pat), "to": to})
                }).collect();
                json!({"t": "router", "def": def, "routes": routes})
            }
            _ => {
                let no = self.rng.random_range(0..=3);
                let outs: Vec<Value> = (0..no).map(|_| self.node(depth - 1)).collect();
                json!({"t": "fanout", "outs": outs})
            }
        }
    }
    fn name(&mut self) -> String {
        let r = self.rng.random_range(0..12);
        if self.strings.is_empty() || r < 2 {
            return rand_str(self.rng, 4);
        }
        let b = self.strings[self.rng.random_range(0..self.strings.len())].clone();
        match r {
            2 => b,                                                   // equal to a route / pattern / prefix
            3 | 4 => b + &rand_str(self.rng, 2),                      // extending it
            5 => rand_str(self.rng, 2) + &b,                          // containing it at the end
            6 => rand_str(self.rng, 1) + &b + &rand_str(self.rng, 1), // in the middle
            7 => {
                let k = self.rng.random_range(0..=b.chars().count()); // proper prefix of it
                b.chars().take(k).collect()
            }
            8 => swap_case(&b, self.rng),                             // other case (incl. non-ASCII case pairs)
            9 => swap_case(&b, self.rng) + &rand_str(self.rng, 1),
            10 => {
                let c = self.strings[self.rng.random_range(0..self.strings.len())].clone();
                b + "." + &c
            }
            _ => String::new(),
        }
    }
}

fn rand_u64(rng: &mut StdRng) -> u64 {
    match rng.random_range(0..5) {
        0 => 0,
        1 => u64::MAX,
        2 => rng.random::<u64>(),
        _ => rng.random_range(0..100),
    }
}

fn rand_f64_txt(rng: &mut StdRng) -> String {
    let v: f64 = match rng.random_range(0..8) {
        0 => f64::NAN,
        1 => f64::INFINITY,
        2 => -0.0,
        3 => f64::from_bits(rng.random::<u64>()),
        4 => -(rng.random_range(0..1000) as f64) / 8.0,
        _ => rng.random_range(0..1000) as f64 / 4.0,
    };
    format!("bits:{:016x}", v.to_bits())
}

/// Directed, seed-independent cases run at the start of every `record`: route tables {P, P+x, P+y} whose radix trie
/// has a value-less internal node between the siblings (radix_trie branches on NIBBLES: 'a' 0x61, 'b' 0x62, 'c' 0x63
/// share the high nibble), with names that end on / pass through / diverge inside that node.  The right target is the
/// closest ancestor ROUTE (P), not "whatever the closest trie node holds" (seeded change raw_ancestor_lookup).
fn fixed_programs() -> Vec<Value> {
    let cases: Vec<(Vec<(&str, &str)>, Vec<&str>)> = vec![
        (vec![("all", ""), ("all", "a"), ("all", "b")], vec!["c", "`", "o", "a", "b", "", "A", "ca"]),
        (vec![("all", "a"), ("all", "ab"), ("all", "ac")], vec!["ad", "a`", "a", "aa", "ab", "abz", "a.", "b"]),
        (vec![("all", "a"), ("all", "a.b"), ("all", "a.c")], vec!["a.a", "a.d", "a.", "a", "a.bX", "a.cX", "a.`", "a/x"]),
        (vec![("all", ""), ("all", "a.b"), ("all", "a.c")], vec!["a.a", "a.", "a", "x", "a.b", "a.`z"]),
        (vec![("c", "a"), ("c", "ab"), ("c", "ac"), ("g", "ab"), ("g", "ac")], vec!["ad", "aa", "ab", "a"]),
        (vec![("g", "ab"), ("g", "ac"), ("g", "a")], vec!["ad", "aa", "ac.", "a"]),
        (vec![("h", "m.x"), ("h", "m.y"), ("h", "m"), ("all", "")], vec!["m.z", "m.", "m.x.1", "m", "n", "m.p"]),
        (vec![("all", "ab"), ("all", "ac"), ("all", "a"), ("all", "abc"), ("all", "abd")], vec!["abe", "ab`", "ad", "abc", "ab", "abf.x"]),
        (vec![("all", "\u{e9}"), ("all", "\u{e9}a"), ("all", "\u{e9}b")], vec!["\u{e9}c", "\u{e9}", "\u{e9}a", "\u{e8}", "\u{e9}\u{e9}"]),
        (vec![("all", ""), ("all", "\u{e9}"), ("all", "\u{e8}")], vec!["\u{ea}", "\u{e0}", "\u{c9}", "\u{e9}x", "z"]),
        (vec![("all", "a"), ("all", "a."), ("all", "aA")], vec!["a0", "a!", "aB", "a.", "aA", "ab"]),
        (vec![("c", "tokio"), ("c", "tokio.rt"), ("c", "tokio.rx"), ("all", "tok")], vec!["tokio.rz", "tokio.r", "tokio.", "tokio.rt.x", "tokyo", "tok"]),
    ];
    cases.into_iter().map(|(routes, names)| {
        let rs: Vec<Value> = routes.iter().enumerate().map(|(i, (m, p))| rt(m, p, pr(i as i64 + 1))).collect();
        let mut ops = vec![];
        for n in names {
            for k in ["c", "g", "h"] {
                ops.push(json!({"o": "describe", "kind": k, "name": cps(n), "unit": "none", "desc": []}));
                ops.push(json!({"o": "register", "kind": k, "name": cps(n), "labels": [], "lvl": "info", "tgt": [], "mod": false}));
            }
        }
        json!({"cfg": {"t": "router", "def": pr(0), "routes": rs}, "ops": ops})
    }).collect()
}

fn random_program(rng: &mut StdRng) -> Value {
    let mut g = Gen { rng, next_probe: 0, strings: vec![] };
    let depth = g.rng.random_range(1..=3);
    let cfg = g.node(depth);
    let nops = g.rng.random_range(6..=16);
    let mut ops = vec![];
    let mut kinds: Vec<&str> = vec![]; // kinds of the handles registered so far
    const UNITS: &[&str] = &["none", "count", "bytes", "percent", "seconds", "milliseconds", "kibibytes", "count_per_second"];
    const LEVELS: &[&str] = &["trace", "debug", "info", "warn", "error"];
    for _ in 0..nops {
        let r = g.rng.random_range(0..10);
        if r < 3 && !kinds.is_empty() {
            let h = g.rng.random_range(0..kinds.len());
            let (u, v, n) = match kinds[h] {
                "c" => (["increment", "absolute"][g.rng.random_range(0..2)], rand_u64(g.rng).to_string(), 1),
                "g" => (["increment", "decrement", "set"][g.rng.random_range(0..3)], rand_f64_txt(g.rng), 1),
                _ => {
                    if g.rng.random_bool(0.5) {
                        ("record", rand_f64_txt(g.rng), 1)
                    } else {
                        ("record_many", rand_f64_txt(g.rng), g.rng.random_range(0..4))
                    }
                }
            };
            ops.push(json!({"o": "update", "h": h + 1, "u": u, "v": v, "n": n}));
        } else {
            let kind = ["c", "g", "h"][g.rng.random_range(0..3)];
            let name = g.name();
            if r < 6 {
                let desc = rand_str(g.rng, 3);
                ops.push(json!({"o": "describe", "kind": kind, "name": cps(&name), "unit": UNITS[g.rng.random_range(0..UNITS.len())],
                                "desc": cps(&desc)}));
            } else {
                let nl = g.rng.random_range(0..3);
                let labels: Vec<Value> = (0..nl).map(|_| {
                    let k = rand_str(g.rng, 2);
                    let v = rand_str(g.rng, 2);
                    json!([cps(&k), cps(&v)])
                }).collect();
                let tgt = rand_str(g.rng, 2);
                ops.push(json!({"o": "register", "kind": kind, "name": cps(&name), "labels": labels,
                                "lvl": LEVELS[g.rng.random_range(0..LEVELS.len())], "tgt": cps(&tgt), "mod": g.rng.random_bool(0.5)}));
                kinds.push(kind);
            }
        }
    }
    json!({"cfg": cfg, "ops": ops})
}

/// Random builder history: 1-3 builders, 4-14 calls in any order (layer() at any point, repeatedly, also onto earlier
/// products), then calls whose names are case variants / extensions of the patterns.
fn random_history(rng: &mut StdRng) -> Value {
    let mut g = Gen { rng, next_probe: 0, strings: vec![] };
    let mut hist: Vec<Value> = vec![];
    let mut kinds: Vec<bool> = vec![]; // builder i is a FilterLayer?
    let mut nmade = 0usize;
    let ncalls = g.rng.random_range(4..=14);
    while hist.len() < ncalls || nmade == 0 {
        let r = g.rng.random_range(0..12);
        if kinds.is_empty() || (r == 0 && kinds.len() < 3) {
            match g.rng.random_range(0..4) {
                0 => {
                    let p = g.cfg_str();
                    hist.push(json!({"c": "new_prefix", "p": cps(&p)}));
                    kinds.push(false);
                }
                1 => {
                    hist.push(json!({"c": "new_default"}));
                    kinds.push(true);
                }
                _ => {
                    let n = g.rng.random_range(0..3);
                    let pats: Vec<Value> = (0..n).map(|_| {
                        let p = g.cfg_str();
                        cps(&p)
                    }).collect();
                    hist.push(json!({"c": "new_filter", "pats": pats}));
                    kinds.push(true);
                }
            }
            continue;
        }
        let b = g.rng.random_range(0..kinds.len());
        if !kinds[b] || r >= 7 || (hist.len() + 1 >= ncalls && nmade == 0) {
            let onto = if nmade > 0 && g.rng.random_bool(0.3) { g.rng.random_range(1..=nmade) } else { 0 };
            if onto == 0 {
                nmade += 1;
            }
            hist.push(json!({"c": "layer", "b": b + 1, "onto": onto}));
        } else if r < 3 {
            let p = g.cfg_str();
            hist.push(json!({"c": "add", "b": b + 1, "p": cps(&p)}));
        } else if r < 6 {
            hist.push(json!({"c": "ci", "b": b + 1, "x": g.rng.random_bool(0.5)}));
        } else {
            hist.push(json!({"c": "dfa", "b": b + 1, "x": g.rng.random_bool(0.5)}));
        }
    }
    let nops = g.rng.random_range(6..=14);
    let mut ops = vec![];
    for i in 0..nops {
        let kind = ["c", "g", "h"][g.rng.random_range(0..3)];
        let name = g.name();
        if i % 2 == 0 {
            ops.push(json!({"o": "describe", "kind": kind, "name": cps(&name), "unit": "none", "desc": []}));
        } else {
            ops.push(json!({"o": "register", "kind": kind, "name": cps(&name), "labels": [], "lvl": "info", "tgt": [], "mod": false}));
        }
    }
    json!({"hist": hist, "ops": ops})
}

// ------------------------------------------------------------------------------------------- hammer (real parallel)
fn pr(id: i64) -> Value {
    json!({"t": "probe", "id": id})
}
fn fl(pats: &[&str], ci: bool, dfa: bool) -> Value {
    json!({"t": "filter", "pats": pats.iter().map(|p| cps(p)).collect::<Vec<_>>(), "ci": ci, "dfa": dfa})
}
fn rt(mask: &str, pat: &str, to: Value) -> Value {
    json!({"mask": mask, "pat": cps(pat), "to": to})
}

/// The layer kinds hammered: (label, configuration).  Names used: keep / drop / DROP / xdropx + ".t<thread>".
fn hammer_configs() -> Vec<(&'static str, Value)> {
    vec![
        ("filter", json!({"t": "stack", "base": pr(0), "layers": [fl(&["drop"], false, true)]})),
        ("filter_ci3", json!({"t": "stack", "base": pr(0), "layers": [fl(&["Drop", "nothing", "p.T9"], true, false)]})),
        ("prefix", json!({"t": "stack", "base": pr(0), "layers": [{"t": "prefix", "p": cps("app")}]})),
        ("router", json!({"t": "router", "def": pr(0), "routes": [rt("c", "keep", pr(1)), rt("all", "drop", pr(2)),
                          rt("h", "DROP", pr(3)), rt("g", "drop.t1", pr(4))]})),
        ("fanout", json!({"t": "fanout", "outs": [pr(1), pr(2)]})),
        ("stack3", json!({"t": "stack",
                          "base": {"t": "router", "def": pr(0), "routes": [rt("all", "app.keep", json!({"t": "fanout", "outs": [pr(1), pr(2)]}))]},
                          "layers": [fl(&["xdropx"], false, true), {"t": "prefix", "p": cps("app")}, fl(&["DROP"], false, false)]})),
    ]
}

fn hammer_run(label: &str, cfg: &Value, threads: usize, calls: usize, w: &mut Writer) -> (usize, f64) {
    COUNT_PROBES.with(|c| *c.borrow_mut() = Some(vec![]));
    let sh = Arc::new(Shared::default());
    let top: BoxRec = build(cfg, &sh);
    let top = &top;
    let probes = COUNT_PROBES.with(|c| c.borrow_mut().take()).unwrap_or_default();
    let barrier = Arc::new(std::sync::Barrier::new(threads));
    let t0 = std::time::Instant::now();
    let results: Vec<(Vec<String>, Vec<[i64; 6]>)> = std::thread::scope(|scope| {
    let hs: Vec<_> = (0..threads).map(|t| {
        let barrier = barrier.clone();
        scope.spawn(move || {
            static MD: Metadata<'static> = Metadata::new("c13_hammer", Level::INFO, None);
            let names: Vec<String> = ["keep", "drop", "DROP", "xdropx"].iter().map(|b| format!("{b}.t{t}")).collect();
            let keys: Vec<Key> = names.iter().map(|n| Key::from_name(n.clone())).collect();
            // rows[name][slot]: calls made
            let mut made = vec![[0i64; 6]; names.len()];
            barrier.wait();
            for i in 0..calls {
                // the same key twice in a row (hot metric), then the next key; the metric kind rotates more slowly
                let k = (i / 2) % keys.len();
                let kind = (i / (2 * keys.len())) % 3;
                match kind {
                    0 => top.register_counter(&keys[k], &MD).increment(1),
                    1 => top.register_gauge(&keys[k], &MD).set(1.0),
                    _ => top.register_histogram(&keys[k], &MD).record(1.0),
                }
                made[k][3 + kind] += 1;
                if i % 16 == 5 {
                    let kn = KeyName::from(names[k].clone());
                    match kind {
                        0 => top.describe_counter(kn, None, "".into()),
                        1 => top.describe_gauge(kn, Some(Unit::Count), "d".into()),
                        _ => top.describe_histogram(kn, None, "".into()),
                    }
                    made[k][kind] += 1;
                }
            }
            (names, made)
        })
    }).collect();
    hs.into_iter().map(|h| h.join().expect("harness: hammer thread")).collect()
    });
    let mut rows = vec![];
    let mut total = 0usize;
    for (names, made) in results {
        for (k, name) in names.iter().enumerate() {
            for slot in 0..6 {
                if made[k][slot] > 0 {
                    total += made[k][slot] as usize;
                    let (o, kind) = (if slot < 3 { "describe" } else { "register" }, ["c", "g", "h"][slot % 3]);
                    rows.push(json!({"o": o, "kind": kind, "name": cps(name), "calls": made[k][slot]}));
                }
            }
        }
    }
    let secs = t0.elapsed().as_secs_f64();
    let mut seen = vec![];
    for p in &probes {
        p.dump(&mut seen);
    }
    w.put(&json!({"ev": "reset", "cfg": cfg}));
    w.put(&json!({"ev": "hammer", "layer": label, "threads": threads, "rows": rows, "seen": seen}));
    (total, secs)
}

fn main() {
    let args = vh::Args::parse();
    let mode = args.pos.first().map(|s| s.as_str()).unwrap_or("record").to_string();
    let seed = vh::seed(1);
    let mut rng = vh::rng(seed);
    let out = args.get("out").unwrap_or("c13.ndjson").to_string();
    let mut w = Writer::create(&out);
    let mut st = Stats::default();
    // panics inside the code under test are data (logged as events); the message is kept for the event
    std::panic::set_hook(Box::new(|info| {
        let msg = info.payload().downcast_ref::<&str>().map(|s| s.to_string())
            .or_else(|| info.payload().downcast_ref::<String>().cloned()).unwrap_or_default();
        *LAST_PANIC.lock().unwrap() = msg;
    }));
    match mode.as_str() {
        "record" => {
            let runs: usize = args.num("runs", 200);
            for p in fixed_programs() {
                run_program(&p, &mut w, &mut st);
            }
            for i in 0..runs {
                let p = if i % 4 == 3 { random_history(&mut rng) } else { random_program(&mut rng) };
                run_program(&p, &mut w, &mut st);
            }
        }
        "hammer" => {
            let runs: usize = args.num("runs", 2);
            let threads: usize = args.num("threads", 8);
            let calls: usize = args.num("calls", 100_000);
            let only = args.get("only").map(|s| s.to_string());
            let (mut total, mut secs, mut nruns) = (0usize, 0f64, 0usize);
            for (label, cfg) in hammer_configs() {
                if only.as_deref().map(|o| o != label).unwrap_or(false) {
                    continue;
                }
                // the filter kinds get twice the runs: they are where a per-call memo would live
                let r = if label.starts_with("filter") { runs * 2 } else { runs };
                for _ in 0..r {
                    let (t, s) = hammer_run(label, &cfg, threads, calls, &mut w);
                    total += t;
                    secs += s;
                    nruns += 1;
                }
            }
            st.programs = nruns;
            st.events = 2 * nruns;
            st.calls = total;
            println!("{}", json!({"mode": mode, "seed": seed, "programs": nruns, "runs": nruns, "threads": threads, "calls": total,
                "lines": w.lines, "secs": (secs * 1000.0).round() / 1000.0}));
            w.finish();
            return;
        }
        "replay" => {
            let inp = args.get("in").expect("--in");
            let textf = std::fs::read_to_string(inp).expect("read programs");
            for line in textf.lines().filter(|l| !l.trim().is_empty()) {
                let p: Value = serde_json::from_str(line).expect("program json");
                run_program(&p, &mut w, &mut st);
            }
        }
        _ => {
            eprintln!("unknown mode {mode}");
            std::process::exit(2);
        }
    }
    let lines = w.lines;
    w.finish();
    println!("{}", json!({"mode": mode, "seed": seed, "programs": st.programs, "events": st.events, "lines": lines,
        "histories": st.histories, "calls": st.calls, "updates": st.updates, "panics": st.panics, "dropped": st.dropped, "renamed": st.renamed,
        "fanned": st.multi, "distinct_nontrivial": st.nontrivial.len()}));
}
