//! C12 driver: idle-timeout (recency) logic of metrics-util, directly and through the Prometheus exporter.
//!
//!   c12 record --runs N --out F [--mode direct|prom|mix]   seeded random timelines
//!   c12 replay --in PROGS --out F                           timelines produced by TLC (SimRecency REPLAY lines)
//!   c12 race --runs N --out F / c12 race-replay --in PROGS --out F   updates split in two, see `mod race`
//!
//! direct: `Registry<Key, GenerationalAtomicStorage>` + `Recency<Key>` driven like the Prometheus recorder does
//!         (generation read from the handle, then should_store_<kind>), on a `quanta::Clock::mock()`.
//! prom  : `PrometheusBuilder::idle_timeout(..).build_with_clock_verif(clock)`; updates through the Recorder
//!         trait, observations = `handle.render()` under `quanta::with_clock`.
//!
//! A series is (kind, key): kind "c" | "g" | "h", key n -> `Key::from_name("m<n>")` -- the SAME key for all
//! kinds (that is what the registry allows and what Recency.tla models).  1 tick = 1 ms.
//! Events (ndjson, validated by specs/Recency/TraceRecency.tla):
//!   reset{mode,mask,timeout}  register{kind,key,gen,val}  update{kind,key,d,op,gen,val}  tick{d,now}
//!   observe{kind,key,gen,keep,present,val}  snap{series:[[kind,key,gen,val]..]}
//!   render{types:[[kind,key]..], fam:[[kind,key,val]..]}  panic{..}
use metrics::{CounterFn, GaugeFn, HistogramFn, Key, Recorder};
use metrics_exporter_prometheus::PrometheusBuilder;
use metrics_util::registry::{AtomicStorage, GenerationalStorage, Recency, Registry};
use metrics_util::MetricKindMask;
use quanta::Clock;
use rand::Rng;
use serde_json::{json, Value};
use std::panic::{catch_unwind, AssertUnwindSafe};
use std::sync::atomic::Ordering;
use std::time::Duration;
use vh::trace::Writer;

static META: metrics::Metadata<'static> = metrics::Metadata::new("c12", metrics::Level::INFO, None);

#[derive(Clone, Debug)]
enum Op {
    Register(char, u32),
    Update(char, u32, u64),
    Tick(u64),
    Observe(char, u32, Option<bool>), // expected result (from TLC) if known
    Sweep,
    Snap,
    Render,
    Remove(char, u32),      // Registry::delete_<kind> / retain_<kind>s behind Recency's back
    Clear,                  // Registry::clear
    OSnap(u32, char, u32),  // overlapping observer: snapshot of the handle now ...
    ODecide(u32),           // ... get_generation + should_store later
}

/// The handle an overlapping observer holds.
enum Held {
    C(metrics_util::registry::Generational<std::sync::Arc<metrics::atomics::AtomicU64>>),
    G(metrics_util::registry::Generational<std::sync::Arc<metrics::atomics::AtomicU64>>),
    H(metrics_util::registry::Generational<std::sync::Arc<metrics_util::storage::AtomicBucket<f64>>>),
}

#[derive(Clone, Debug)]
struct Program {
    prom: bool,
    mask: Vec<char>,
    timeout: Option<u64>,
    ops: Vec<Op>,
}

fn key_of(k: u32) -> Key {
    Key::from_name(format!("m{}", k))
}

fn mask_of(m: &[char]) -> MetricKindMask {
    let mut r = MetricKindMask::NONE;
    for c in m {
        r = r | match c {
            'c' => MetricKindMask::COUNTER,
            'g' => MetricKindMask::GAUGE,
            _ => MetricKindMask::HISTOGRAM,
        };
    }
    r
}

/// `Generation` is opaque; its Debug form is `Generation(n)`.
fn gen_num<G: std::fmt::Debug>(g: &G) -> i64 {
    let s = format!("{:?}", g);
    let digits: String = s.chars().filter(|c| c.is_ascii_digit()).collect();
    digits.parse().unwrap_or(-1)
}

fn kind_s(k: char) -> String {
    k.to_string()
}

struct Stats {
    keeps: usize,
    drops: usize,
    diverged: usize,
    panics: usize,
}

type Reg = Registry<Key, GenerationalStorage<AtomicStorage>>;

fn series_state(reg: &Reg, kind: char, key: &Key) -> Option<(i64, i64)> {
    match kind {
        'c' => reg.get_counter(key).map(|h| (gen_num(&h.get_generation()), h.get_inner().load(Ordering::Acquire) as i64)),
        'g' => reg
            .get_gauge(key)
            .map(|h| (gen_num(&h.get_generation()), f64::from_bits(h.get_inner().load(Ordering::Acquire)) as i64)),
        _ => reg.get_histogram(key).map(|h| (gen_num(&h.get_generation()), h.get_inner().data().len() as i64)),
    }
}

/// One observation, exactly the recorder's sequence: generation from the snapshot handle, should_store, value.
fn observe_direct(reg: &Reg, rec: &Recency<Key>, kind: char, k: u32) -> Value {
    let key = key_of(k);
    let (gen, keep, val) = match kind {
        'c' => match reg.get_counter_handles().remove(&key) {
            Some(h) => {
                let g = h.get_generation();
                let keep = rec.should_store_counter(&key, g, reg);
                (gen_num(&g), keep, h.get_inner().load(Ordering::Acquire) as i64)
            }
            None => return json!({"p": 0, "ev": "observe_missing", "kind": "c", "key": k}),
        },
        'g' => match reg.get_gauge_handles().remove(&key) {
            Some(h) => {
                let g = h.get_generation();
                let keep = rec.should_store_gauge(&key, g, reg);
                (gen_num(&g), keep, f64::from_bits(h.get_inner().load(Ordering::Acquire)) as i64)
            }
            None => return json!({"p": 0, "ev": "observe_missing", "kind": "g", "key": k}),
        },
        _ => match reg.get_histogram_handles().remove(&key) {
            Some(h) => {
                let g = h.get_generation();
                let keep = rec.should_store_histogram(&key, g, reg);
                (gen_num(&g), keep, h.get_inner().data().len() as i64)
            }
            None => return json!({"p": 0, "ev": "observe_missing", "kind": "h", "key": k}),
        },
    };
    let present = series_state(reg, kind, &key).is_some();
    json!({"p": 0, "ev": "observe", "kind": kind_s(kind), "key": k, "gen": gen, "keep": keep, "present": present, "val": val})
}

fn key_num(key: &Key) -> u32 {
    key.name().trim_start_matches('m').parse().unwrap_or(0)
}

fn snap_direct(reg: &Reg) -> Value {
    let mut v: Vec<(String, u32, i64, i64)> = vec![];
    for (k, h) in reg.get_counter_handles() {
        v.push(("c".into(), key_num(&k), gen_num(&h.get_generation()), h.get_inner().load(Ordering::Acquire) as i64));
    }
    for (k, h) in reg.get_gauge_handles() {
        v.push(("g".into(), key_num(&k), gen_num(&h.get_generation()), f64::from_bits(h.get_inner().load(Ordering::Acquire)) as i64));
    }
    for (k, h) in reg.get_histogram_handles() {
        v.push(("h".into(), key_num(&k), gen_num(&h.get_generation()), h.get_inner().data().len() as i64));
    }
    v.sort();
    json!({"p": 0, "ev": "snap", "series": v.iter().map(|(a, b, c, d)| json!([a, b, c, d])).collect::<Vec<_>>()})
}

fn reset_event(p: &Program) -> Value {
    json!({"p": 0, "ev": "reset", "mode": if p.prom { "prom" } else { "direct" },
           "mask": p.mask.iter().map(|c| c.to_string()).collect::<Vec<_>>(),
           "timeout": p.timeout.map(|t| t as i64).unwrap_or(-1)})
}

fn run_direct(p: &Program, variant: &mut dyn FnMut(usize) -> usize, st: &mut Stats) -> Vec<Value> {
    let mut ev = vec![reset_event(p)];
    let (clock, mock) = Clock::mock();
    let reg: Reg = Registry::new(GenerationalStorage::new(AtomicStorage));
    let rec: Recency<Key> = Recency::new(clock.clone(), mask_of(&p.mask), p.timeout.map(Duration::from_millis));
    let slots: std::cell::RefCell<std::collections::HashMap<u32, (char, u32, Held)>> = Default::default();
    for op in &p.ops {
        let r = catch_unwind(AssertUnwindSafe(|| -> Vec<Value> {
            match op {
                Op::Remove(kind, k) => {
                    let key = key_of(*k);
                    let retain = variant(2) == 1;
                    let before = series_state(&reg, *kind, &key).is_some();
                    let existed = if retain {
                        match kind {
                            'c' => reg.retain_counters(|kk, _| kk != &key),
                            'g' => reg.retain_gauges(|kk, _| kk != &key),
                            _ => reg.retain_histograms(|kk, _| kk != &key),
                        }
                        before
                    } else {
                        match kind {
                            'c' => reg.delete_counter(&key),
                            'g' => reg.delete_gauge(&key),
                            _ => reg.delete_histogram(&key),
                        }
                    };
                    vec![json!({"p": 0, "ev": "remove", "kind": kind_s(*kind), "key": k, "how": if retain { "retain" } else { "delete" }, "existed": existed})]
                }
                Op::Clear => {
                    reg.clear();
                    vec![json!({"p": 0, "ev": "clear"})]
                }
                Op::OSnap(ob, kind, k) => {
                    if slots.borrow().contains_key(ob) {
                        return vec![];
                    }
                    let key = key_of(*k);
                    let h = match kind {
                        'c' => reg.get_counter_handles().remove(&key).map(Held::C),
                        'g' => reg.get_gauge_handles().remove(&key).map(Held::G),
                        _ => reg.get_histogram_handles().remove(&key).map(Held::H),
                    };
                    match h {
                        Some(h) => {
                            slots.borrow_mut().insert(*ob, (*kind, *k, h));
                            vec![json!({"p": ob, "ev": "o.snap", "ob": ob, "kind": kind_s(*kind), "key": k})]
                        }
                        None => vec![json!({"p": ob, "ev": "observe_missing", "kind": kind_s(*kind), "key": k})],
                    }
                }
                Op::ODecide(ob) => {
                    let (kind, k, h) = match slots.borrow_mut().remove(ob) {
                        Some(x) => x,
                        None => return vec![],
                    };
                    let key = key_of(k);
                    let (g, keep) = match &h {
                        Held::C(h) => {
                            let g = h.get_generation();
                            (gen_num(&g), rec.should_store_counter(&key, g, &reg))
                        }
                        Held::G(h) => {
                            let g = h.get_generation();
                            (gen_num(&g), rec.should_store_gauge(&key, g, &reg))
                        }
                        Held::H(h) => {
                            let g = h.get_generation();
                            (gen_num(&g), rec.should_store_histogram(&key, g, &reg))
                        }
                    };
                    let present = series_state(&reg, kind, &key).is_some();
                    vec![json!({"p": ob, "ev": "o.decide", "ob": ob, "kind": kind_s(kind), "key": k, "gen": g, "keep": keep, "present": present})]
                }
                Op::Register(kind, k) => {
                    let key = key_of(*k);
                    match kind {
                        'c' => reg.get_or_create_counter(&key, |_| ()),
                        'g' => reg.get_or_create_gauge(&key, |_| ()),
                        _ => reg.get_or_create_histogram(&key, |_| ()),
                    }
                    let (g, v) = series_state(&reg, *kind, &key).unwrap_or((-2, -2));
                    vec![json!({"p": 0, "ev": "register", "kind": kind_s(*kind), "key": k, "gen": g, "val": v})]
                }
                Op::Update(kind, k, d) => {
                    let key = key_of(*k);
                    let d = *d;
                    let opname;
                    match kind {
                        'c' => {
                            let var = variant(3);
                            opname = match (var, d) {
                                (1, _) => "absolute(cur+d)",
                                (2, 0) => "absolute(0)",
                                _ => "increment(d)",
                            };
                            reg.get_or_create_counter(&key, |c| match (var, d) {
                                (1, _) => c.absolute(c.get_inner().load(Ordering::Acquire) + d),
                                (2, 0) => c.absolute(0),
                                _ => CounterFn::increment(c, d),
                            });
                        }
                        'g' => {
                            let var = variant(3);
                            opname = match (var, d) {
                                (1, _) => "set(cur+d)",
                                (2, 0) => "decrement(0)",
                                _ => "increment(d)",
                            };
                            reg.get_or_create_gauge(&key, |g| match (var, d) {
                                (1, _) => g.set(f64::from_bits(g.get_inner().load(Ordering::Acquire)) + d as f64),
                                (2, 0) => g.decrement(0.0),
                                _ => GaugeFn::increment(g, d as f64),
                            });
                        }
                        _ => {
                            opname = "record";
                            for _ in 0..d {
                                reg.get_or_create_histogram(&key, |h| h.record(1.5));
                            }
                        }
                    }
                    let (g, v) = series_state(&reg, *kind, &key).unwrap_or((-2, -2));
                    vec![json!({"p": 0, "ev": "update", "kind": kind_s(*kind), "key": k, "d": d, "op": opname, "gen": g, "val": v})]
                }
                Op::Tick(d) => {
                    mock.increment(Duration::from_millis(*d));
                    vec![json!({"p": 0, "ev": "tick", "d": d, "now": (mock.value() / 1_000_000) as i64, "sub": (mock.value() % 1_000_000) as i64})]
                }
                Op::Observe(kind, k, exp) => {
                    let e = observe_direct(&reg, &rec, *kind, *k);
                    if let (Some(x), Some(y)) = (exp, e.get("keep").and_then(|v| v.as_bool())) {
                        if *x != y {
                            st.diverged += 1;
                        }
                    }
                    vec![e]
                }
                Op::Sweep => {
                    // get_recent_metrics: counters, gauges, histograms, each in HashMap order
                    let mut out = vec![];
                    let ck: Vec<u32> = reg.get_counter_handles().keys().map(key_num).collect();
                    for k in ck {
                        out.push(observe_direct(&reg, &rec, 'c', k));
                    }
                    let gk: Vec<u32> = reg.get_gauge_handles().keys().map(key_num).collect();
                    for k in gk {
                        out.push(observe_direct(&reg, &rec, 'g', k));
                    }
                    let hk: Vec<u32> = reg.get_histogram_handles().keys().map(key_num).collect();
                    for k in hk {
                        out.push(observe_direct(&reg, &rec, 'h', k));
                    }
                    out
                }
                Op::Snap | Op::Render => vec![snap_direct(&reg)],
            }
        }));
        match r {
            Ok(es) => {
                for e in es {
                    match e.get("keep").and_then(|v| v.as_bool()) {
                        Some(true) => st.keeps += 1,
                        Some(false) => st.drops += 1,
                        None => {}
                    }
                    ev.push(e);
                }
            }
            Err(_) => {
                st.panics += 1;
                ev.push(json!({"p": 0, "ev": "panic", "op": format!("{:?}", op)}));
                break;
            }
        }
    }
    ev.push(snap_direct(&reg));
    ev
}

/// Line scan of the exposition text: families from `# TYPE` lines, one value per family
/// (counter/gauge: the sample named like the family; summary/histogram: `<name>_count`).
fn scan_render(text: &str) -> (Vec<Value>, Vec<Value>, Vec<String>) {
    let mut types = vec![];
    let mut fam = vec![];
    let mut odd = vec![];
    let mut cur: Option<(String, char)> = None;
    for line in text.lines() {
        if line.is_empty() {
            continue;
        }
        if let Some(rest) = line.strip_prefix("# TYPE ") {
            let mut it = rest.split(' ');
            let name = it.next().unwrap_or("").to_string();
            let kind = match it.next().unwrap_or("") {
                "counter" => 'c',
                "gauge" => 'g',
                "summary" | "histogram" => 'h',
                _ => '?',
            };
            types.push(json!([kind_s(kind), name.trim_start_matches('m').parse::<u32>().unwrap_or(0)]));
            cur = Some((name, kind));
            continue;
        }
        if line.starts_with('#') {
            continue;
        }
        let (name, kind) = match &cur {
            Some(x) => x.clone(),
            None => {
                odd.push(line.to_string());
                continue;
            }
        };
        let metric_end = line.find(|c| c == ' ' || c == '{').unwrap_or(line.len());
        let metric = &line[..metric_end];
        let value = line.rsplit(' ').next().unwrap_or("");
        let want = if kind == 'h' { format!("{}_count", name) } else { name.clone() };
        if metric == want {
            match value.parse::<f64>() {
                Ok(v) if v.fract() == 0.0 => fam.push(json!([kind_s(kind), name.trim_start_matches('m').parse::<u32>().unwrap_or(0), v as i64])),
                _ => odd.push(line.to_string()),
            }
        } else if !(kind == 'h' && (metric == name || metric == format!("{}_sum", name) || metric == format!("{}_bucket", name))) {
            odd.push(line.to_string());
        }
    }
    (types, fam, odd)
}

fn run_prom(p: &Program, variant: &mut dyn FnMut(usize) -> usize, st: &mut Stats) -> Vec<Value> {
    let mut ev = vec![reset_event(p)];
    let (clock, mock) = Clock::mock();
    let recorder = PrometheusBuilder::new()
        .idle_timeout(mask_of(&p.mask), p.timeout.map(Duration::from_millis))
        .build_with_clock_verif(clock.clone());
    let handle = recorder.handle();
    let mut ops = p.ops.clone();
    if !matches!(ops.last(), Some(Op::Render)) {
        ops.push(Op::Render); // every prom run ends with a render
    }
    for op in &ops {
        let r = catch_unwind(AssertUnwindSafe(|| -> Vec<Value> {
            match op {
                Op::Register(kind, k) => {
                    let key = key_of(*k);
                    match kind {
                        'c' => drop(recorder.register_counter(&key, &META)),
                        'g' => drop(recorder.register_gauge(&key, &META)),
                        _ => drop(recorder.register_histogram(&key, &META)),
                    }
                    vec![json!({"p": 0, "ev": "register", "kind": kind_s(*kind), "key": k, "gen": -1, "val": -1})]
                }
                Op::Update(kind, k, d) => {
                    let key = key_of(*k);
                    let d = *d;
                    let opname;
                    match kind {
                        'c' => {
                            let c = recorder.register_counter(&key, &META);
                            if d == 0 && variant(2) == 1 {
                                opname = "absolute(0)";
                                c.absolute(0);
                            } else {
                                opname = "increment(d)";
                                c.increment(d);
                            }
                        }
                        'g' => {
                            let g = recorder.register_gauge(&key, &META);
                            if d == 0 && variant(2) == 1 {
                                opname = "decrement(0)";
                                g.decrement(0.0);
                            } else {
                                opname = "increment(d)";
                                g.increment(d as f64);
                            }
                        }
                        _ => {
                            opname = "record";
                            let h = recorder.register_histogram(&key, &META);
                            for _ in 0..d {
                                h.record(1.5);
                            }
                        }
                    }
                    vec![json!({"p": 0, "ev": "update", "kind": kind_s(*kind), "key": k, "d": d, "op": opname, "gen": -1, "val": -1})]
                }
                Op::Tick(d) => {
                    mock.increment(Duration::from_millis(*d));
                    vec![json!({"p": 0, "ev": "tick", "d": d, "now": (mock.value() / 1_000_000) as i64, "sub": (mock.value() % 1_000_000) as i64})]
                }
                Op::Render | Op::Sweep | Op::Snap | Op::Observe(..) | Op::Remove(..) | Op::Clear | Op::OSnap(..) | Op::ODecide(..) => {
                    let text = quanta::with_clock(&clock, || handle.render());
                    let (types, fam, odd) = scan_render(&text);
                    vec![json!({"p": 0, "ev": "render", "types": types, "fam": fam, "odd": odd})]
                }
            }
        }));
        match r {
            Ok(es) => ev.extend(es),
            Err(_) => {
                st.panics += 1;
                ev.push(json!({"p": 0, "ev": "panic", "op": format!("{:?}", op)}));
                break;
            }
        }
    }
    ev
}

fn random_program(rng: &mut rand::rngs::StdRng, mode: &str) -> Program {
    let prom = match mode {
        "direct" => false,
        "prom" => true,
        _ => rng.random_range(0..3) == 0,
    };
    let kinds = ['c', 'g', 'h'];
    let mask: Vec<char> = match rng.random_range(0..10) {
        0 => vec![],
        1..=4 => kinds.to_vec(),
        _ => kinds.iter().cloned().filter(|_| rng.random_bool(0.6)).collect(),
    };
    let timeout = if rng.random_range(0..8) == 0 { None } else { Some(rng.random_range(1..=4u64)) };
    let t = timeout.unwrap_or(2);
    // Series the timeline may touch.  "shared": every used kind under every key (the same key under
    // several kinds); "disjoint": every key belongs to one kind only.
    let nkeys = rng.random_range(1..=3u32);
    let series: Vec<(char, u32)> = if rng.random_range(0..10) < 4 {
        let nkinds = rng.random_range(2..=3usize);
        let mut k = kinds.to_vec();
        while k.len() > nkinds {
            let i = rng.random_range(0..k.len());
            k.remove(i);
        }
        k.iter().flat_map(|kind| (1..=nkeys).map(move |key| (*kind, key))).collect()
    } else {
        (1..=3u32).map(|key| (kinds[rng.random_range(0..3)], key)).collect()
    };
    let len = rng.random_range(6..40usize);
    let mut ops = vec![];
    for _ in 0..len {
        let (kind, key) = series[rng.random_range(0..series.len())];
        let x = rng.random_range(0..100);
        ops.push(if x < 32 {
            let d = if kind == 'h' { 1 } else { rng.random_range(0..=2u64) };
            Op::Update(kind, key, d)
        } else if x < 58 {
            let ds = [1, t.saturating_sub(1).max(1), t, t + 1, t + 1, 2 * t + 1];
            Op::Tick(ds[rng.random_range(0..ds.len())])
        } else if x < 80 {
            if prom { Op::Render } else { Op::Observe(kind, key, None) }
        } else if x < 90 {
            if prom { Op::Render } else { Op::Sweep }
        } else if x < 95 {
            Op::Register(kind, key)
        } else if prom {
            Op::Render
        } else if x < 97 {
            Op::Snap
        } else {
            Op::Clear
        });
        if !prom {
            // registry-side removals and an overlapping observer (not expressible through the exporter)
            let y = rng.random_range(0..100);
            let (kind, key) = series[rng.random_range(0..series.len())];
            if y < 9 {
                ops.push(Op::Remove(kind, key));
            } else if y < 15 {
                ops.push(Op::OSnap(rng.random_range(1..=2u32), kind, key));
            } else if y < 23 {
                ops.push(Op::ODecide(rng.random_range(1..=2u32)));
            }
        }
    }
    Program { prom, mask, timeout, ops }
}

fn parse_program(v: &Value) -> Program {
    let chr = |x: &Value| x.as_str().and_then(|s| s.chars().next()).unwrap_or('c');
    let mask = v["mask"].as_array().map(|a| a.iter().map(chr).collect()).unwrap_or_default();
    let timeout = v["timeout"].as_i64().and_then(|t| if t < 0 { None } else { Some(t as u64) });
    let prom = v["mode"].as_str() == Some("prom");
    let mut ops = vec![];
    for o in v["ops"].as_array().cloned().unwrap_or_default() {
        let name = o[0].as_str().unwrap_or("");
        ops.push(match name {
            "register" => Op::Register(chr(&o[1]), o[2].as_u64().unwrap_or(0) as u32),
            "update" => Op::Update(chr(&o[1]), o[2].as_u64().unwrap_or(0) as u32, o[3].as_u64().unwrap_or(0)),
            "tick" => Op::Tick(o[1].as_u64().unwrap_or(0)),
            "observe" => Op::Observe(chr(&o[1]), o[2].as_u64().unwrap_or(0) as u32, o[3].as_bool()),
            "render" => {
                if prom { Op::Render } else { Op::Sweep }
            }
            "remove" => Op::Remove(chr(&o[1]), o[2].as_u64().unwrap_or(0) as u32),
            "clear" => Op::Clear,
            "osnap" => Op::OSnap(o[1].as_u64().unwrap_or(1) as u32, chr(&o[2]), o[3].as_u64().unwrap_or(0) as u32),
            "odecide" => Op::ODecide(o[1].as_u64().unwrap_or(1) as u32),
            _ => Op::Snap,
        });
    }
    Program { prom, mask, timeout, ops }
}


// =====================================================================================================
// race mode: updaters held INSIDE the inner storage primitive while the controller runs the exporter's
// steps (specs/Recency/RecencyRace.tla, validated by TraceRecencyRace.tla).
//
//   c12 race        --runs N --out F     directed timelines + seeded random legal schedules
//   c12 race-replay --in PROGS --out F   schedules produced by TLC (SimRecencyRace REPLAY lines)
//
// `GatedStorage` is a plain public-API `Storage<Key>`; its primitives stop at two gates when the calling
// thread is an emitter of the harness: gate 1 before the primitive's effect, gate 2 after it.  Everything
// `Generational::with_increment` does around the primitive therefore happens either before gate 1 or
// after gate 2, and the controller can look at the registered handle (generation, value) in between.
// =====================================================================================================
mod race {
    use super::{gen_num, key_of, kind_s};
    use metrics::{CounterFn, GaugeFn, HistogramFn, Key};
    use metrics_util::registry::{Generational, GenerationalStorage, Recency, Registry, Storage};
    use metrics_util::MetricKindMask;
    use quanta::Clock;
    use rand::Rng;
    use serde_json::{json, Value};
    use std::cell::RefCell;
    use std::collections::HashMap;
    use std::sync::atomic::{AtomicU64, Ordering};
    use std::sync::{Arc, Condvar, Mutex};
    use std::time::Duration;

    const DEADLINE: Duration = Duration::from_secs(30);

    /// (phase reached by the emitter, phase the controller allows it to leave)
    pub struct Ctl {
        m: Mutex<(u8, u8)>,
        cv: Condvar,
    }
    impl Ctl {
        fn new() -> Arc<Ctl> {
            Arc::new(Ctl { m: Mutex::new((0, 0)), cv: Condvar::new() })
        }
        fn arrive(&self, p: u8) {
            let mut g = self.m.lock().unwrap();
            g.0 = p;
            self.cv.notify_all();
        }
        fn wait_allow(&self, p: u8) {
            let g = self.m.lock().unwrap();
            let _ = self.cv.wait_timeout_while(g, DEADLINE * 2, |s| s.1 < p).unwrap();
        }
        fn allow(&self, p: u8) {
            let mut g = self.m.lock().unwrap();
            if g.1 < p {
                g.1 = p;
            }
            self.cv.notify_all();
        }
        fn wait_phase(&self, p: u8) -> bool {
            let g = self.m.lock().unwrap();
            let (_g, r) = self.cv.wait_timeout_while(g, DEADLINE, |s| s.0 < p).unwrap();
            !r.timed_out()
        }
    }
    thread_local! { static CUR: RefCell<Option<Arc<Ctl>>> = RefCell::new(None); }

    fn gated(effect: impl FnOnce()) {
        match CUR.with(|c| c.borrow().clone()) {
            None => effect(),
            Some(c) => {
                c.arrive(1);
                c.wait_allow(1);
                effect();
                c.arrive(2);
                c.wait_allow(2);
            }
        }
    }

    pub struct GCounter(AtomicU64);
    pub struct GGauge(AtomicU64);
    pub struct GHist(AtomicU64);
    impl CounterFn for GCounter {
        fn increment(&self, v: u64) {
            gated(|| {
                self.0.fetch_add(v, Ordering::SeqCst);
            })
        }
        fn absolute(&self, v: u64) {
            gated(|| {
                self.0.fetch_max(v, Ordering::SeqCst);
            })
        }
    }
    impl GaugeFn for GGauge {
        fn increment(&self, v: f64) {
            gated(|| {
                let _ = self.0.fetch_update(Ordering::SeqCst, Ordering::SeqCst, |b| Some((f64::from_bits(b) + v).to_bits()));
            })
        }
        fn decrement(&self, v: f64) {
            gated(|| {
                let _ = self.0.fetch_update(Ordering::SeqCst, Ordering::SeqCst, |b| Some((f64::from_bits(b) - v).to_bits()));
            })
        }
        fn set(&self, v: f64) {
            gated(|| self.0.store(v.to_bits(), Ordering::SeqCst))
        }
    }
    impl HistogramFn for GHist {
        fn record(&self, _v: f64) {
            gated(|| {
                self.0.fetch_add(1, Ordering::SeqCst);
            })
        }
    }
    pub struct GatedStorage;
    impl Storage<Key> for GatedStorage {
        type Counter = Arc<GCounter>;
        type Gauge = Arc<GGauge>;
        type Histogram = Arc<GHist>;
        fn counter(&self, _: &Key) -> Self::Counter {
            Arc::new(GCounter(AtomicU64::new(0)))
        }
        fn gauge(&self, _: &Key) -> Self::Gauge {
            Arc::new(GGauge(AtomicU64::new(0f64.to_bits())))
        }
        fn histogram(&self, _: &Key) -> Self::Histogram {
            Arc::new(GHist(AtomicU64::new(0)))
        }
    }
    type RReg = Registry<Key, GenerationalStorage<GatedStorage>>;

    #[derive(Clone)]
    enum H {
        C(Generational<Arc<GCounter>>),
        G(Generational<Arc<GGauge>>),
        H(Generational<Arc<GHist>>),
    }
    impl H {
        fn gen(&self) -> metrics_util::registry::Generation {
            match self {
                H::C(h) => h.get_generation(),
                H::G(h) => h.get_generation(),
                H::H(h) => h.get_generation(),
            }
        }
        fn val(&self) -> i64 {
            match self {
                H::C(h) => h.get_inner().0.load(Ordering::SeqCst) as i64,
                H::G(h) => f64::from_bits(h.get_inner().0.load(Ordering::SeqCst)) as i64,
                H::H(h) => h.get_inner().0.load(Ordering::SeqCst) as i64,
            }
        }
        fn update(&self, d: u64) {
            match self {
                H::C(h) => CounterFn::increment(h, d),
                H::G(h) => GaugeFn::increment(h, d as f64),
                H::H(h) => {
                    for _ in 0..d {
                        h.record(1.5)
                    }
                }
            }
        }
    }
    fn registered(reg: &RReg, kind: char, key: &Key) -> Option<H> {
        match kind {
            'c' => reg.get_counter(key).map(H::C),
            'g' => reg.get_gauge(key).map(H::G),
            _ => reg.get_histogram(key).map(H::H),
        }
    }
    fn snapshot(reg: &RReg, kind: char, key: &Key) -> Option<H> {
        // what get_recent_metrics iterates over
        match kind {
            'c' => reg.get_counter_handles().remove(key).map(H::C),
            'g' => reg.get_gauge_handles().remove(key).map(H::G),
            _ => reg.get_histogram_handles().remove(key).map(H::H),
        }
    }
    fn get_or_create(reg: &RReg, kind: char, key: &Key) -> H {
        match kind {
            'c' => H::C(reg.get_or_create_counter(key, |c| c.clone())),
            'g' => H::G(reg.get_or_create_gauge(key, |c| c.clone())),
            _ => H::H(reg.get_or_create_histogram(key, |c| c.clone())),
        }
    }

    #[derive(Clone, Debug)]
    pub enum ROp {
        Tick(u64),
        UBegin(usize, u64),
        UStep1(usize),
        UStep2(usize),
        OGen,
        ODecide,
        OVal,
    }
    #[derive(Clone, Debug)]
    pub struct RProgram {
        pub kind: char,
        pub timeout: u64,
        pub ops: Vec<ROp>,
    }

    pub struct ROut {
        pub events: Vec<Value>,
        pub dropped: bool,
        pub hang: bool,
        pub raced: bool, // an observation step ran while an emitter was inside an update
    }

    pub fn run(p: &RProgram) -> ROut {
        let reg: Arc<RReg> = Arc::new(Registry::new(GenerationalStorage::new(GatedStorage)));
        let (clock, mock) = Clock::mock();
        let rec: Recency<Key> = Recency::new(clock, MetricKindMask::ALL, Some(Duration::from_millis(p.timeout)));
        let key = key_of(1);
        let kind = p.kind;
        let _ = get_or_create(&reg, kind, &key);
        let mut ev = vec![json!({"p": 0, "ev": "reset", "mode": "race", "kind": kind_s(kind), "timeout": p.timeout})];
        let mut emitters: HashMap<usize, (Arc<Ctl>, std::thread::JoinHandle<()>)> = HashMap::new();
        let mut obs: Option<(H, metrics_util::registry::Generation)> = None;
        let mut out = ROut { events: vec![], dropped: false, hang: false, raced: false };
        let shows = |reg: &RReg| -> (i64, i64) {
            match registered(reg, kind, &key) {
                Some(h) => (gen_num(&h.gen()), h.val()),
                None => (-2, -2),
            }
        };
        for op in &p.ops {
            match op {
                ROp::Tick(d) => {
                    mock.increment(Duration::from_millis(*d));
                    ev.push(json!({"p": 0, "ev": "tick", "d": d, "now": (mock.value() / 1_000_000) as i64, "sub": (mock.value() % 1_000_000) as i64}));
                }
                ROp::UBegin(u, d) => {
                    if emitters.contains_key(u) {
                        continue;
                    }
                    let ctl = Ctl::new();
                    let (c2, r2, k2, d2) = (ctl.clone(), reg.clone(), key.clone(), *d);
                    let jh = std::thread::spawn(move || {
                        // like Recorder::register_*: a clone of the handle, used outside any registry lock
                        let h = get_or_create(&r2, kind, &k2);
                        CUR.with(|c| *c.borrow_mut() = Some(c2.clone()));
                        h.update(d2);
                        CUR.with(|c| *c.borrow_mut() = None);
                        c2.arrive(3);
                    });
                    if !ctl.wait_phase(1) {
                        out.hang = true;
                        ev.push(json!({"p": *u, "ev": "hang", "at": "u.begin"}));
                        break;
                    }
                    emitters.insert(*u, (ctl, jh));
                    let (g, v) = shows(&reg);
                    ev.push(json!({"p": *u, "ev": "u.begin", "u": u, "d": d, "gen": g, "val": v}));
                }
                ROp::UStep1(u) => {
                    let ok = match emitters.get(u) {
                        Some((ctl, _)) => {
                            ctl.allow(1);
                            ctl.wait_phase(2)
                        }
                        None => continue,
                    };
                    if !ok {
                        out.hang = true;
                        ev.push(json!({"p": *u, "ev": "hang", "at": "u.value"}));
                        break;
                    }
                    let (g, v) = shows(&reg);
                    ev.push(json!({"p": *u, "ev": "u.value", "u": u, "gen": g, "val": v}));
                }
                ROp::UStep2(u) => {
                    let (ctl, jh) = match emitters.remove(u) {
                        Some(x) => x,
                        None => continue,
                    };
                    ctl.allow(2);
                    if !ctl.wait_phase(3) {
                        out.hang = true;
                        ev.push(json!({"p": *u, "ev": "hang", "at": "u.end"}));
                        break;
                    }
                    let _ = jh.join();
                    let (g, v) = shows(&reg);
                    ev.push(json!({"p": *u, "ev": "u.end", "u": u, "gen": g, "val": v}));
                }
                ROp::OGen => match snapshot(&reg, kind, &key) {
                    Some(h) => {
                        let g = h.gen();
                        ev.push(json!({"p": 0, "ev": "o.gen", "gen": gen_num(&g)}));
                        obs = Some((h, g));
                        out.raced |= !emitters.is_empty();
                    }
                    None => {
                        ev.push(json!({"p": 0, "ev": "o.missing"}));
                        break;
                    }
                },
                ROp::ODecide => {
                    let (h, g) = match &obs {
                        Some(x) => x.clone(),
                        None => continue,
                    };
                    let keep = match &h {
                        H::C(_) => rec.should_store_counter(&key, g, &reg),
                        H::G(_) => rec.should_store_gauge(&key, g, &reg),
                        H::H(_) => rec.should_store_histogram(&key, g, &reg),
                    };
                    let present = registered(&reg, kind, &key).is_some();
                    ev.push(json!({"p": 0, "ev": "o.decide", "keep": keep, "present": present}));
                    out.raced |= !emitters.is_empty();
                    if !keep {
                        out.dropped = true;
                        break; // the model's run ends with the drop
                    }
                }
                ROp::OVal => {
                    if let Some((h, _)) = obs.take() {
                        ev.push(json!({"p": 0, "ev": "o.val", "val": h.val()}));
                        out.raced |= !emitters.is_empty();
                    }
                }
            }
        }
        // let every emitter still inside an update finish (not part of the validated run)
        for (_, (ctl, jh)) in emitters.drain() {
            ctl.allow(2);
            if ctl.wait_phase(3) {
                let _ = jh.join();
            }
        }
        out.events = ev;
        out
    }

    /// The coordinator's timeline and its variants: update + observation #0; an emitter held inside the
    /// primitive (before / after its effect) around the steps of observation #1; released; advance by
    /// timeout-1 / timeout / timeout+1; observation #2.
    pub fn directed() -> Vec<RProgram> {
        use ROp::*;
        let mut v = vec![];
        let o = || vec![OGen, ODecide, OVal];
        for kind in ['c', 'g', 'h'] {
            for t in [2u64, 3] {
                for adv in [t - 1, t, t + 1] {
                    let d = if kind == 'h' { 1 } else { 2 };
                    let races: Vec<Vec<ROp>> = vec![
                        // held before the effect during the whole observation
                        [vec![UBegin(1, d)], o(), vec![UStep1(1), UStep2(1)]].concat(),
                        // held after the effect during the whole observation
                        [vec![UBegin(1, d), UStep1(1)], o(), vec![UStep2(1)]].concat(),
                        // enters after the generation was read, returns before the decision
                        vec![OGen, UBegin(1, d), UStep1(1), UStep2(1), ODecide, OVal],
                        // enters after the generation was read, still inside at the decision, effect before the value read
                        vec![OGen, UBegin(1, d), ODecide, UStep1(1), OVal, UStep2(1)],
                        // inside the primitive across the decision only
                        vec![OGen, ODecide, UBegin(1, d), UStep1(1), OVal, UStep2(1)],
                        // two emitters, one held before and one after the effect
                        [vec![UBegin(1, d), UBegin(2, d), UStep1(2)], o(), vec![UStep2(2), UStep1(1), UStep2(1)]].concat(),
                    ];
                    for r in races {
                        let ops = [vec![UBegin(1, d), UStep1(1), UStep2(1)], o(), vec![Tick(1)], r, vec![Tick(adv)], o(), vec![Tick(t + 1)], o()].concat();
                        v.push(RProgram { kind, timeout: t, ops });
                    }
                }
            }
        }
        v
    }

    /// A random legal schedule of the split model (the run itself stops at a drop).
    pub fn random(rng: &mut rand::rngs::StdRng) -> RProgram {
        let kinds = ['c', 'g', 'h'];
        let kind = kinds[rng.random_range(0..3)];
        let t = rng.random_range(1..=3u64);
        let len = rng.random_range(8..40usize);
        let mut upc = [0u8; 3]; // index 1..2
        let mut opc = 0u8;
        let mut ops = vec![];
        while ops.len() < len {
            let x = rng.random_range(0..100);
            if x < 18 {
                let ds = [1, t.saturating_sub(1).max(1), t, t + 1, t + 1];
                ops.push(ROp::Tick(ds[rng.random_range(0..ds.len())]));
            } else if x < 60 {
                let u = rng.random_range(1..=2usize);
                match upc[u] {
                    0 => {
                        ops.push(ROp::UBegin(u, if kind == 'h' { 1 } else { rng.random_range(1..=2u64) }));
                        upc[u] = 1;
                    }
                    1 => {
                        ops.push(ROp::UStep1(u));
                        upc[u] = 2;
                    }
                    _ => {
                        ops.push(ROp::UStep2(u));
                        upc[u] = 0;
                    }
                }
            } else {
                match opc {
                    0 => {
                        ops.push(ROp::OGen);
                        opc = 1;
                    }
                    1 => {
                        ops.push(ROp::ODecide);
                        opc = 2;
                    }
                    _ => {
                        ops.push(ROp::OVal);
                        opc = 0;
                    }
                }
            }
        }
        RProgram { kind, timeout: t, ops }
    }

    pub fn parse(v: &Value, idx: usize) -> RProgram {
        let kinds = ['c', 'g', 'h'];
        let kind = v["kind"].as_str().and_then(|s| s.chars().next()).unwrap_or(kinds[idx % 3]);
        let mut ops = vec![];
        for o in v["ops"].as_array().cloned().unwrap_or_default() {
            let u = o[1].as_u64().unwrap_or(0) as usize;
            ops.push(match o[0].as_str().unwrap_or("") {
                "tick" => ROp::Tick(o[1].as_u64().unwrap_or(0)),
                "ubegin" => ROp::UBegin(u, o[2].as_u64().unwrap_or(1)),
                "ustep1" => ROp::UStep1(u),
                "ustep2" => ROp::UStep2(u),
                "ogen" => ROp::OGen,
                "odecide" => ROp::ODecide,
                _ => ROp::OVal,
            });
        }
        RProgram { kind, timeout: v["timeout"].as_u64().unwrap_or(2), ops }
    }
}

fn main_race(mode: &str, args: &vh::Args) {
    let seed = vh::seed(1);
    let mut rng = vh::rng(seed);
    let out = args.get("out").unwrap_or("c12_race.ndjson").to_string();
    let mut w = Writer::create(&out);
    let mut progs: Vec<race::RProgram> = vec![];
    if mode == "race" {
        progs.extend(race::directed());
        let n: usize = args.num("runs", 100);
        for _ in 0..n {
            progs.push(race::random(&mut rng));
        }
    } else {
        let inp = args.get("in").expect("--in");
        let text = std::fs::read_to_string(inp).unwrap();
        for (i, line) in text.lines().filter(|l| !l.trim().is_empty()).enumerate() {
            let v: Value = serde_json::from_str(line).unwrap();
            progs.push(race::parse(&v, i));
        }
    }
    let (mut drops, mut hangs, mut raced, mut lines) = (0usize, 0usize, 0usize, 0usize);
    let mut distinct = std::collections::HashSet::new();
    for p in &progs {
        let r = race::run(p);
        drops += r.dropped as usize;
        hangs += r.hang as usize;
        raced += r.raced as usize;
        distinct.insert(r.events.iter().map(|e| e.to_string()).collect::<Vec<_>>().join("\n"));
        for e in &r.events {
            w.put(e);
        }
        lines += r.events.len();
        if r.hang {
            break; // threads are stuck inside the code under test
        }
    }
    w.finish();
    println!("{}", json!({"mode": mode, "seed": seed, "runs": progs.len(), "distinct_schedules": distinct.len(),
        "runs_with_overlap": raced, "drops": drops, "hangs": hangs, "lines": lines}));
}

fn main() {
    let args = vh::Args::parse();
    let mode = args.pos.get(0).map(|s| s.as_str()).unwrap_or("record");
    if mode == "race" || mode == "race-replay" {
        main_race(mode, &args);
        return;
    }
    let seed = vh::seed(1);
    let mut rng = vh::rng(seed);
    let out = args.get("out").unwrap_or("c12.ndjson").to_string();
    let mut w = Writer::create(&out);
    let mut st = Stats { keeps: 0, drops: 0, diverged: 0, panics: 0 };
    let mut summary = json!({"mode": mode, "seed": seed});
    let mut distinct = std::collections::HashSet::new();
    let mut with_drop = 0usize;
    let mut distinct_drop = std::collections::HashSet::new();
    let mut runs = 0usize;
    let mut prom_runs = 0usize;
    // silence panic backtraces of the code under test: a panic is logged as an event
    std::panic::set_hook(Box::new(|_| {}));
    let mut run_one = |p: &Program, rng: &mut rand::rngs::StdRng, st: &mut Stats, w: &mut Writer| {
        let mut variant = |n: usize| rng.random_range(0..n);
        let before = st.drops;
        let evs = if p.prom { run_prom(p, &mut variant, st) } else { run_direct(p, &mut variant, st) };
        let sig: String = evs.iter().map(|e| e.to_string()).collect::<Vec<_>>().join("\n");
        // prom mode: a family rendered before and missing from a later render was dropped
        let mut dropped_in_render = false;
        let mut prev: Option<Vec<Value>> = None;
        for e in evs.iter().filter(|e| e["ev"] == "render") {
            let cur = e["types"].as_array().cloned().unwrap_or_default();
            if let Some(pv) = &prev {
                if pv.iter().any(|x| !cur.contains(x)) {
                    dropped_in_render = true;
                }
            }
            prev = Some(cur);
        }
        if st.drops > before || dropped_in_render {
            with_drop += 1;
            distinct_drop.insert(sig.clone());
        }
        distinct.insert(sig);
        for e in &evs {
            w.put(e);
        }
        runs += 1;
        if p.prom {
            prom_runs += 1;
        }
    };
    match mode {
        "record" => {
            let n: usize = args.num("runs", 100);
            let m = args.get("mode").unwrap_or("mix").to_string();
            for _ in 0..n {
                let p = random_program(&mut rng, &m);
                run_one(&p, &mut rng, &mut st, &mut w);
            }
        }
        "replay" => {
            let inp = args.get("in").expect("--in");
            let text = std::fs::read_to_string(inp).unwrap();
            for line in text.lines().filter(|l| !l.trim().is_empty()) {
                let v: Value = serde_json::from_str(line).unwrap();
                let p = parse_program(&v);
                run_one(&p, &mut rng, &mut st, &mut w);
            }
        }
        _ => {
            eprintln!("unknown mode {mode}");
            std::process::exit(2);
        }
    }
    drop(run_one);
    summary["runs"] = json!(runs);
    summary["prom_runs"] = json!(prom_runs);
    summary["distinct_timelines"] = json!(distinct.len());
    summary["runs_with_drop"] = json!(with_drop);
    summary["distinct_with_drop"] = json!(distinct_drop.len());
    summary["keeps"] = json!(st.keeps);
    summary["drops"] = json!(st.drops);
    summary["diverged"] = json!(st.diverged);
    summary["panics"] = json!(st.panics);
    summary["lines"] = json!(w.lines);
    w.finish();
    println!("{}", summary);
}
