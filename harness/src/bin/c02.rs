//! C02 driver: the global-recorder once-cell.
//!
//!   c02 record --runs N --out F      fresh cells, random scenarios + schedules (deterministic scheduler)
//!   c02 replay --in P --out F        TLC-generated schedules
//!   c02 global --runs N --out F      one child process per scenario through the REAL
//!                                    set_global_recorder / counter! path (scheduled)
//!   c02 free   --runs N --out F      real-parallel races on fresh cells (schedule-independent facts)
//!   c02 child  ...                   (internal)
//!
//! ids: installer i installs recorder i (1..3); emitters are 11, 12.
use metrics::{Counter, Gauge, Histogram, Key, KeyName, Metadata, Recorder, SharedString, Unit};
use rand::Rng;
use serde_json::{json, Value};
use std::sync::atomic::{AtomicUsize, Ordering};
use std::sync::Arc;
use vh::sched::{RandomChooser, Sched, Stop, Waiting};
use vh::trace::Writer;

static DROPS: [AtomicUsize; 8] = [
    AtomicUsize::new(0), AtomicUsize::new(0), AtomicUsize::new(0), AtomicUsize::new(0),
    AtomicUsize::new(0), AtomicUsize::new(0), AtomicUsize::new(0), AtomicUsize::new(0),
];
static DISPATCH: [AtomicUsize; 8] = [
    AtomicUsize::new(0), AtomicUsize::new(0), AtomicUsize::new(0), AtomicUsize::new(0),
    AtomicUsize::new(0), AtomicUsize::new(0), AtomicUsize::new(0), AtomicUsize::new(0),
];
thread_local! { static LAST_TARGET: std::cell::Cell<usize> = std::cell::Cell::new(0); }

/// Recorder double: logs every dispatch and its own drop.
struct Probe {
    id: usize,
    whole: u64, // must read back as MAGIC ^ id: "seen whole"
}
const MAGIC: u64 = 0x5eed_cafe_f00d_0000;
impl Probe {
    fn new(id: usize) -> Probe {
        Probe { id, whole: MAGIC ^ id as u64 }
    }
    fn hit(&self) {
        let ok = self.whole == MAGIC ^ self.id as u64;
        DISPATCH[self.id].fetch_add(1, Ordering::SeqCst);
        LAST_TARGET.with(|t| t.set(self.id));
        metrics::verif::point("probe.dispatch.post", &[self.id as i64, ok as i64]);
    }
}
impl Drop for Probe {
    fn drop(&mut self) {
        DROPS[self.id].fetch_add(1, Ordering::SeqCst);
        metrics::verif::point("probe.drop.post", &[self.id as i64]);
    }
}
impl Recorder for Probe {
    fn describe_counter(&self, _: KeyName, _: Option<Unit>, _: SharedString) {}
    fn describe_gauge(&self, _: KeyName, _: Option<Unit>, _: SharedString) {}
    fn describe_histogram(&self, _: KeyName, _: Option<Unit>, _: SharedString) {}
    fn register_counter(&self, _: &Key, _: &Metadata<'_>) -> Counter {
        self.hit();
        Counter::noop()
    }
    fn register_gauge(&self, _: &Key, _: &Metadata<'_>) -> Gauge {
        self.hit();
        Gauge::noop()
    }
    fn register_histogram(&self, _: &Key, _: &Metadata<'_>) -> Histogram {
        self.hit();
        Histogram::noop()
    }
}

/// A thread-local recorder double (never installed globally).
struct LocalProbe {
    id: usize,
}
impl Recorder for LocalProbe {
    fn describe_counter(&self, _: KeyName, _: Option<Unit>, _: SharedString) {}
    fn describe_gauge(&self, _: KeyName, _: Option<Unit>, _: SharedString) {}
    fn describe_histogram(&self, _: KeyName, _: Option<Unit>, _: SharedString) {}
    fn register_counter(&self, _: &Key, _: &Metadata<'_>) -> Counter {
        metrics::verif::point("local.dispatch.post", &[self.id as i64]);
        Counter::noop()
    }
    fn register_gauge(&self, _: &Key, _: &Metadata<'_>) -> Gauge {
        Gauge::noop()
    }
    fn register_histogram(&self, _: &Key, _: &Metadata<'_>) -> Histogram {
        Histogram::noop()
    }
}

#[derive(Clone, Debug)]
struct Scenario {
    ninst: usize,
    nemit: usize, // emitters
    per: usize,   // emissions per emitter
    sched: Option<Vec<(usize, String)>>,
}

fn site_of(pc: &str) -> Option<&'static str> {
    Some(match pc {
        "cas" => "cell.cas.pre",
        "write" => "cell.write.pre",
        "pub" => "cell.publish.pre",
        "load" => "cell.load.pre",
        "read" => "cell.read.pre",
        _ => return None, // disp, caller drops: not yield points
    })
}

enum CellKind {
    Fresh(Arc<metrics::verif::OnceCell>),
    Global,
}

fn run_scheduled(sc: &Scenario, rng: &mut rand::rngs::StdRng, global: bool) -> (Vec<Value>, Stop, bool) {
    let cell = if global { None } else { Some(Arc::new(metrics::verif::OnceCell::new())) };
    let s = Sched::new(sc.ninst + sc.nemit, false);
    let mut hs = vec![];
    for i in 1..=sc.ninst {
        let c = match &cell {
            Some(c) => CellKind::Fresh(c.clone()),
            None => CellKind::Global,
        };
        hs.push(s.spawn(i, move || {
            let r = match c {
                CellKind::Fresh(c) => c.set(Probe::new(i)),
                CellKind::Global => metrics::set_global_recorder(Probe::new(i)),
            };
            match r {
                Ok(()) => metrics::verif::point("set.done.post", &[i as i64, 1, 0]),
                Err(e) => {
                    let back = e.into_inner();
                    let whole = back.whole == MAGIC ^ back.id as u64;
                    metrics::verif::point("set.done.post", &[i as i64, 0, back.id as i64, whole as i64]);
                    metrics::verif::point("own.drop.post", &[back.id as i64]);
                    drop(back);
                }
            }
        }));
    }
    for e in 0..sc.nemit {
        let tid = 11 + e;
        let per = sc.per;
        let c = match &cell {
            Some(c) => CellKind::Fresh(c.clone()),
            None => CellKind::Global,
        };
        // global mode: some emitters hold a thread-local recorder for a while first (taken before, during or after the
        // installations, as the schedule has it); once that scope has ended the thread has no local recorder and its
        // emissions must go through the global cell like everybody else's
        let scoped = global && (tid + sc.ninst + per) % 2 == 0;
        hs.push(s.spawn(tid, move || {
            if scoped {
                let local = LocalProbe { id: tid };
                {
                    let _g = metrics::set_default_local_recorder(&local);
                    metrics::verif::point("scope.enter.pre", &[tid as i64]);
                    metrics::counter!("c").increment(1); // to the local recorder: must not touch the global cell
                    metrics::verif::point("scope.inner.pre", &[tid as i64]);
                }
                metrics::verif::point("scope.exit.pre", &[tid as i64]);
                metrics::with_local_recorder(&local, || {
                    metrics::counter!("c").increment(1);
                    metrics::verif::point("scope.inner.pre", &[tid as i64]);
                });
                metrics::verif::point("scope.exit.pre", &[tid as i64]);
            }
            for k in 0..per {
                match &c {
                    CellKind::Fresh(c) => {
                        // the global branch of with_recorder
                        if let Some(r) = c.try_load() {
                            let _ = r.register_counter(&Key::from_name("c"), &Metadata::new("t", metrics::Level::INFO, None));
                        }
                    }
                    CellKind::Global => {
                        metrics::counter!("c").increment(1);
                    }
                }
                metrics::verif::point("emit.done.post", &[k as i64 + 1]);
            }
        }));
    }
    let mut diverged = false;
    let stop = {
        let mut r2 = rng.clone();
        let mut rc = RandomChooser::new(&mut r2);
        let mut pos = 0usize;
        let sched = sc.sched.clone();
        let mut choose = |w: &Waiting| -> usize {
            if let Some((&t, _)) = w.iter().find(|(_, (s, _))| s == "start.pre") {
                return t;
            }
            if let (Some(sch), false) = (&sched, diverged) {
                while pos < sch.len() && site_of(&sch[pos].1).is_none() {
                    pos += 1;
                }
                if pos < sch.len() {
                    let (p, pcn) = &sch[pos];
                    match w.get(p) {
                        Some((site, _)) if site == site_of(pcn).unwrap() => {
                            pos += 1;
                            return *p;
                        }
                        _ => diverged = true,
                    }
                }
            }
            rc.choose(w)
        };
        s.run(5000, &mut choose)
    };
    let _: u64 = rng.random();
    match stop {
        Stop::Done => {
            for h in hs {
                let _ = h.join();
            }
        }
        _ => s.release_all(),
    }
    let mut events = vec![json!({"p": 0, "ev": "reset", "a": [sc.ninst, sc.nemit, sc.per]})];
    for e in s.take_log() {
        events.push(e.json());
    }
    match stop {
        Stop::Done => events.push(json!({"p": 0, "ev": "final", "a": []})),
        Stop::Budget => events.push(json!({"p": 0, "ev": "livelock", "a": []})),
        Stop::Stuck => events.push(json!({"p": 0, "ev": "stuck", "a": []})),
    }
    (events, stop, diverged)
}

fn random_scenario(rng: &mut rand::rngs::StdRng) -> Scenario {
    Scenario { ninst: rng.random_range(1..=3), nemit: rng.random_range(0..=2), per: rng.random_range(1..=3), sched: None }
}

fn parse_program(v: &Value) -> Scenario {
    Scenario {
        ninst: v["ninst"].as_u64().unwrap() as usize,
        nemit: v["nemit"].as_u64().unwrap() as usize,
        per: v["per"].as_u64().unwrap() as usize,
        sched: v["sched"].as_array().map(|a| {
            a.iter().map(|e| (e[0].as_u64().unwrap() as usize, e[1].as_str().unwrap().to_string())).collect()
        }),
    }
}

/// Real-parallel trial on a fresh cell.
fn run_free(rng: &mut rand::rngs::StdRng) -> Value {
    let ninst = rng.random_range(2..=6usize);
    let nemit = rng.random_range(1..=3usize);
    let per = rng.random_range(3..=8usize);
    let cell = Arc::new(metrics::verif::OnceCell::new());
    let ticket = Arc::new(AtomicUsize::new(1));
    let go = Arc::new(std::sync::atomic::AtomicBool::new(false));
    let base_drops: Vec<usize> = (0..8).map(|i| DROPS[i].load(Ordering::SeqCst)).collect();
    let mut ih = vec![];
    for i in 1..=ninst {
        let c = cell.clone();
        let go = go.clone();
        ih.push(std::thread::spawn(move || {
            while !go.load(Ordering::Acquire) {
                std::hint::spin_loop();
            }
            match c.set(Probe::new(i)) {
                Ok(()) => (i, true, 0usize, true, 0usize),
                Err(e) => {
                    let back = e.into_inner();
                    let whole = back.whole == MAGIC ^ back.id as u64;
                    let d = DROPS[back.id].load(Ordering::SeqCst);
                    let r = (i, false, back.id, whole, d);
                    std::mem::forget(back); // keep it alive: any drop counted later is the library's
                    r
                }
            }
        }));
    }
    let mut eh = vec![];
    for _ in 0..nemit {
        let c = cell.clone();
        let go = go.clone();
        let ticket = ticket.clone();
        eh.push(std::thread::spawn(move || {
            while !go.load(Ordering::Acquire) {
                std::hint::spin_loop();
            }
            let mut v = vec![];
            for _ in 0..per {
                let t0 = ticket.fetch_add(1, Ordering::SeqCst);
                LAST_TARGET.with(|t| t.set(0));
                if let Some(r) = c.try_load() {
                    let _ = r.register_counter(&Key::from_name("c"), &Metadata::new("t", metrics::Level::INFO, None));
                }
                let tg = LAST_TARGET.with(|t| t.get());
                let t1 = ticket.fetch_add(1, Ordering::SeqCst);
                v.push(vec![t0, t1, tg]);
            }
            // a long untimed tail, run-length encoded: in program order the targets must be 0* R*
            let mut rle: Vec<Vec<usize>> = vec![];
            for _ in 0..2000 {
                LAST_TARGET.with(|t| t.set(0));
                if let Some(r) = c.try_load() {
                    let _ = r.register_counter(&Key::from_name("c"), &Metadata::new("t", metrics::Level::INFO, None));
                }
                let tg = LAST_TARGET.with(|t| t.get());
                match rle.last_mut() {
                    Some(l) if l[0] == tg => l[1] += 1,
                    _ => rle.push(vec![tg, 1]),
                }
            }
            (v, rle)
        }));
    }
    go.store(true, Ordering::Release);
    let inst: Vec<_> = ih.into_iter().map(|h| h.join().unwrap()).collect();
    let joined: Vec<(Vec<Vec<usize>>, Vec<Vec<usize>>)> = eh.into_iter().map(|h| h.join().unwrap()).collect();
    let emits: Vec<Vec<usize>> = joined.iter().flat_map(|j| j.0.clone()).collect();
    let tails: Vec<Vec<Vec<usize>>> = joined.iter().map(|j| j.1.clone()).collect();
    let oks: Vec<usize> = inst.iter().filter(|r| r.1).map(|r| r.0).collect();
    let losers_back = inst.iter().filter(|r| !r.1).all(|r| r.2 == r.0 && r.3);
    let lib_drops: usize = (1..=ninst).map(|i| DROPS[i].load(Ordering::SeqCst) - base_drops[i]).sum();
    // after everything: a last emission must reach the winner
    LAST_TARGET.with(|t| t.set(0));
    if let Some(r) = cell.try_load() {
        let _ = r.register_counter(&Key::from_name("c"), &Metadata::new("t", metrics::Level::INFO, None));
    }
    let last = LAST_TARGET.with(|t| t.get());
    json!({"p": 0, "ev": "free", "a": [], "ninst": ninst, "oks": oks, "losers_back": losers_back,
           "lib_drops": lib_drops, "emits": emits, "tails": tails, "last": last})
}

fn main() {
    let args = vh::Args::parse();
    let mode = args.pos.get(0).map(|s| s.as_str()).unwrap_or("record").to_string();
    let seed = vh::seed(1);
    let mut rng = vh::rng(seed);
    if mode == "child" {
        // one scenario through the real global recorder; trace on stdout
        let sc = Scenario {
            ninst: args.num("ninst", 2),
            nemit: args.num("nemit", 1),
            per: args.num("per", 2),
            sched: None,
        };
        let (mut events, stop, _) = run_scheduled(&sc, &mut rng, true);
        if matches!(stop, Stop::Done) {
            // afterwards, on a fresh unscheduled thread: one ordinary emission, and one from a thread-local destructor that
            // runs while the thread exits (the guard is installed before the thread's first metrics call, so it is destroyed
            // after whatever that call put into thread-local storage): both are "later emissions on a thread without a local
            // recorder" and must reach the installed recorder
            let winner = events.iter().find(|e| e["ev"] == "set.done.post" && e["a"][1] == 1).and_then(|e| e["a"][0].as_u64()).unwrap_or(0) as usize;
            let before = if winner > 0 { DISPATCH[winner].load(Ordering::SeqCst) } else { 0 };
            struct ExitEmit;
            impl Drop for ExitEmit {
                fn drop(&mut self) {
                    let _ = std::panic::catch_unwind(|| metrics::counter!("c").increment(1));
                }
            }
            thread_local! { static EXIT: std::cell::RefCell<Option<ExitEmit>> = std::cell::RefCell::new(None); }
            let _ = std::thread::spawn(|| {
                EXIT.with(|e| *e.borrow_mut() = Some(ExitEmit));
                metrics::counter!("c").increment(1);
            })
            .join();
            let after = if winner > 0 { DISPATCH[winner].load(Ordering::SeqCst) } else { 0 };
            events.push(json!({"p": 0, "ev": "tls.exit", "a": [winner, after - before]}));
        }
        for e in events {
            println!("{}", e);
        }
        return;
    }
    let out = args.get("out").unwrap_or("c02.ndjson").to_string();
    let mut w = Writer::create(&out);
    let mut summary = json!({"mode": mode, "seed": seed});
    match mode.as_str() {
        "record" => {
            let runs: usize = args.num("runs", 200);
            let mut distinct = std::collections::HashSet::new();
            let mut bad = 0;
            for _ in 0..runs {
                let sc = random_scenario(&mut rng);
                let (ev, stop, _) = run_scheduled(&sc, &mut rng, false);
                if !matches!(stop, Stop::Done) {
                    bad += 1;
                }
                distinct.insert(ev.iter().map(|e| format!("{}{};", e["p"], e["ev"].as_str().unwrap())).collect::<String>());
                for e in &ev {
                    w.put(e);
                }
            }
            summary["runs"] = json!(runs);
            summary["not_done"] = json!(bad);
            summary["distinct_schedules"] = json!(distinct.len());
        }
        "replay" => {
            let text = std::fs::read_to_string(args.get("in").expect("--in")).unwrap();
            let (mut n, mut div) = (0, 0);
            for line in text.lines().filter(|l| !l.trim().is_empty()) {
                let sc = parse_program(&serde_json::from_str(line).unwrap());
                let (ev, _, d) = run_scheduled(&sc, &mut rng, false);
                n += 1;
                div += d as usize;
                for e in &ev {
                    w.put(e);
                }
            }
            summary["runs"] = json!(n);
            summary["diverged"] = json!(div);
        }
        "global" => {
            let runs: usize = args.num("runs", 30);
            let exe = std::env::current_exe().unwrap();
            let mut crashed = 0;
            for i in 0..runs {
                let sc = random_scenario(&mut rng);
                let (text, status) = vh::run_child(
                    std::process::Command::new(&exe)
                        .args(["child", "--ninst", &sc.ninst.to_string(), "--nemit", &sc.nemit.max(1).to_string(), "--per", &sc.per.to_string()])
                        .env("VERIF_SEED", (seed * 1000 + i as u64).to_string()),
                    30,
                );
                let mut lines = 0;
                for line in text.lines() {
                    if let Ok(v) = serde_json::from_str::<Value>(line) {
                        w.put(&v);
                        lines += 1;
                    }
                }
                if status != Some(true) || lines == 0 {
                    crashed += 1;
                    w.put(&json!({"p": 0, "ev": "reset", "a": [sc.ninst, sc.nemit.max(1), sc.per]}));
                    w.put(&json!({"p": 0, "ev": if status.is_none() { "hang" } else { "crash" }, "a": []}));
                }
            }
            summary["runs"] = json!(runs);
            summary["crashed"] = json!(crashed);
        }
        "free" => {
            let runs: usize = args.num("runs", 300);
            let mut multi = 0;
            for _ in 0..runs {
                let e = run_free(&mut rng);
                if e["oks"].as_array().unwrap().len() != 1 {
                    multi += 1;
                }
                w.put(&e);
            }
            summary["runs"] = json!(runs);
            summary["not_exactly_one_ok"] = json!(multi);
        }
        _ => {
            eprintln!("unknown mode");
            std::process::exit(2);
        }
    }
    summary["lines"] = json!(w.lines);
    w.finish();
    println!("{}", summary);
}
