//! C05 driver: AtomicBucket under the deterministic scheduler / in free-running mode.
//!
//!   c05 record --runs N --out F            seeded random scenarios + random schedules
//!   c05 replay --in PROGS --out F          scenarios+schedules produced by TLC (SimBucket REPLAY lines)
//!   c05 free   --runs N --out F            real-parallel runs (quiescent observations only)
//!
//! Process ids match Bucket.tla: pushers 1..3, clearer 4, reader 5, is_empty caller 6.
use metrics_util::storage::AtomicBucket;
use rand::Rng;
use serde_json::{json, Value};
use std::collections::BTreeMap;
use std::sync::{Arc, Mutex};
use vh::sched::{Ev, RandomChooser, Sched, Stop, Waiting};
use vh::trace::{Namer, Writer};

#[derive(Clone, Debug)]
struct Scenario {
    prefill: usize,
    nvals: BTreeMap<usize, usize>, // pusher -> number of values
    clears: usize,
    reads: usize,
    empties: usize,
    sched: Option<Vec<(usize, String)>>,
}

fn val(p: usize, i: usize) -> u64 {
    (p * 10 + i) as u64
}

fn site_of_pc(pc: &str) -> Option<&'static str> {
    Some(match pc {
        "p_load" => "push.load.pre",
        "p_casnew" => "push.casnew.pre",
        "p_claim" | "p_claim2" => "blk.claim.pre",
        "p_write" => "blk.write.pre",
        "p_ack" => "blk.ack.pre",
        "p_full" => "push.casfull.pre",
        "p_link" => "push.link.pre",
        "c_load" => "clr.load.pre",
        "c_cas" => "clr.cas.pre",
        "c_len" | "c_dlen" | "r_len" | "r_dlen" | "e_len" | "e_nlen" => "blk.len.pre",
        "c_wr" | "r_wr" => "blk.wr.pre",
        "c_next" => "clr.next.pre",
        "r_load" => "rd.load.pre",
        "r_next" => "rd.next.pre",
        "e_load" => "ie.load.pre",
        "e_next" => "blk.nextlen.pre",
        _ => return None, // c_deliver / r_deliver: not yield points
    })
}

/// index of pointer arguments per site
fn ptr_args(site: &str) -> &'static [usize] {
    match site {
        "blk.len.pre" | "blk.wr.pre" | "blk.claim.pre" | "blk.claim.post" | "blk.write.pre" | "blk.ack.pre"
        | "blk.ack.post" | "blk.nextlen.pre" | "blk.nextlen.post" | "push.load.post" | "push.casnew.post"
        | "push.casfull.pre" | "clr.load.post" | "clr.cas.pre" | "clr.next.pre" | "clr.next.post"
        | "rd.load.post" | "rd.next.pre" | "rd.next.post" | "ie.load.post" => &[0],
        "push.casfull.post" => &[1],
        "push.link.pre" => &[0, 1],
        _ => &[],
    }
}

struct RunOut {
    events: Vec<Value>,
    stop: Stop,
    diverged: bool,
    steps: usize,
}

fn run_scheduled(sc: &Scenario, rng: &mut rand::rngs::StdRng) -> RunOut {
    let bucket: Arc<AtomicBucket<u64>> = Arc::new(AtomicBucket::new());
    for j in 0..sc.prefill {
        bucket.push(1000 + j as u64);
    }
    let nworkers = sc.nvals.len() + (sc.clears > 0) as usize + (sc.reads > 0) as usize + (sc.empties > 0) as usize;
    let s = Sched::new(nworkers, false);
    let mut hs = vec![];
    for (&p, &n) in sc.nvals.iter() {
        let b = bucket.clone();
        hs.push(s.spawn(p, move || {
            for i in 1..=n {
                b.push(val(p, i));
                metrics::verif::point("push.done.post", &[val(p, i) as i64]);
            }
        }));
    }
    if sc.clears > 0 {
        let b = bucket.clone();
        let n = sc.clears;
        hs.push(s.spawn(4, move || {
            for _ in 0..n {
                b.clear_with(|vals| {
                    let v: Vec<i64> = vals.iter().map(|x| *x as i64).collect();
                    metrics::verif::point("deliver.post", &v);
                });
                metrics::verif::point("clr.done.post", &[]);
            }
        }));
    }
    if sc.reads > 0 {
        let b = bucket.clone();
        let n = sc.reads;
        hs.push(s.spawn(5, move || {
            for _ in 0..n {
                b.data_with(|vals| {
                    let v: Vec<i64> = vals.iter().map(|x| *x as i64).collect();
                    metrics::verif::point("rd.deliver.post", &v);
                });
                metrics::verif::point("rd.done.post", &[]);
            }
        }));
    }
    if sc.empties > 0 {
        let b = bucket.clone();
        let n = sc.empties;
        hs.push(s.spawn(6, move || {
            for _ in 0..n {
                let r = b.is_empty();
                metrics::verif::point("ie.done.post", &[r as i64]);
            }
        }));
    }

    let mut steps = 0usize;
    let mut diverged = false;
    let stop = {
        let mut rc_rng = rng.clone();
        let mut rc = RandomChooser::new(&mut rc_rng);
        let mut pos = 0usize;
        let sched = sc.sched.clone();
        let mut choose = |w: &Waiting| -> usize {
            steps += 1;
            // start.pre grants are not spec steps
            if let Some((&t, _)) = w.iter().find(|(_, (s, _))| s == "start.pre") {
                return t;
            }
            if let (Some(sch), false) = (&sched, diverged) {
                // yield points that are not specification steps: when replaying a TLC schedule they are granted at once
                if let Some((&t, _)) = w.iter().find(|(_, (s, _))| s == "push.installed.pre") {
                    return t;
                }
                while pos < sch.len() && site_of_pc(&sch[pos].1).is_none() {
                    pos += 1;
                }
                if pos < sch.len() {
                    let (p, pcn) = &sch[pos];
                    let want = site_of_pc(pcn).unwrap();
                    match w.get(p) {
                        Some((site, _)) if site == want => {
                            pos += 1;
                            return *p;
                        }
                        _ => {
                            diverged = true;
                        }
                    }
                }
            }
            rc.choose(w)
        };
        s.run(20_000, &mut choose)
    };
    // advance the caller's rng so consecutive runs differ
    let _: u64 = rng.random();
    match stop {
        Stop::Done => {
            for h in hs {
                let _ = h.join();
            }
        }
        _ => s.release_all(),
    }
    let rest: Vec<i64> = match stop {
        Stop::Done => bucket.data().iter().map(|x| *x as i64).collect(),
        _ => vec![],
    };
    let log = s.take_log();
    let mut events = vec![json!({"p": 0, "ev": "reset", "a": [sc.prefill]})];
    events.extend(rename(&log));
    match stop {
        Stop::Done => events.push(json!({"p": 0, "ev": "final", "a": rest})),
        Stop::Budget => events.push(json!({"p": 0, "ev": "livelock", "a": []})),
        Stop::Stuck => events.push(json!({"p": 0, "ev": "stuck", "a": []})),
    }
    RunOut { events, stop, diverged, steps }
}

/// Rename block addresses to small ids; drop the (private) drop-bracket events.
fn rename(log: &[Ev]) -> Vec<Value> {
    let mut n = Namer::new();
    let mut out = vec![];
    for e in log {
        let site = e.ev.as_str();
        if site == "blk.drop.post" {
            continue;
        }
        if site == "blk.dropped.post" {
            n.retire(e.a[0]);
            continue;
        }
        let mut a = e.a.clone();
        for &i in ptr_args(site) {
            a[i] = n.name(a[i]);
        }
        out.push(json!({"p": e.p, "ev": site, "a": a}));
    }
    out
}

fn random_scenario(rng: &mut rand::rngs::StdRng) -> Scenario {
    let np = rng.random_range(1..=3usize);
    let mut nvals = BTreeMap::new();
    for p in 1..=np {
        nvals.insert(p, rng.random_range(1..=3usize));
    }
    // prefill around the block boundary most of the time
    let prefill = match rng.random_range(0..10) {
        0 => 0,
        1 => 1,
        2 => 64,
        3 => 60,
        4 | 5 => 61,
        6 | 7 => 62,
        _ => 63,
    };
    let kind = rng.random_range(0..6);
    let (clears, reads, empties) = match kind {
        0 | 1 => (2, 0, 0),
        2 => (1, 1, 0),
        3 => (1, 0, 2),
        4 => (2, 1, 1),
        _ => (0, 2, 1),
    };
    Scenario { prefill, nvals, clears, reads, empties, sched: None }
}

fn parse_program(v: &Value) -> Scenario {
    let mut nvals = BTreeMap::new();
    if let Some(o) = v["nvals"].as_object() {
        for (k, n) in o {
            nvals.insert(k.parse().unwrap(), n.as_u64().unwrap() as usize);
        }
    } else {
        // a TLA+ function over 1..n is serialised as an array
        for (i, n) in v["nvals"].as_array().unwrap().iter().enumerate() {
            nvals.insert(i + 1, n.as_u64().unwrap() as usize);
        }
    }
    let sched = v["sched"].as_array().map(|a| {
        a.iter().map(|e| (e[0].as_u64().unwrap() as usize, e[1].as_str().unwrap().to_string())).collect()
    });
    Scenario {
        prefill: v["prefill"].as_u64().unwrap() as usize,
        nvals,
        clears: v["clears"].as_u64().unwrap() as usize,
        reads: v["reads"].as_u64().unwrap() as usize,
        empties: v["empties"].as_u64().unwrap() as usize,
        sched,
    }
}

/// Real-parallel run. Observations that hold for every schedule only.
/// A run whose threads do not come back within the deadline is reported as a `hang` event
/// (None is returned; the stuck threads are leaked and the caller ends the process).
fn run_free(rng: &mut rand::rngs::StdRng, conc_clear: bool) -> Option<Value> {
    let bucket: Arc<AtomicBucket<u64>> = Arc::new(AtomicBucket::new());
    let nthreads = rng.random_range(2..=8usize);
    let per = rng.random_range(5_000..=30_000usize);
    let delivered: Arc<Mutex<Vec<Vec<i64>>>> = Arc::new(Mutex::new(vec![]));
    let seen: Arc<Mutex<Vec<Vec<i64>>>> = Arc::new(Mutex::new(vec![]));
    let stopf = Arc::new(std::sync::atomic::AtomicBool::new(false));
    let (tx, rx) = std::sync::mpsc::channel::<u8>();
    let barrier = Arc::new(std::sync::Barrier::new(nthreads + if conc_clear { 2 } else { 1 }));
    for t in 0..nthreads {
        let b = bucket.clone();
        let bar = barrier.clone();
        let tx = tx.clone();
        std::thread::spawn(move || {
            bar.wait();
            for i in 0..per {
                b.push((t * 1_000_000 + i + 1) as u64);
            }
            let _ = tx.send(0);
        });
    }
    // a snapshot reader always runs concurrently
    {
        let b = bucket.clone();
        let bar = barrier.clone();
        let seen = seen.clone();
        let stopf = stopf.clone();
        let tx = tx.clone();
        std::thread::spawn(move || {
            bar.wait();
            while !stopf.load(std::sync::atomic::Ordering::Relaxed) {
                let mut one = vec![];
                b.data_with(|vals| one.extend(vals.iter().map(|x| *x as i64)));
                let mut g = seen.lock().unwrap();
                if g.len() < 4 {
                    g.push(one);
                }
                drop(g);
                std::thread::yield_now();
            }
            let _ = tx.send(1);
        });
    }
    if conc_clear {
        let b = bucket.clone();
        let bar = barrier.clone();
        let delivered = delivered.clone();
        let stopf = stopf.clone();
        let tx = tx.clone();
        std::thread::spawn(move || {
            bar.wait();
            while !stopf.load(std::sync::atomic::Ordering::Relaxed) {
                let mut one = vec![];
                b.clear_with(|vals| one.extend(vals.iter().map(|x| *x as i64)));
                if !one.is_empty() {
                    delivered.lock().unwrap().push(one);
                }
                std::thread::yield_now();
            }
            let _ = tx.send(2);
        });
    }
    let deadline = std::time::Duration::from_secs(30);
    let mut pending_pushers = nthreads;
    let mut pending_other = 1 + conc_clear as usize;
    while pending_pushers > 0 {
        match rx.recv_timeout(deadline) {
            Ok(0) => pending_pushers -= 1,
            Ok(_) => pending_other -= 1,
            Err(_) => return None,
        }
    }
    stopf.store(true, std::sync::atomic::Ordering::Relaxed);
    while pending_other > 0 {
        match rx.recv_timeout(deadline) {
            Ok(_) => pending_other -= 1,
            Err(_) => return None,
        }
    }
    // quiescent observations (in a thread of their own: a lost acknowledgement makes data() spin for ever)
    let (ftx, frx) = std::sync::mpsc::channel();
    {
        let bucket = bucket.clone();
        std::thread::spawn(move || {
            let empty_before = bucket.is_empty();
            let snap: Vec<i64> = bucket.data().iter().map(|x| *x as i64).collect();
            let mut fin = vec![];
            bucket.clear_with(|vals| fin.extend(vals.iter().map(|x| *x as i64)));
            let empty_after = bucket.is_empty();
            let after: Vec<i64> = bucket.data().iter().map(|x| *x as i64).collect();
            let _ = ftx.send((empty_before, snap, fin, empty_after, after));
        });
    }
    let (empty_before, snap, fin, empty_after, after) = match frx.recv_timeout(deadline) {
        Ok(x) => x,
        Err(_) => return None,
    };
    let d = delivered.lock().unwrap().clone();
    let sn = seen.lock().unwrap().clone();
    // Summaries (sizes of multisets); the identities over them are checked by TLC (FreeOK in TraceBucket.tla).
    let is_pushed = |v: i64| v >= 1 && ((v - 1) / 1_000_000) < nthreads as i64 && ((v - 1) % 1_000_000) < per as i64;
    let summ = |xs: &[i64]| -> Vec<i64> {
        let set: std::collections::HashSet<i64> = xs.iter().cloned().collect();
        vec![xs.len() as i64, set.len() as i64, xs.iter().filter(|v| !is_pushed(**v)).count() as i64]
    };
    let mut taken: Vec<i64> = d.iter().flatten().cloned().collect();
    taken.extend(fin.iter().cloned());
    let mut a = snap.clone();
    a.sort();
    let mut b = fin.clone();
    b.sort();
    // block order: within one callback slice of a single thread's values they must ascend
    Some(json!({"p": 0, "ev": "free", "a": [], "threads": nthreads, "per": per, "conc_clear": conc_clear,
           "pushed_n": nthreads * per, "taken": summ(&taken), "seen": sn.iter().map(|x| summ(x)).collect::<Vec<_>>(),
           "snap": summ(&snap), "snap_eq_fin": a == b, "fin_n": fin.len(), "after_n": after.len(),
           "empty_before": empty_before, "empty_after": empty_after}))
}

/// A clear_with callback that panics (the panic is caught by the caller): afterwards the bucket is still usable, and every
/// value that was in it is destroyed at most once - also later, when the epoch collector runs the deferred block
/// destructions - and nothing that was never pushed is ever destroyed.
fn run_cbpanic(rng: &mut rand::rngs::StdRng) -> Value {
    use std::sync::atomic::{AtomicU32, Ordering::SeqCst};
    const N: usize = 4096;
    static DROPS: [AtomicU32; N] = {
        #[allow(clippy::declare_interior_mutable_const)]
        const Z: AtomicU32 = AtomicU32::new(0);
        [Z; N]
    };
    static GARBAGE: AtomicU32 = AtomicU32::new(0);
    struct Tracked {
        id: usize,
        magic: u64,
        _b: Box<u64>,
    }
    impl Drop for Tracked {
        fn drop(&mut self) {
            if self.magic == 0x7ac4_ed00_0000_0000 ^ self.id as u64 && self.id < N {
                DROPS[self.id].fetch_add(1, SeqCst);
            } else {
                GARBAGE.fetch_add(1, SeqCst);
            }
        }
    }
    for d in DROPS.iter() {
        d.store(0, SeqCst);
    }
    GARBAGE.store(0, SeqCst);
    let n = rng.random_range(65..=260usize); // more than one block, up to a few
    let panic_at = rng.random_range(0..(n + 63) / 64); // which callback invocation panics
    let bucket: AtomicBucket<Tracked> = AtomicBucket::new();
    for id in 0..n {
        bucket.push(Tracked { id, magic: 0x7ac4_ed00_0000_0000 ^ id as u64, _b: Box::new(id as u64) });
    }
    let prev = std::panic::take_hook();
    std::panic::set_hook(Box::new(|_| {}));
    let mut calls = 0usize;
    let mut handed = 0usize;
    let caught = std::panic::catch_unwind(std::panic::AssertUnwindSafe(|| {
        bucket.clear_with(|xs| {
            if calls == panic_at {
                calls += 1;
                panic!("callback gives up");
            }
            calls += 1;
            handed += xs.len();
        });
    }))
    .is_err();
    std::panic::set_hook(prev);
    // the bucket is still usable and empty
    let empty_after = bucket.is_empty() && bucket.data_with_len() == 0;
    bucket.push(Tracked { id: N - 1, magic: 0x7ac4_ed00_0000_0000 ^ (N - 1) as u64, _b: Box::new(0) });
    let mut relen = 0usize;
    bucket.clear_with(|xs| relen += xs.len());
    // drive epoch reclamation with unrelated traffic
    for round in 0..200 {
        let other: AtomicBucket<u64> = AtomicBucket::new();
        for i in 0..130u64 {
            other.push(i + round);
        }
        other.clear();
    }
    drop(bucket);
    for _ in 0..50 {
        let other: AtomicBucket<u64> = AtomicBucket::new();
        other.push(1);
        other.clear();
    }
    let twice = DROPS.iter().filter(|d| d.load(SeqCst) > 1).count();
    let destroyed = DROPS.iter().take(n).filter(|d| d.load(SeqCst) == 1).count();
    json!({"p": 0, "ev": "cbpanic", "a": [n, panic_at, caught as i64, handed, empty_after as i64, relen, twice, GARBAGE.load(SeqCst), destroyed]})
}

trait DataLen {
    fn data_with_len(&self) -> usize;
}
impl<T> DataLen for AtomicBucket<T> {
    fn data_with_len(&self) -> usize {
        let mut n = 0;
        self.data_with(|xs| n += xs.len());
        n
    }
}

fn main() {
    let args = vh::Args::parse();
    let mode = args.pos.get(0).map(|s| s.as_str()).unwrap_or("record");
    let seed = vh::seed(1);
    let mut rng = vh::rng(seed);
    let out = args.get("out").unwrap_or("c05.ndjson").to_string();
    let mut w = Writer::create(&out);
    let mut summary = json!({"mode": mode, "seed": seed});
    match mode {
        "record" => {
            let runs: usize = args.num("runs", 100);
            let (mut done, mut bad, mut steps) = (0usize, 0usize, 0usize);
            let mut distinct = std::collections::HashSet::new();
            for _ in 0..runs {
                let sc = random_scenario(&mut rng);
                let r = run_scheduled(&sc, &mut rng);
                steps += r.steps;
                match r.stop {
                    Stop::Done => done += 1,
                    _ => bad += 1,
                }
                let key: String = r.events.iter().map(|e| format!("{}{};", e["p"], e["ev"].as_str().unwrap())).collect();
                distinct.insert(key);
                for e in &r.events {
                    w.put(e);
                }
            }
            summary["runs"] = json!(runs);
            summary["done"] = json!(done);
            summary["not_done"] = json!(bad);
            summary["steps"] = json!(steps);
            summary["distinct_schedules"] = json!(distinct.len());
        }
        "replay" => {
            let inp = args.get("in").expect("--in");
            let text = std::fs::read_to_string(inp).unwrap();
            let (mut n, mut div) = (0usize, 0usize);
            for line in text.lines().filter(|l| !l.trim().is_empty()) {
                let v: Value = serde_json::from_str(line).unwrap();
                let sc = parse_program(&v);
                let r = run_scheduled(&sc, &mut rng);
                n += 1;
                if r.diverged {
                    div += 1;
                }
                for e in &r.events {
                    w.put(e);
                }
            }
            summary["runs"] = json!(n);
            summary["diverged"] = json!(div);
        }
        "cbpanic" => {
            let runs: usize = args.num("runs", 20);
            for _ in 0..runs {
                w.put(&json!({"p": 0, "ev": "reset", "a": [0]}));
                w.put(&run_cbpanic(&mut rng));
            }
            summary["runs"] = json!(runs);
        }
        "free" => {
            let runs: usize = args.num("runs", 20);
            for i in 0..runs {
                match run_free(&mut rng, i % 2 == 1) {
                    Some(e) => w.put(&e),
                    None => {
                        // threads are stuck inside the bucket: report and end the process
                        w.put(&json!({"p": 0, "ev": "hang", "a": [], "mode": "free", "run": i, "conc_clear": i % 2 == 1}));
                        summary["hang"] = json!(i);
                        summary["lines"] = json!(w.lines);
                        w.finish();
                        println!("{}", summary);
                        std::process::exit(0);
                    }
                }
            }
            summary["runs"] = json!(runs);
        }
        _ => {
            eprintln!("unknown mode {mode}");
            std::process::exit(2);
        }
    }
    summary["lines"] = json!(w.lines);
    w.finish();
    println!("{}", summary);
}
