//! C15 driver: histogram buckets, distribution choice and rolling summary windows of the Prometheus exporter.
//!
//!   c15 replay --in CASES [--log-every K] [--log-offset J] --out F
//!        cases exported by TLC (MCPromHist.tla ExportSpec) or rebuilt from a failing trace; every case is executed
//!        on the real code and compared with the result the specification computed ("expect"/"single"/"many", when
//!        present; a difference is a `vecmismatch` event, which the trace specification rejects); every K-th case
//!        (all, K = 1) is logged event by event for TracePromHist.tla.
//!   c15 record --runs N --out F       seeded random cases of all four kinds, all logged.
//!   c15 par --iters N [--series S] [--samples K] --out F
//!        real-parallel drains: per iteration a fresh recorder (overrides so that histogram- and summary-rendered
//!        series exist), S new series with K values each (nothing is recorded during the drains), then a barrier
//!        releases render() + run_upkeep() (odd iterations: render() + render()) on two threads; afterwards a
//!        quiescent render().  One `par` event per iteration carries the recorded samples and the parsed renders.
//!
//! Values are {"k":"fin","n":i} (i eighths, exact in f64) | {"k":"nan"|"pinf"|"ninf","n":0}; text = code points;
//! time = whole ticks of 1 ms on a quanta mock clock.
//!
//! Case kinds
//!   hist  {"bounds":[V], "samples":[V], "asc":b, "single":View, "many":View}   every batching of the samples through
//!         Histogram::record / record_many;  or {"bounds":[V], "ops":[{"o":"r","s":V}|{"o":"m","batch":[V]}]}
//!   match {"calls":[{"kind","pat","b":[V]}], "global":[V], "names":[cps], "expect":[{"t","type","bounds"}]}
//!         PrometheusBuilder::set_buckets_for_metric / set_buckets, one fresh recorder per name: register, record, render
//!   summ  {"n","d","ops":[{"o":"add","xs":[{"v":V,"ts":t}]}|{"o":"snap","t":t}], "expect":[int]}
//!         Distribution::new_summary + record_samples; RollingSummary::snapshot / count through the public enum variant
//!   rec   {"calls","global","n","d","qs":[q*1000], "ops":[{"o":"tick","d"}|{"o":"obs","name":cps,"v":V}|{"o":"render"}|{"o":"upkeep"}]}
//!         a recorder built with build_with_clock_verif(mock clock); record under quanta::with_clock; render() parsed
//!         with the independent exposition parser.
use metrics::{Key, Level, Metadata, Recorder};
use metrics_exporter_prometheus::{Distribution, Matcher, PrometheusBuilder};
use metrics_util::storage::Histogram;
use quanta::{Clock, Instant, Mock};
use rand::rngs::StdRng;
use rand::Rng;
use serde_json::{json, Value};
use std::collections::HashSet;
use std::num::NonZeroU32;
use std::panic::{catch_unwind, AssertUnwindSafe};
use std::sync::{Arc, Mutex};
use std::time::Duration;
use vh::promparse::{parse_exposition_with, ParseOptions};
use vh::trace::Writer;

static METADATA: Metadata<'static> = Metadata::new("c15", Level::INFO, None);
static LAST_PANIC: Mutex<String> = Mutex::new(String::new());

#[derive(Default)]
struct Stats {
    cases: usize,
    logged_cases: usize,
    runs: usize,
    events: usize,
    compared: usize,
    mismatches: usize,
    panics: usize,
    hist_ops: usize,
    dist_choices: usize,
    snaps: usize,
    renders: usize,
    nontrivial: HashSet<u64>,
}

fn hash_of(v: &Value) -> u64 {
    use std::hash::{Hash, Hasher};
    let mut h = std::collections::hash_map::DefaultHasher::new();
    v.to_string().hash(&mut h);
    h.finish()
}

// ------------------------------------------------------------------------------------------- values / text
fn v_f64(v: &Value) -> f64 {
    match v["k"].as_str().unwrap_or("") {
        "fin" => v["n"].as_i64().unwrap_or(0) as f64 / 8.0,
        "pinf" => f64::INFINITY,
        "ninf" => f64::NEG_INFINITY,
        _ => f64::NAN,
    }
}

fn f64_v(x: f64) -> Value {
    if x.is_nan() {
        json!({"k": "nan", "n": 0})
    } else if x == f64::INFINITY {
        json!({"k": "pinf", "n": 0})
    } else if x == f64::NEG_INFINITY {
        json!({"k": "ninf", "n": 0})
    } else {
        let y = x * 8.0;
        if y.fract() == 0.0 && y.abs() < 2.0e9 {
            json!({"k": "fin", "n": y as i64})
        } else {
            json!({"k": "odd", "n": 0, "s": format!("{:?}", x)})
        }
    }
}

fn vals(v: &Value) -> Vec<f64> {
    v.as_array().map(|a| a.iter().map(v_f64).collect()).unwrap_or_default()
}

fn cps(s: &str) -> Value {
    Value::Array(s.chars().map(|c| json!(c as u32)).collect())
}

fn text(v: &Value) -> String {
    v.as_array().map(|a| a.iter().filter_map(|c| c.as_u64().and_then(|c| char::from_u32(c as u32))).collect()).unwrap_or_default()
}

fn milli(x: f64) -> Value {
    let y = (x * 1000.0).round();
    if y.is_finite() && y.abs() < 2.0e9 {
        json!(y as i64)
    } else {
        json!(format!("{:?}", x))
    }
}

fn small(n: u64) -> Value {
    if n < 2_000_000_000 {
        json!(n)
    } else {
        json!(format!("{}", n))
    }
}

fn panic_event(at: &str) -> Value {
    json!({"ev": "panic", "at": at, "msg": LAST_PANIC.lock().unwrap().clone()})
}

// ------------------------------------------------------------------------------------------- hist
fn hist_view(h: &Histogram) -> (Vec<u64>, u64, f64) {
    (h.buckets().iter().map(|(_, c)| *c).collect(), h.count(), h.sum())
}

fn view_json(v: &(Vec<u64>, u64, f64)) -> Value {
    json!({"buckets": v.0.iter().map(|c| small(*c)).collect::<Vec<_>>(), "count": small(v.1), "sum": f64_v(v.2)})
}

/// Runs `ops` on a fresh Histogram. Returns the events and the final view (None: no histogram / panic).
fn run_hist_ops(bounds: &Value, ops: &[Value], st: &mut Stats) -> (Vec<Value>, Option<Value>) {
    let mut evs = vec![json!({"ev": "reset", "kind": "hist"})];
    let bs = vals(bounds);
    let r = catch_unwind(AssertUnwindSafe(|| {
        let mut out = vec![];
        let mut h = match Histogram::new(&bs) {
            Some(h) => h,
            None => {
                out.push(json!({"ev": "h_new", "bounds": bounds, "ok": false}));
                return (out, None);
            }
        };
        // the bounds the histogram reports back must be the ones given
        let back: Vec<Value> = h.buckets().iter().map(|(b, _)| f64_v(*b)).collect();
        out.push(json!({"ev": "h_new", "bounds": back, "ok": true}));
        for op in ops {
            if op["o"] == "r" {
                h.record(v_f64(&op["s"]));
                let v = view_json(&hist_view(&h));
                out.push(json!({"ev": "h_rec", "s": op["s"], "buckets": v["buckets"], "count": v["count"], "sum": v["sum"]}));
            } else {
                let batch = vals(&op["batch"]);
                h.record_many(&batch);
                let v = view_json(&hist_view(&h));
                out.push(json!({"ev": "h_many", "batch": op["batch"], "buckets": v["buckets"], "count": v["count"], "sum": v["sum"]}));
            }
        }
        let fin = view_json(&hist_view(&h));
        (out, Some(fin))
    }));
    st.runs += 1;
    st.hist_ops += ops.len();
    match r {
        Ok((o, f)) => {
            evs.extend(o);
            (evs, f)
        }
        Err(_) => {
            st.panics += 1;
            evs.push(panic_event("hist"));
            (evs, None)
        }
    }
}

/// All ways to split `samples` into consecutive batches; a batch of one sample is tried both as `record` and as
/// `record_many` of one; one extra variant starts with an empty record_many.
fn batchings(samples: &[Value]) -> Vec<Vec<Value>> {
    let n = samples.len();
    let mut res = vec![];
    if n == 0 {
        return vec![vec![], vec![json!({"o": "m", "batch": []})]];
    }
    for cuts in 0..(1u32 << (n - 1)) {
        // parts
        let mut parts: Vec<(usize, usize)> = vec![];
        let mut start = 0;
        for i in 0..n - 1 {
            if cuts & (1 << i) != 0 {
                parts.push((start, i + 1));
                start = i + 1;
            }
        }
        parts.push((start, n));
        let singles: Vec<usize> = parts.iter().enumerate().filter(|(_, p)| p.1 - p.0 == 1).map(|(i, _)| i).collect();
        for pick in 0..(1u32 << singles.len()) {
            let mut ops = vec![];
            for (pi, p) in parts.iter().enumerate() {
                let as_many = match singles.iter().position(|s| *s == pi) {
                    Some(k) => pick & (1 << k) != 0,
                    None => true,
                };
                if as_many {
                    ops.push(json!({"o": "m", "batch": samples[p.0..p.1].to_vec()}));
                } else {
                    ops.push(json!({"o": "r", "s": samples[p.0]}));
                }
            }
            res.push(ops);
        }
    }
    let mut with_empty = vec![json!({"o": "m", "batch": []})];
    with_empty.extend(res[0].clone());
    res.push(with_empty);
    res
}

fn ieee_ascending(bs: &[f64]) -> bool {
    bs.windows(2).all(|w| w[0] <= w[1])
}

fn run_hist_case(c: &Value, log: bool, w: &mut Writer, st: &mut Stats) {
    if let Some(ops) = c["ops"].as_array() {
        let (evs, _) = run_hist_ops(&c["bounds"], ops, st);
        emit(evs, true, w, st);
        return;
    }
    let samples = c["samples"].as_array().cloned().unwrap_or_default();
    let asc = ieee_ascending(&vals(&c["bounds"]));
    let all = batchings(&samples);
    let nall = all.len();
    for (bi, ops) in all.iter().enumerate() {
        let all_single = ops.iter().all(|o| o["o"] == "r");
        let one_batch = ops.len() == 1 && ops[0]["o"] == "m" && !samples.is_empty() || (samples.is_empty() && ops.len() == 1);
        // expectation: ascending bounds -> every batching gives the "single" result; otherwise only the two the
        // specification evaluated
        let expect = if c["single"].is_object() {
            if asc || all_single {
                Some(&c["single"])
            } else if one_batch {
                Some(&c["many"])
            } else {
                None
            }
        } else {
            None
        };
        if !log && expect.is_none() {
            continue;
        }
        let _ = (bi, nall);
        let (mut evs, fin) = run_hist_ops(&c["bounds"], ops, st);
        let mut bad = false;
        if let Some(e) = expect {
            st.compared += 1;
            if fin.as_ref() != Some(e) {
                bad = true;
                st.mismatches += 1;
                evs.push(json!({"ev": "vecmismatch", "kind": "hist", "expected": e, "got": fin, "ops": ops}));
            }
        }
        if let Some(f) = &fin {
            let total = f["count"].as_u64().unwrap_or(0);
            let partial = f["buckets"].as_array().map(|a| a.iter().any(|b| b.as_u64().map(|b| b != 0 && b != total).unwrap_or(false))).unwrap_or(false);
            if partial {
                st.nontrivial.insert(hash_of(&json!(["h", c["bounds"], ops])));
            }
        }
        emit(evs, log || bad, w, st);
    }
}

// ------------------------------------------------------------------------------------------- builder / matchers
fn matcher_of(c: &Value) -> Matcher {
    let pat = text(&c["pat"]);
    match c["kind"].as_str().unwrap_or("") {
        "full" => Matcher::Full(pat),
        "prefix" => Matcher::Prefix(pat),
        _ => Matcher::Suffix(pat),
    }
}

fn builder_of(c: &Value) -> PrometheusBuilder {
    let mut b = PrometheusBuilder::new();
    if let Some(calls) = c["calls"].as_array() {
        for call in calls {
            b = b.set_buckets_for_metric(matcher_of(call), &vals(&call["b"])).expect("non-empty bounds");
        }
    }
    let g = vals(&c["global"]);
    if !g.is_empty() {
        b = b.set_buckets(&g).expect("non-empty bounds");
    }
    let n = c["n"].as_u64().unwrap_or(0);
    let d = c["d"].as_u64().unwrap_or(0);
    if n > 0 && d > 0 {
        b = b.set_bucket_count(NonZeroU32::new(n as u32).unwrap());
        b = b.set_bucket_duration(Duration::from_millis(d)).expect("non-zero duration");
    }
    if let Some(qs) = c["qs"].as_array() {
        if !qs.is_empty() {
            let q: Vec<f64> = qs.iter().map(|q| q.as_i64().unwrap_or(0) as f64 / 1000.0).collect();
            b = b.set_quantiles(&q).expect("non-empty quantiles");
        }
    }
    b
}

fn builder_events(c: &Value) -> Vec<Value> {
    let mut evs = vec![json!({"ev": "pb_new"})];
    if let Some(calls) = c["calls"].as_array() {
        for call in calls {
            evs.push(json!({"ev": "pb_ovr", "kind": call["kind"], "pat": call["pat"], "b": call["b"]}));
        }
    }
    if c["global"].as_array().map(|a| !a.is_empty()).unwrap_or(false) {
        evs.push(json!({"ev": "pb_global", "b": c["global"]}));
    }
    if c["n"].as_u64().unwrap_or(0) > 0 && c["d"].as_u64().unwrap_or(0) > 0 {
        evs.push(json!({"ev": "pb_summ", "n": c["n"], "d": c["d"]}));
    }
    if c["qs"].as_array().map(|a| !a.is_empty()).unwrap_or(false) {
        evs.push(json!({"ev": "pb_qs", "qs": c["qs"]}));
    }
    evs.push(json!({"ev": "pb_build"}));
    evs
}

/// Parses one render() into the list of distribution families, each as the JSON object logged in `render` events.
fn parse_render(textr: &str) -> Result<Vec<Value>, String> {
    let opts = ParseOptions { allow_foreign_sample_names: false, reject_duplicate_series: false };
    let exp = parse_exposition_with(textr, &opts)?;
    let mut fams = vec![];
    for f in &exp.families {
        let mut les = vec![];
        let mut counts = vec![];
        let mut les_txt = vec![];
        let mut qs = vec![];
        let mut sum = Value::Null;
        let mut count = Value::Null;
        for s in &f.samples {
            let val = s.value_f64().ok_or_else(|| format!("line {}: value {:?}", s.line, s.value))?;
            if s.name == format!("{}_bucket", f.name) {
                let le = s.label("le").ok_or_else(|| format!("line {}: bucket without le", s.line))?;
                let b: f64 = le.parse().map_err(|_| format!("line {}: le {:?} is not a float", s.line, le))?;
                les.push(f64_v(b));
                les_txt.push(le.to_string());
                counts.push(small(s.value.parse::<u64>().map_err(|_| format!("line {}: bucket count {:?}", s.line, s.value))?));
            } else if s.name == format!("{}_sum", f.name) {
                sum = f64_v(val);
            } else if s.name == format!("{}_count", f.name) {
                count = small(s.value.parse::<u64>().map_err(|_| format!("line {}: count {:?}", s.line, s.value))?);
            } else if s.name == f.name {
                let q = s.label("quantile").ok_or_else(|| format!("line {}: sample without quantile", s.line))?;
                let qv: f64 = q.parse().map_err(|_| format!("line {}: quantile {:?}", s.line, q))?;
                qs.push(json!([milli(qv), milli(val)]));
            } else {
                return Err(format!("line {}: unexpected sample {}", s.line, s.name));
            }
        }
        // histogram: the last bucket line is the +Inf one
        let (kind, inf) = if !les.is_empty() {
            if les_txt.last().map(|s| s.as_str()) != Some("+Inf") {
                return Err(format!("family {}: last bucket is not le=\"+Inf\"", f.name));
            }
            les.pop();
            let inf = counts.pop().unwrap();
            ("histogram", inf)
        } else {
            ("summary", json!(0))
        };
        if sum.is_null() || count.is_null() {
            return Err(format!("family {}: _sum or _count line missing", f.name));
        }
        fams.push(json!({"name": cps(&f.name), "type": f.mtype, "kind": kind, "les": les, "counts": counts, "inf": inf,
                         "sum": sum, "count": count, "qs": qs}));
    }
    Ok(fams)
}

fn run_match_case(c: &Value, log: bool, w: &mut Writer, st: &mut Stats) {
    let mut evs = vec![json!({"ev": "reset", "kind": "match"})];
    evs.extend(builder_events(c));
    let names = c["names"].as_array().cloned().unwrap_or_default();
    let mut bad = false;
    for (j, nm) in names.iter().enumerate() {
        let name = text(nm);
        let r = catch_unwind(AssertUnwindSafe(|| -> Result<Value, String> {
            let rec = builder_of(c).build_recorder();
            let handle = rec.handle();
            let key = Key::from_name(name.clone());
            rec.register_histogram(&key, &METADATA).record(1.0);
            let fams = parse_render(&handle.render())?;
            if fams.len() != 1 {
                return Err(format!("{} families rendered for one histogram", fams.len()));
            }
            Ok(fams[0].clone())
        }));
        st.dist_choices += 1;
        match r {
            Ok(Ok(f)) => {
                let nq = f["qs"].as_array().map(|a| a.len()).unwrap_or(0);
                evs.push(json!({"ev": "dist", "name": nm, "rname": f["name"], "type": f["type"], "kind": f["kind"], "les": f["les"], "nq": nq}));
                if let Some(e) = c["expect"].get(j) {
                    st.compared += 1;
                    if e["t"] != f["kind"] || e["type"] != f["type"] || e["bounds"] != f["les"] {
                        bad = true;
                        st.mismatches += 1;
                        evs.push(json!({"ev": "vecmismatch", "kind": "match", "name": nm, "expected": e, "got": f}));
                    }
                }
                let has_global = c["global"].as_array().map(|a| !a.is_empty()).unwrap_or(false);
                let default = if has_global { f["kind"] == "histogram" && f["les"] == c["global"] } else { f["kind"] == "summary" };
                if !default {
                    st.nontrivial.insert(hash_of(&json!(["m", c["calls"], c["global"], nm])));
                }
            }
            Ok(Err(e)) => {
                bad = true;
                evs.push(json!({"ev": "parse_error", "name": nm, "msg": e}));
            }
            Err(_) => {
                bad = true;
                st.panics += 1;
                evs.push(panic_event("match"));
            }
        }
    }
    st.runs += 1;
    emit(evs, log || bad, w, st);
}

// ------------------------------------------------------------------------------------------- rolling summary
struct Time {
    clock: Clock,
    mock: Arc<Mock>,
}

impl Time {
    fn new() -> Time {
        let (clock, mock) = Clock::mock();
        Time { clock, mock }
    }
    /// The Instant at tick `t` (1 tick = 1 ms).
    fn at(&self, t: u64) -> Instant {
        let target = t * 1_000_000;
        let cur = self.mock.value();
        if target >= cur {
            self.mock.increment(target - cur);
        } else {
            self.mock.decrement(cur - target);
        }
        self.clock.now()
    }
}

const SNAP_QS: [f64; 3] = [0.0, 0.5, 1.0];

fn run_summ_case(c: &Value, log: bool, w: &mut Writer, st: &mut Stats) {
    let mut evs = vec![json!({"ev": "reset", "kind": "summ"})];
    let n = c["n"].as_u64().unwrap_or(1).max(1);
    let d = c["d"].as_u64().unwrap_or(1).max(1);
    let ops = c["ops"].as_array().cloned().unwrap_or_default();
    let time = Time::new();
    let mut bad = false;
    let r = catch_unwind(AssertUnwindSafe(|| {
        let mut out = vec![];
        let mut results = vec![];
        let quantiles = Arc::new(metrics_util::parse_quantiles(&SNAP_QS));
        let mut dist = Distribution::new_summary(quantiles, Duration::from_millis(d), NonZeroU32::new(n as u32).unwrap());
        out.push(json!({"ev": "s_new", "n": n, "d": d}));
        for op in &ops {
            if op["o"] == "add" {
                let xs: Vec<(f64, Instant)> = op["xs"].as_array().map(|a| {
                    a.iter().map(|x| (v_f64(&x["v"]), time.at(x["ts"].as_u64().unwrap_or(0)))).collect()
                }).unwrap_or_default();
                dist.record_samples(&xs);
                if let Distribution::Summary(rs, _, sum) = &dist {
                    out.push(json!({"ev": "s_add", "xs": op["xs"], "count": small(rs.count() as u64), "sum": f64_v(*sum)}));
                    results.push(json!(rs.count()));
                }
            } else {
                let t = op["t"].as_u64().unwrap_or(0);
                if let Distribution::Summary(rs, _, _) = &dist {
                    let snap = rs.snapshot(time.at(t));
                    let qs: Vec<Value> = SNAP_QS.iter().map(|q| json!([milli(*q), milli(snap.quantile(*q).unwrap_or(0.0))])).collect();
                    out.push(json!({"ev": "s_snap", "t": t, "n": small(snap.count() as u64), "total": small(rs.count() as u64), "qs": qs}));
                    results.push(json!(snap.count()));
                }
            }
        }
        (out, results)
    }));
    st.runs += 1;
    match r {
        Ok((o, results)) => {
            for (i, e) in o.iter().enumerate() {
                if e["ev"] == "s_snap" {
                    st.snaps += 1;
                    let n = e["n"].as_u64().unwrap_or(0);
                    if n > 0 && n < e["total"].as_u64().unwrap_or(0) {
                        st.nontrivial.insert(hash_of(&json!(["s", c["n"], c["d"], ops[..i.min(ops.len())]])));
                    }
                }
            }
            evs.extend(o);
            if let Some(exp) = c["expect"].as_array() {
                st.compared += exp.len();
                if *exp != results {
                    bad = true;
                    st.mismatches += 1;
                    evs.push(json!({"ev": "vecmismatch", "kind": "summ", "expected": exp, "got": results}));
                }
            }
        }
        Err(_) => {
            bad = true;
            st.panics += 1;
            evs.push(panic_event("summ"));
        }
    }
    emit(evs, log || bad, w, st);
}

// ------------------------------------------------------------------------------------------- recorder
fn run_rec_case(c: &Value, log: bool, w: &mut Writer, st: &mut Stats) {
    let mut evs = vec![json!({"ev": "reset", "kind": "rec"})];
    evs.extend(builder_events(c));
    let ops = c["ops"].as_array().cloned().unwrap_or_default();
    let (clock, mock) = Clock::mock();
    let mut bad = false;
    let r = catch_unwind(AssertUnwindSafe(|| {
        let mut out = vec![json!({"ev": "r_start"})];
        let rec = builder_of(c).build_with_clock_verif(clock.clone());
        let handle = rec.handle();
        let mut failed = false;
        for op in &ops {
            match op["o"].as_str().unwrap_or("") {
                "tick" => {
                    let d = op["d"].as_u64().unwrap_or(0);
                    mock.increment(Duration::from_millis(d));
                    out.push(json!({"ev": "tick", "d": d}));
                }
                "obs" => {
                    let key = Key::from_name(text(&op["name"]));
                    let x = v_f64(&op["v"]);
                    quanta::with_clock(&clock, || rec.register_histogram(&key, &METADATA).record(x));
                    out.push(json!({"ev": "obs", "name": op["name"], "v": op["v"]}));
                }
                "upkeep" => {
                    quanta::with_clock(&clock, || handle.run_upkeep());
                    out.push(json!({"ev": "upkeep"}));
                }
                _ => {
                    let textr = quanta::with_clock(&clock, || handle.render());
                    match parse_render(&textr) {
                        Ok(fams) => out.push(json!({"ev": "render", "fams": fams})),
                        Err(e) => {
                            failed = true;
                            out.push(json!({"ev": "parse_error", "msg": e, "text": textr}));
                        }
                    }
                }
            }
        }
        (out, failed)
    }));
    st.runs += 1;
    match r {
        Ok((o, failed)) => {
            bad = bad || failed;
            for e in &o {
                if e["ev"] == "render" {
                    st.renders += 1;
                    if e["fams"].as_array().map(|a| !a.is_empty()).unwrap_or(false) {
                        st.nontrivial.insert(hash_of(&json!(["r", c["calls"], c["global"], c["n"], c["d"], e["fams"]])));
                    }
                }
            }
            evs.extend(o);
        }
        Err(_) => {
            bad = true;
            st.panics += 1;
            evs.push(panic_event("rec"));
        }
    }
    emit(evs, log || bad, w, st);
}


// ------------------------------------------------------------------------------------------- parallel drains
fn run_par_iter(it: usize, nseries: usize, nsamples: usize, rng: &mut StdRng, w: &mut Writer, st: &mut Stats) {
    let cfg = json!({
        "calls": [
            {"kind": "prefix", "pat": cps("h_"), "b": [{"k":"fin","n":32},{"k":"fin","n":72},{"k":"fin","n":152}]},
            {"kind": "full", "pat": cps("h_series_0"), "b": [{"k":"fin","n":8},{"k":"fin","n":9}]},
            {"kind": "suffix", "pat": cps("_3"), "b": [{"k":"fin","n":40}]},
        ],
        "global": [], "n": 0, "d": 0, "qs": [0, 500, 1000]});
    let two_renders = it % 2 == 1;
    let mut evs = vec![json!({"ev": "reset", "kind": "par"})];
    evs.extend(builder_events(&cfg));
    let base = rng.random_range(0..64i64);
    let series: Vec<(String, Vec<i64>)> = (0..nseries).map(|i| {
        let name = if i % 2 == 0 { format!("h_series_{}", i) } else { format!("s_series_{}", i) };
        let xs: Vec<i64> = (0..nsamples).map(|j| 8 * (j as i64) + ((base + i as i64) % 8)).collect();
        (name, xs)
    }).collect();
    let r = catch_unwind(AssertUnwindSafe(|| -> Result<(Vec<Vec<Value>>, Vec<Value>), String> {
        let rec = builder_of(&cfg).build_recorder();
        let handle = rec.handle();
        for (name, xs) in &series {
            let h = rec.register_histogram(&Key::from_name(name.clone()), &METADATA);
            for x in xs {
                h.record(*x as f64 / 8.0);
            }
        }
        let barrier = Arc::new(std::sync::Barrier::new(2));
        let (h1, b1) = (handle.clone(), barrier.clone());
        let t1 = std::thread::spawn(move || {
            b1.wait();
            Some(h1.render())
        });
        let (h2, b2) = (handle.clone(), barrier.clone());
        let t2 = std::thread::spawn(move || {
            b2.wait();
            if two_renders {
                Some(h2.render())
            } else {
                h2.run_upkeep();
                None
            }
        });
        let r1 = t1.join().map_err(|_| "render thread panicked".to_string())?;
        let r2 = t2.join().map_err(|_| "second thread panicked".to_string())?;
        let mut conc = vec![];
        for t in [r1, r2].iter().flatten() {
            conc.push(parse_render(t)?);
        }
        let fin = parse_render(&handle.render())?;
        Ok((conc, fin))
    }));
    st.runs += 1;
    match r {
        Ok(Ok((conc, fin))) => {
            st.renders += conc.len() + 1;
            let sj: Vec<Value> = series.iter().map(|(n, xs)| json!({"name": cps(n), "samples": xs.iter().map(|x| json!({"k":"fin","n":x})).collect::<Vec<_>>() })).collect();
            evs.push(json!({"ev": "par", "variant": if two_renders { "rr" } else { "ru" }, "series": sj, "conc": conc, "final": fin}));
        }
        Ok(Err(e)) => evs.push(json!({"ev": "parse_error", "msg": e})),
        Err(_) => {
            st.panics += 1;
            evs.push(panic_event("par"));
        }
    }
    emit(evs, true, w, st);
}

fn emit(evs: Vec<Value>, log: bool, w: &mut Writer, st: &mut Stats) {
    if !log {
        return;
    }
    for e in &evs {
        w.put(e);
    }
    st.events += evs.len();
}

fn run_case(c: &Value, log: bool, w: &mut Writer, st: &mut Stats) {
    st.cases += 1;
    if log {
        st.logged_cases += 1;
    }
    match c["kind"].as_str().unwrap_or("") {
        "hist" => run_hist_case(c, log, w, st),
        "match" => run_match_case(c, log, w, st),
        "summ" => run_summ_case(c, log, w, st),
        "rec" => run_rec_case(c, log, w, st),
        k => {
            eprintln!("unknown case kind {k:?}");
            std::process::exit(2);
        }
    }
}

// ------------------------------------------------------------------------------------------- random cases
fn rand_val(rng: &mut StdRng, specials: bool) -> Value {
    let r = rng.random_range(0..100);
    if specials && r < 5 {
        json!({"k": "nan", "n": 0})
    } else if specials && r < 10 {
        json!({"k": "pinf", "n": 0})
    } else if specials && r < 15 {
        json!({"k": "ninf", "n": 0})
    } else if r < 25 {
        json!({"k": "fin", "n": 0})
    } else if r < 60 {
        json!({"k": "fin", "n": 8 * rng.random_range(-6..7)})
    } else {
        json!({"k": "fin", "n": rng.random_range(-64..65)})
    }
}

fn random_hist(rng: &mut StdRng) -> Value {
    let nb = rng.random_range(1..9);
    let mut bs: Vec<f64> = (0..nb).map(|_| v_f64(&rand_val(rng, false))).collect();
    let shape = rng.random_range(0..10);
    if shape < 8 {
        bs.sort_by(|a, b| a.partial_cmp(b).unwrap());
        if shape < 5 {
            bs.dedup();
        }
        if shape == 0 {
            bs.push(f64::INFINITY);
        }
        if shape == 1 {
            bs.insert(0, f64::NEG_INFINITY);
        }
    } else if shape == 8 {
        let i = rng.random_range(0..bs.len());
        bs[i] = f64::NAN;
    }
    let bounds: Vec<Value> = bs.iter().map(|b| f64_v(*b)).collect();
    let nops = rng.random_range(1..9);
    let mut ops = vec![];
    for _ in 0..nops {
        let pick = |rng: &mut StdRng| -> Value {
            if rng.random_range(0..3) == 0 {
                bounds[rng.random_range(0..bounds.len())].clone() // exactly on a bound
            } else {
                rand_val(rng, true)
            }
        };
        if rng.random_range(0..2) == 0 {
            ops.push(json!({"o": "r", "s": pick(rng)}));
        } else {
            let n = rng.random_range(0..11);
            let batch: Vec<Value> = (0..n).map(|_| pick(rng)).collect();
            ops.push(json!({"o": "m", "batch": batch}));
        }
    }
    json!({"kind": "hist", "bounds": bounds, "ops": ops})
}

const NAME_CHARS: &[char] = &['a', 'b', 'x', 'Z', '_', ':', '.', '-', ' ', '9', '0', '5'];

fn rand_name(rng: &mut StdRng, min: usize, max: usize) -> String {
    let n = rng.random_range(min..=max);
    (0..n).map(|_| NAME_CHARS[rng.random_range(0..NAME_CHARS.len())]).collect()
}

fn sanitized_like(s: &str) -> String {
    // harness-side sanitiser, only used to keep random names apart (precondition of the recorder model)
    s.chars().enumerate().map(|(i, c)| if c.is_ascii_alphabetic() || c == '_' || c == ':' || (i > 0 && c.is_ascii_digit()) { c } else { '_' }).collect()
}

fn rand_names(rng: &mut StdRng, n: usize) -> Vec<String> {
    let mut res: Vec<String> = vec![];
    let mut guard = 0;
    while res.len() < n && guard < 200 {
        guard += 1;
        let nm = rand_name(rng, 1, 6);
        let s = sanitized_like(&nm);
        let clash = res.iter().any(|o| {
            let so = sanitized_like(o);
            so == s || ["_sum", "_count", "_bucket"].iter().any(|x| format!("{}{}", so, x) == s || format!("{}{}", s, x) == so)
        });
        if !clash {
            res.push(nm);
        }
    }
    res
}

fn rand_calls(rng: &mut StdRng, names: &[String], max: usize) -> Vec<Value> {
    let n = rng.random_range(0..=max);
    let mut calls = vec![];
    for i in 0..n {
        let kind = ["full", "prefix", "suffix"][rng.random_range(0..3)];
        // patterns are cut out of the names so that several matchers apply to one name
        let pat: String = if !names.is_empty() && rng.random_range(0..5) != 0 {
            let nm: Vec<char> = names[rng.random_range(0..names.len())].chars().collect();
            let k = rng.random_range(0..=nm.len());
            match kind {
                "full" => nm.iter().collect(),
                "prefix" => nm[..k].iter().collect(),
                _ => nm[nm.len() - k..].iter().collect(),
            }
        } else {
            rand_name(rng, 0, 3)
        };
        let nb = rng.random_range(1..4);
        let mut b: Vec<i64> = (0..nb).map(|_| 8 * rng.random_range(-3..8) + (i as i64)).collect();
        b.sort();
        calls.push(json!({"kind": kind, "pat": cps(&pat), "b": b.iter().map(|x| json!({"k": "fin", "n": x})).collect::<Vec<_>>() }));
    }
    calls
}

fn random_match(rng: &mut StdRng) -> Value {
    let nn = rng.random_range(1..6);
    let names = rand_names(rng, nn);
    let calls = rand_calls(rng, &names, 5);
    let global: Vec<Value> = if rng.random_range(0..3) == 0 { vec![json!({"k": "fin", "n": 4}), json!({"k": "fin", "n": 800})] } else { vec![] };
    json!({"kind": "match", "calls": calls, "global": global, "names": names.iter().map(|n| cps(n)).collect::<Vec<_>>()})
}

fn rand_summ_val(rng: &mut StdRng) -> Value {
    // magnitudes between 1/8 and 64 (ratio 512: the sketch never collapses bins), zero, negatives
    let r = rng.random_range(0..10);
    let m = rng.random_range(1..513);
    if r == 0 {
        json!({"k": "fin", "n": 0})
    } else if r < 4 {
        json!({"k": "fin", "n": -m})
    } else {
        json!({"k": "fin", "n": m})
    }
}

fn random_summ(rng: &mut StdRng) -> Value {
    let n = rng.random_range(1..6u64);
    let d = [1u64, 2, 5, 20, 1000, 20000][rng.random_range(0..6)];
    let w = n * d;
    let nops = rng.random_range(3..40);
    let back = rng.random_range(0..4) == 0;
    let mut t: u64 = if rng.random_range(0..2) == 0 { 0 } else { rng.random_range(0..3 * w + 1) };
    let mut ops = vec![];
    for _ in 0..nops {
        let step = match rng.random_range(0..8) {
            0 | 1 => 0,
            2 => 1,
            3 => d,
            4 => d.saturating_sub(1),
            5 => w,
            6 => rng.random_range(0..w + 2),
            _ => rng.random_range(0..2 * d + 1),
        };
        if back && rng.random_range(0..5) == 0 {
            t = t.saturating_sub(step);
        } else {
            t += step;
        }
        if rng.random_range(0..3) == 0 {
            ops.push(json!({"o": "snap", "t": t}));
        } else {
            let k = rng.random_range(1..4);
            let mut xs = vec![];
            for i in 0..k {
                if i > 0 && rng.random_range(0..2) == 0 {
                    t += rng.random_range(0..d + 1);
                }
                xs.push(json!({"v": rand_summ_val(rng), "ts": t}));
            }
            ops.push(json!({"o": "add", "xs": xs}));
        }
    }
    ops.push(json!({"o": "snap", "t": t}));
    json!({"kind": "summ", "n": n, "d": d, "ops": ops})
}

fn random_rec(rng: &mut StdRng) -> Value {
    let nn = rng.random_range(1..5);
    let names = rand_names(rng, nn);
    let calls = rand_calls(rng, &names, 4);
    let all_hist = rng.random_range(0..3) == 0;
    let global: Vec<Value> = if all_hist {
        let mut g = vec![json!({"k": "fin", "n": -8}), json!({"k": "fin", "n": 0}), json!({"k": "fin", "n": 20})];
        if rng.random_range(0..3) == 0 {
            g.push(json!({"k": "pinf", "n": 0}));
        }
        g
    } else {
        vec![]
    };
    let (n, d) = if rng.random_range(0..4) == 0 { (0, 0) } else { (rng.random_range(1..5u64), [1u64, 3, 10, 500][rng.random_range(0..4)]) };
    let w = if n == 0 { 60000 } else { n * d };
    let dd = if d == 0 { 20000 } else { d };
    let qs: Vec<i64> = match rng.random_range(0..3) {
        0 => vec![],
        1 => vec![0, 500, 1000],
        _ => vec![250, 990],
    };
    let nops = rng.random_range(3..30);
    let mut ops = vec![];
    for _ in 0..nops {
        match rng.random_range(0..10) {
            0 | 1 => {
                let step = match rng.random_range(0..5) {
                    0 => 1,
                    1 => dd,
                    2 => w,
                    3 => rng.random_range(0..w + 2),
                    _ => rng.random_range(0..2 * dd + 1),
                };
                ops.push(json!({"o": "tick", "d": step}));
            }
            2 => ops.push(json!({"o": "render"})),
            3 => {
                if rng.random_range(0..2) == 0 {
                    ops.push(json!({"o": "upkeep"}));
                }
            }
            4 if rng.random_range(0..6) == 0 => {
                // a burst longer than one AtomicBucket block (64): blocks are drained newest first
                let nm = &names[rng.random_range(0..names.len())];
                let k = rng.random_range(60..140);
                for i in 0..k {
                    let v = if all_hist { rand_val(rng, true) } else { rand_summ_val(rng) };
                    ops.push(json!({"o": "obs", "name": cps(nm), "v": v}));
                    if i % 16 == 5 && rng.random_range(0..2) == 0 {
                        ops.push(json!({"o": "tick", "d": rng.random_range(0..dd + 1)}));
                    }
                }
            }
            _ => {
                let nm = &names[rng.random_range(0..names.len())];
                let v = if all_hist { rand_val(rng, true) } else { rand_summ_val(rng) };
                ops.push(json!({"o": "obs", "name": cps(nm), "v": v}));
            }
        }
    }
    ops.push(json!({"o": "render"}));
    json!({"kind": "rec", "calls": calls, "global": global, "n": n, "d": d, "qs": qs, "ops": ops})
}

fn fixed_cases() -> Vec<Value> {
    vec![
        // Histogram::new(&[]) is None
        json!({"kind": "hist", "bounds": [], "ops": []}),
        // the unit test of histogram.rs
        json!({"kind": "hist", "bounds": [{"k":"fin","n":80},{"k":"fin","n":200},{"k":"fin","n":800}],
               "ops": [{"o":"m","batch":[{"k":"fin","n":24},{"k":"fin","n":16},{"k":"fin","n":48},{"k":"fin","n":96},{"k":"fin","n":448},
                        {"k":"fin","n":656},{"k":"fin","n":1616},{"k":"fin","n":800},{"k":"fin","n":232}]},{"o":"r","s":{"k":"fin","n":712}}]}),
        // witness of CF15a: a suffix override starting with a digit
        json!({"kind": "match", "calls": [{"kind":"suffix","pat":cps("99"),"b":[{"k":"fin","n":8}]}], "global": [],
               "names": [cps("latency_p99"), cps("99"), cps("latency_p_9"), cps("latency.99")]}),
        // default window (3 x 20 s) through the recorder
        json!({"kind": "rec", "calls": [], "global": [], "n": 0, "d": 0, "qs": [],
               "ops": [{"o":"obs","name":cps("h"),"v":{"k":"fin","n":336}},{"o":"tick","d":20000},{"o":"obs","name":cps("h"),"v":{"k":"fin","n":8}},
                       {"o":"render"},{"o":"tick","d":39999},{"o":"render"},{"o":"tick","d":1},{"o":"render"},{"o":"tick","d":20000},{"o":"render"}]}),
    ]
}

fn main() {
    let args = vh::Args::parse();
    let mode = args.pos.first().map(|s| s.as_str()).unwrap_or("record").to_string();
    let seed = vh::seed(1);
    let mut rng = vh::rng(seed);
    let out = args.get("out").unwrap_or("c15.ndjson").to_string();
    let mut w = Writer::create(&out);
    let mut st = Stats::default();
    std::panic::set_hook(Box::new(|info| {
        let msg = info.payload().downcast_ref::<&str>().map(|s| s.to_string())
            .or_else(|| info.payload().downcast_ref::<String>().cloned()).unwrap_or_default();
        *LAST_PANIC.lock().unwrap() = msg;
    }));
    match mode.as_str() {
        "record" => {
            let runs: usize = args.num("runs", 200);
            for c in fixed_cases() {
                run_case(&c, true, &mut w, &mut st);
            }
            for i in 0..runs {
                let c = match i % 4 {
                    0 => random_hist(&mut rng),
                    1 => random_match(&mut rng),
                    2 => random_summ(&mut rng),
                    _ => random_rec(&mut rng),
                };
                run_case(&c, true, &mut w, &mut st);
            }
        }
        "par" => {
            let iters: usize = args.num("iters", 300);
            let nseries: usize = args.num("series", 24);
            let nsamples: usize = args.num("samples", 8);
            for it in 0..iters {
                st.cases += 1;
                st.logged_cases += 1;
                run_par_iter(it, nseries, nsamples, &mut rng, &mut w, &mut st);
            }
        }
        "replay" => {
            let every: usize = args.num("log-every", 1).max(1);
            let offset: usize = args.num("log-offset", 0);
            for inp in args.get("in").expect("--in").split(',') {
                let f = std::fs::File::open(inp).expect("open cases");
                use std::io::BufRead;
                for (i, line) in std::io::BufReader::new(f).lines().enumerate() {
                    let line = line.expect("read line");
                    if line.trim().is_empty() {
                        continue;
                    }
                    let c: Value = serde_json::from_str(&line).expect("case json");
                    run_case(&c, (i + offset) % every == 0, &mut w, &mut st);
                }
            }
        }
        _ => {
            eprintln!("unknown mode {mode}");
            std::process::exit(2);
        }
    }
    let lines = w.lines;
    w.finish();
    println!("{}", json!({"mode": mode, "seed": seed, "cases": st.cases, "logged_cases": st.logged_cases, "runs": st.runs,
        "events": st.events, "lines": lines, "compared": st.compared, "mismatches": st.mismatches, "panics": st.panics,
        "hist_ops": st.hist_ops, "dist_choices": st.dist_choices, "snaps": st.snaps, "renders": st.renders,
        "distinct_nontrivial": st.nontrivial.len()}));
}
