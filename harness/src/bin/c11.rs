//! C11 driver: the TCP exporter (recorder handles -> bounded channel -> single-threaded transport -> clients).
//!
//!   c11 record --buffer N|none --runs R --out F [--fat 1]
//!
//! The transport thread is created inside TcpBuilder::build(), so its verification points are collected through
//! the process-wide fallback hook. Harness events (emit, client.connect, client.recv) go to the same log.
//! Tokens: the exporter numbers clients 2, 3, ... in accept order = our (sequential) connect order.
use metrics::{Key, Label, Level, Metadata, Recorder, Unit};
use metrics_exporter_tcp::TcpBuilder;
use rand::Rng;
use serde_json::{json, Value};
use std::io::Read;
use std::net::TcpStream;
use std::sync::atomic::{AtomicBool, AtomicUsize, Ordering};
use std::sync::{Arc, Mutex};
use std::time::{Duration, Instant};
use vh::trace::Writer;

static LOG: Mutex<Vec<(String, Vec<i64>)>> = Mutex::new(Vec::new());
/// the transport thread being recorded (the newest one)
static CUR: Mutex<Option<std::thread::ThreadId>> = Mutex::new(None);

fn log(ev: &str, a: &[i64]) {
    LOG.lock().unwrap_or_else(|e| e.into_inner()).push((ev.to_string(), a.to_vec()));
}

fn wait_for<F: Fn(&[(String, Vec<i64>)]) -> bool>(f: F, secs: u64) -> bool {
    let t0 = Instant::now();
    loop {
        {
            let g = LOG.lock().unwrap_or_else(|e| e.into_inner());
            if f(&g) {
                return true;
            }
        }
        if t0.elapsed().as_secs() >= secs {
            return false;
        }
        std::thread::sleep(Duration::from_millis(1));
    }
}

// ---- independent decoder of the wire format: varint length-delimited protobuf `Event` ----
fn varint(b: &[u8], mut i: usize) -> Option<(u64, usize)> {
    let mut v = 0u64;
    let mut shift = 0;
    loop {
        let x = *b.get(i)?;
        i += 1;
        v |= ((x & 0x7f) as u64) << shift;
        if x & 0x80 == 0 {
            return Some((v, i));
        }
        shift += 7;
        if shift > 63 {
            return None;
        }
    }
}

/// fields of a message: (field number, wire type, varint value or bytes)
fn fields(b: &[u8]) -> Option<Vec<(u64, u8, u64, Vec<u8>)>> {
    let mut i = 0;
    let mut out = vec![];
    while i < b.len() {
        let (tag, j) = varint(b, i)?;
        i = j;
        let (f, wt) = (tag >> 3, (tag & 7) as u8);
        match wt {
            0 => {
                let (v, j) = varint(b, i)?;
                i = j;
                out.push((f, wt, v, vec![]));
            }
            1 => {
                if i + 8 > b.len() {
                    return None;
                }
                out.push((f, wt, 0, b[i..i + 8].to_vec()));
                i += 8;
            }
            2 => {
                let (n, j) = varint(b, i)?;
                i = j;
                let n = n as usize;
                if i + n > b.len() {
                    return None;
                }
                out.push((f, wt, 0, b[i..i + n].to_vec()));
                i += n;
            }
            5 => {
                if i + 4 > b.len() {
                    return None;
                }
                out.push((f, wt, 0, b[i..i + 4].to_vec()));
                i += 4;
            }
            _ => return None,
        }
    }
    Some(out)
}

/// Decode one client's byte stream into [frame id, complete] plus flags.
/// metadata frames: -1 for "m1", -2 for "m2"; metric frames: the increment value; name/labels must be intact.
fn decode_stream(b: &[u8], name: &str) -> (Vec<Vec<i64>>, bool, bool) {
    let mut out = vec![];
    let mut i = 0;
    let mut garbled = false;
    let mut intact = true;
    let mut meta_seen: Vec<String> = vec![];
    while i < b.len() {
        let (n, j) = match varint(b, i) {
            Some(x) => x,
            None => {
                // the length prefix itself is cut
                out.push(vec![0, 0]);
                break;
            }
        };
        let n = n as usize;
        if n == 0 || n > 1 << 26 {
            garbled = true;
            break;
        }
        if j + n > b.len() {
            // incomplete last frame: try to identify it anyway (id 0 = unknown)
            out.push(vec![0, 0]);
            break;
        }
        let body = &b[j..j + n];
        i = j + n;
        let ev = match fields(body) {
            Some(f) if f.len() == 1 && f[0].1 == 2 => f,
            _ => {
                garbled = true;
                break;
            }
        };
        let inner = match fields(&ev[0].3) {
            Some(f) => f,
            None => {
                garbled = true;
                break;
            }
        };
        match ev[0].0 {
            1 => {
                let nm = inner.iter().find(|f| f.0 == 1).map(|f| String::from_utf8_lossy(&f.3).to_string()).unwrap_or_default();
                // the exporter keeps metadata in a HashMap: the order among metadata frames is arbitrary, so they are
                // numbered by position (-1, -2, ...); each known name must appear exactly once
                if !(nm == "m1" || nm == "m2") || meta_seen.contains(&nm) {
                    intact = false;
                }
                // ... and carry what was known about it when the client connected: the latest unit / description
                let unit = inner.iter().find(|f| f.0 == 3).map(|f| String::from_utf8_lossy(&f.3).to_string());
                let desc = inner.iter().find(|f| f.0 == 4).map(|f| String::from_utf8_lossy(&f.3).to_string());
                let want: (Option<&str>, Option<&str>) = if nm == "m1" { (None, Some("d1")) } else { (Some("bytes"), Some("d2")) };
                if (unit.as_deref(), desc.as_deref()) != want {
                    intact = false;
                }
                meta_seen.push(nm);
                out.push(vec![-(meta_seen.len() as i64), 1]);
            }
            2 => {
                let nm = inner.iter().find(|f| f.0 == 1).map(|f| String::from_utf8_lossy(&f.3).to_string()).unwrap_or_default();
                let inc = inner.iter().find(|f| f.0 == 4 && f.1 == 0).map(|f| f.2 as i64);
                let nlabels = inner.iter().filter(|f| f.0 == 3).count();
                if nm != name || nlabels != 1 {
                    intact = false;
                }
                match inc {
                    Some(v) => out.push(vec![v, 1]),
                    None => {
                        garbled = true;
                        break;
                    }
                }
            }
            _ => {
                garbled = true;
                break;
            }
        }
    }
    (out, garbled, intact)
}

#[derive(Clone, Copy, PartialEq, Debug)]
enum Beh {
    Reader,
    Staller, // does not read until released (or never)
    Closer,  // closes after a few frames
}

struct Client {
    tok: i64,
    beh: Beh,
    buf: Arc<Mutex<Vec<u8>>>,
    release: Arc<AtomicBool>,
    stop: Arc<AtomicBool>,
    closed: Arc<AtomicBool>,
    nframes: Arc<AtomicUsize>, // complete length-delimited frames received so far
    h: Option<std::thread::JoinHandle<()>>,
}

fn spawn_client(port: u16, tok: i64, beh: Beh, close_after: usize) -> Option<Client> {
    log("client.connect", &[tok]);
    let mut s = TcpStream::connect(("127.0.0.1", port)).ok()?;
    s.set_read_timeout(Some(Duration::from_millis(10))).ok()?;
    let buf = Arc::new(Mutex::new(Vec::new()));
    let release = Arc::new(AtomicBool::new(beh != Beh::Staller));
    let stop = Arc::new(AtomicBool::new(false));
    let closed = Arc::new(AtomicBool::new(false));
    let nframes = Arc::new(AtomicUsize::new(0));
    let nf2 = nframes.clone();
    let (b2, r2, s2, c2) = (buf.clone(), release.clone(), stop.clone(), closed.clone());
    let h = std::thread::spawn(move || {
        let mut tmp = vec![0u8; 65536];
        let mut pos = 0usize;
        loop {
            if s2.load(Ordering::Relaxed) {
                break;
            }
            if !r2.load(Ordering::Relaxed) {
                std::thread::sleep(Duration::from_millis(2));
                continue;
            }
            match s.read(&mut tmp) {
                Ok(0) => break,
                Ok(n) => {
                    let mut g = b2.lock().unwrap();
                    g.extend_from_slice(&tmp[..n]);
                    while let Some((len, at)) = varint(&g, pos) {
                        if at + len as usize > g.len() {
                            break;
                        }
                        pos = at + len as usize;
                        nf2.fetch_add(1, Ordering::Release);
                    }
                    if beh == Beh::Closer && g.len() >= close_after {
                        break;
                    }
                }
                Err(e) if e.kind() == std::io::ErrorKind::WouldBlock || e.kind() == std::io::ErrorKind::TimedOut => {}
                Err(_) => break,
            }
        }
        c2.store(true, Ordering::Relaxed);
        drop(s);
    });
    Some(Client { tok, beh, buf, release, stop, closed, nframes, h: Some(h) })
}

// quiescence: no new transport event and no new bytes for 150 ms
fn settle(clients: &[Client]) -> bool {
    let mut last = (0usize, 0usize);
    let mut stable_since = Instant::now();
    let t0 = Instant::now();
    loop {
        let cur = (LOG.lock().unwrap().len(), clients.iter().map(|c| c.buf.lock().unwrap().len()).sum::<usize>());
        if cur != last {
            last = cur;
            stable_since = Instant::now();
        }
        if stable_since.elapsed() > Duration::from_millis(150) {
            return true;
        }
        if t0.elapsed() > Duration::from_secs(10) {
            return false; // still moving: nothing is claimed about what is pending
        }
        std::thread::sleep(Duration::from_millis(5));
    }
}

/// Wake-up stress: with every client connected and reading and the buffer all but empty, pairs of emissions a short,
/// random distance apart, each pair followed by silence until both have arrived. An emission whose wake-up is lost
/// stays inside the exporter until something else wakes the transport, which here never happens: the pacing
/// deadline is missed (`final`'s second argument) and the emission is still in the model's channel.
fn run_wake(rng: &mut rand::rngs::StdRng, trials: usize) -> (Vec<Value>, i64, i64) {
    *CUR.lock().unwrap_or_else(|e| e.into_inner()) = None;
    LOG.lock().unwrap_or_else(|e| e.into_inner()).clear();
    let port = {
        let l = std::net::TcpListener::bind("127.0.0.1:0").unwrap();
        l.local_addr().unwrap().port()
    };
    let mut ev = vec![json!({"p": 0, "ev": "reset", "a": [1024, 2]})];
    let recorder = match TcpBuilder::new().listen_address(([127, 0, 0, 1], port)).buffer_size(Some(1024)).build() {
        Ok(r) => r,
        Err(e) => {
            ev.push(json!({"p": 0, "ev": "build_error", "a": [], "e": format!("{e}")}));
            return (ev, 0, 0);
        }
    };
    if !wait_for(|g| g.iter().any(|e| e.0 == "tcp.start.post"), 3) {
        for (e, a) in LOG.lock().unwrap().iter() {
            ev.push(json!({"p": 9, "ev": e, "a": a}));
        }
        ev.push(json!({"p": 0, "ev": "crash", "a": []}));
        std::mem::forget(recorder);
        return (ev, 0, 0);
    }
    // "m1" is described twice before any client connects: the metadata known at connect time is the latest description
    // (unit and description of the first one must not survive; seeded change C11-metadata_encoded_once)
    recorder.describe_counter("m1".into(), Some(Unit::Count), "d0".into());
    wait_for(|g| g.iter().filter(|e| e.0 == "tcp.rx.meta.post").count() >= 1, 3);
    recorder.describe_counter("m1".into(), None, "d1".into());
    wait_for(|g| g.iter().filter(|e| e.0 == "tcp.rx.meta.post").count() >= 2, 3);
    recorder.describe_gauge("m2".into(), Some(Unit::Bytes), "d2".into());
    wait_for(|g| g.iter().filter(|e| e.0 == "tcp.rx.meta.post").count() >= 3, 3);
    let name = "c".to_string();
    let key = Key::from_parts(name.clone(), vec![Label::new("l", "v")]);
    let counter = recorder.register_counter(&key, &Metadata::new("t", Level::INFO, None));
    let mut clients: Vec<Client> = vec![];
    for tok in 2..4i64 {
        if let Some(c) = spawn_client(port, tok, Beh::Reader, 0) {
            wait_for(|g| g.iter().any(|e| e.0 == "tcp.accept.post" && e.1[0] == tok), 5);
            clients.push(c);
        }
    }
    let mut next_id = 1i64;
    let mut missed = 0i64;
    let mut held = 0i64;
    if clients.len() == 2 {
        'trials: for _ in 0..trials {
            let controlled = rng.random_range(0..4) == 0;
            let gap = Duration::from_nanos(rng.random_range(0..80_000u64));
            if controlled {
                ARM.store(1, Ordering::Release);
            }
            log("emit", &[next_id]);
            counter.increment(next_id as u64);
            next_id += 1;
            let t = Instant::now();
            if controlled {
                // wait until the transport has taken the first emission and is held after its receive loop
                while ARM.load(Ordering::Acquire) != 2 && t.elapsed() < Duration::from_millis(200) {
                    std::hint::spin_loop();
                }
            } else {
                while t.elapsed() < gap {
                    std::hint::spin_loop();
                }
            }
            log("emit", &[next_id]);
            counter.increment(next_id as u64);
            next_id += 1;
            if controlled {
                let parked = ARM.swap(3, Ordering::AcqRel) == 2;
                held += parked as i64;
                if !parked {
                    ARM.store(0, Ordering::Release);
                }
            }
            // silence until both arrived at every client: 2 metadata frames + one frame per emission
            let want = 2 + (next_id - 1) as usize;
            let t0 = Instant::now();
            let mut spins = 0u32;
            while !clients.iter().all(|c| c.nframes.load(Ordering::Acquire) >= want) {
                spins += 1;
                if spins % 64 == 0 {
                    std::thread::yield_now();
                    if t0.elapsed() > Duration::from_secs(10) {
                        missed += 1;
                        break 'trials;
                    }
                }
            }
        }
    }
    let quiet = settle(&clients);
    (finish(ev, clients, &name, next_id, missed, recorder, quiet), missed, held)
}

// wake-race control: 0 idle, 1 armed, 2 transport parked after its receive loop, 3 released
static ARM: AtomicUsize = AtomicUsize::new(0);

static PORT_SALT: AtomicUsize = AtomicUsize::new(0);

fn run(rng: &mut rand::rngs::StdRng, buffer: Option<usize>, fatn: usize) -> Vec<Value> {
    // fatn: 0 ordinary frames; 1 = 16 KiB frames + stalled clients (WouldBlock on queued frames); 2 = one reading client and a
    // few 6 MiB frames, each emitted alone: the frame needs several partial writes with nothing else queued behind it
    let fat = fatn == 1;
    let huge = fatn == 2;
    *CUR.lock().unwrap_or_else(|e| e.into_inner()) = None; // earlier exporters are no longer recorded
    LOG.lock().unwrap_or_else(|e| e.into_inner()).clear();
    let port = {
        let l = std::net::TcpListener::bind("127.0.0.1:0").unwrap();
        l.local_addr().unwrap().port()
    };
    let _ = PORT_SALT.fetch_add(1, Ordering::Relaxed);
    let mut ev = vec![json!({"p": 0, "ev": "reset", "a": [buffer.map_or(-1, |b| b as i64), 2]})];
    let recorder = match TcpBuilder::new().listen_address(([127, 0, 0, 1], port)).buffer_size(buffer).build() {
        Ok(r) => r,
        Err(e) => {
            ev.push(json!({"p": 0, "ev": "build_error", "a": [], "e": format!("{e}")}));
            return ev;
        }
    };
    let started = wait_for(|g| g.iter().any(|e| e.0 == "tcp.start.post"), 3);
    if !started {
        // the transport thread died before serving anything
        for (e, a) in LOG.lock().unwrap().iter() {
            ev.push(json!({"p": 9, "ev": e, "a": a}));
        }
        ev.push(json!({"p": 0, "ev": "crash", "a": []}));
        std::mem::forget(recorder);
        return ev;
    }
    // one at a time: a description is only try_send'ed, so with a tiny channel a burst of them would be dropped
    // "m1" is described twice before any client connects: the metadata known at connect time is the latest description
    // (unit and description of the first one must not survive; seeded change C11-metadata_encoded_once)
    recorder.describe_counter("m1".into(), Some(Unit::Count), "d0".into());
    wait_for(|g| g.iter().filter(|e| e.0 == "tcp.rx.meta.post").count() >= 1, 3);
    recorder.describe_counter("m1".into(), None, "d1".into());
    wait_for(|g| g.iter().filter(|e| e.0 == "tcp.rx.meta.post").count() >= 2, 3);
    recorder.describe_gauge("m2".into(), Some(Unit::Bytes), "d2".into());
    wait_for(|g| g.iter().filter(|e| e.0 == "tcp.rx.meta.post").count() >= 3, 3);
    let name: String = if huge { "n".repeat(6 << 20) } else if fat { "n".repeat(16 * 1024) } else { "c".to_string() };
    let key = Key::from_parts(name.clone(), vec![Label::new("l", "v")]);
    let counter = recorder.register_counter(&key, &Metadata::new("t", Level::INFO, None));

    let mut clients: Vec<Client> = vec![];
    let mut next_tok = 2i64;
    let connect = |clients: &mut Vec<Client>, next_tok: &mut i64, beh: Beh, rng: &mut rand::rngs::StdRng| {
        let tok = *next_tok;
        let close_after = rng.random_range(40..400usize);
        if let Some(c) = spawn_client(port, tok, beh, close_after) {
            *next_tok += 1;
            wait_for(|g| g.iter().any(|e| e.0 == "tcp.accept.post" && e.1[0] == tok), 5);
            clients.push(c);
        }
    };
    let nclients = if huge { 1 } else { rng.random_range(1..=3usize) };
    for i in 0..nclients {
        let beh = if i == 0 {
            Beh::Reader
        } else if fat {
            Beh::Staller
        } else {
            [Beh::Reader, Beh::Closer, Beh::Staller, Beh::Reader][rng.random_range(0..4)]
        };
        connect(&mut clients, &mut next_tok, beh, rng);
    }
    let batch_max = if huge { 1 } else { buffer.unwrap_or(8).min(if fat { 4 } else { 64 }).max(1) };
    let rounds = if huge { 2 } else if fat { rng.random_range(120..200usize) } else { rng.random_range(2..=6usize) };
    let mut next_id = 1i64;
    let mut missed_deadline = 0i64;
    for r in 0..rounds {
        let n = rng.random_range(1..=batch_max);
        for _ in 0..n {
            log("emit", &[next_id]);
            counter.increment(next_id as u64);
            next_id += 1;
        }
        // pacing: wait until every reading client has everything emitted so far (or a generous deadline)
        let want = next_id - 1;
        let t0 = Instant::now();
        loop {
            let all = clients.iter().filter(|c| c.beh == Beh::Reader && !c.closed.load(Ordering::Relaxed)).all(|c| {
                let (fr, _, _) = decode_stream(&c.buf.lock().unwrap(), &name);
                fr.iter().any(|f| f[0] == want && f[1] == 1)
            });
            if all {
                break;
            }
            if t0.elapsed() > Duration::from_secs(5) {
                missed_deadline += 1;
                break;
            }
            std::thread::sleep(Duration::from_millis(1));
        }
        if !fat && !huge && r + 1 < rounds {
            match rng.random_range(0..6) {
                0 if clients.len() < 4 => connect(&mut clients, &mut next_tok, [Beh::Reader, Beh::Closer][rng.random_range(0..2)], rng),
                1 => {
                    // close a non-primary client from our side
                    if let Some(c) = clients.iter().skip(1).find(|c| !c.stop.load(Ordering::Relaxed)) {
                        c.stop.store(true, Ordering::Relaxed);
                    }
                }
                2 => {
                    for c in clients.iter().filter(|c| c.beh == Beh::Staller) {
                        c.release.store(true, Ordering::Relaxed);
                    }
                }
                _ => {}
            }
        }
    }
    // let everything settle, then release stallers and read to the end
    std::thread::sleep(Duration::from_millis(if fat { 50 } else { 30 }));
    for c in clients.iter() {
        c.release.store(true, Ordering::Relaxed);
    }
    let quiet = settle(&clients);
    finish(ev, clients, &name, next_id, missed_deadline, recorder, quiet)
}

fn finish(mut ev: Vec<Value>, mut clients: Vec<Client>, name: &str, next_id: i64, missed_deadline: i64, recorder: metrics_exporter_tcp::TcpRecorder, quiet: bool) -> Vec<Value> {
    let tlog: Vec<(String, Vec<i64>)> = LOG.lock().unwrap().clone();
    // clients we closed ourselves before the end did not read everything that was written to them
    let stopped_early: Vec<bool> = clients.iter().map(|c| c.stop.load(Ordering::Relaxed) || c.closed.load(Ordering::Relaxed)).collect();
    for c in clients.iter_mut() {
        c.stop.store(true, Ordering::Relaxed);
    }
    for c in clients.iter_mut() {
        if let Some(h) = c.h.take() {
            let _ = h.join();
        }
    }
    // transport + harness events, with the outcome of every write made explicit
    let is_transport = |e: &str| e.starts_with("tcp.");
    for (i, (e, a)) in tlog.iter().enumerate() {
        ev.push(json!({"p": if is_transport(e) { 9 } else { 0 }, "ev": e, "a": a}));
        if e == "tcp.write.pre" {
            // the next transport event tells how the write ended
            let nxt = tlog[i + 1..].iter().find(|x| is_transport(&x.0)).map(|x| x.0.as_str()).unwrap_or("");
            match nxt {
                "tcp.write.partial.post" | "tcp.write.zero.post" | "tcp.write.err.post" => {}
                "tcp.write.pre" | "tcp.idle.post" => ev.push(json!({"p": 9, "ev": "tcp.write.full.post", "a": []})),
                _ => ev.push(json!({"p": 9, "ev": "tcp.write.block.post", "a": []})),
            }
        }
    }
    for (ci, c) in clients.iter().enumerate() {
        let b = c.buf.lock().unwrap();
        let (frames, garbled, intact) = decode_stream(&b, name);
        ev.push(json!({"p": 0, "ev": "client.recv", "a": [c.tok], "frames": frames, "garbled": garbled, "intact": intact,
                       "reader": c.beh == Beh::Reader && !stopped_early[ci],
                       // connected and reading when everything had come to rest: nothing may still be pending for it
                       "drained": quiet && !stopped_early[ci], "bytes": b.len()}));
    }
    let primary = clients.first().map_or(false, |c| c.beh == Beh::Reader && !stopped_early[0]);
    ev.push(json!({"p": 0, "ev": "final", "a": [next_id - 1, missed_deadline, primary as i64]}));
    std::mem::forget(recorder); // the transport thread lives until the process ends
    ev
}

fn main() {
    let args = vh::Args::parse();
    let mode = args.pos.get(0).map(|s| s.as_str()).unwrap_or("record").to_string();
    let seed = vh::seed(1);
    let mut rng = vh::rng(seed);
    let out = args.get("out").unwrap_or("c11.ndjson").to_string();
    let mut w = Writer::create(&out);
    let buffer: Option<usize> = match args.get("buffer").unwrap_or("1024") {
        "none" => None,
        s => Some(s.parse().unwrap()),
    };
    let fat: usize = args.num("fat", 0usize);
    // exporters of earlier runs keep running (their transport threads cannot be stopped): only the newest transport
    // thread - the one that passed `tcp.start.pre` last - is recorded
    metrics::verif::install_global(Some(Box::new(|site, a| {
        if site.starts_with("tcp.") {
            let me = std::thread::current().id();
            let mut cur = CUR.lock().unwrap_or_else(|e| e.into_inner());
            if site == "tcp.start.pre" {
                *cur = Some(me);
            }
            if *cur == Some(me) {
                drop(cur);
                log(site, a);
                // controlled schedule: hold the transport right after its receive loop saw the channel empty, until the
                // emitter has pushed the next metric (and called wake) - the emission lands between "saw it empty" and
                // whatever the transport does next
                if site == "tcp.rx.end.post" && a[0] >= 1 && ARM.compare_exchange(1, 2, Ordering::AcqRel, Ordering::Acquire).is_ok() {
                    let t = Instant::now();
                    while ARM.load(Ordering::Acquire) != 3 && t.elapsed() < Duration::from_millis(200) {
                        std::hint::spin_loop();
                    }
                    ARM.store(0, Ordering::Release);
                }
            }
        }
    })));
    let mut summary = json!({"mode": mode, "seed": seed, "buffer": buffer, "fat": fat});
    let runs: usize = args.num("runs", 10);
    let (mut maxid, mut blocks, mut crashes) = (0i64, 0usize, 0usize);
    let mut distinct = std::collections::HashSet::new();
    let trials: usize = args.num("trials", 500);
    let (mut screened, mut written, mut stuck, mut held) = (0usize, 0usize, 0i64, 0i64);
    for ri in 0..runs {
        let ev = if mode == "wake" {
            // every window is screened by its own pacing deadline; the first one and every one that missed it are
            // written out and decided by TLC
            let (ev, missed, h) = run_wake(&mut rng, trials);
            screened += 1;
            held += h;
            stuck += missed;
            if ri > 0 && missed == 0 && ev.iter().all(|e| e["ev"] != "crash" && e["ev"] != "build_error") {
                continue;
            }
            written += 1;
            ev
        } else {
            run(&mut rng, buffer, fat)
        };
        for e in &ev {
            if e["ev"] == "final" {
                maxid = maxid.max(e["a"][0].as_i64().unwrap());
            }
            if e["ev"] == "tcp.write.block.post" {
                blocks += 1;
            }
            if e["ev"] == "crash" {
                crashes += 1;
            }
            w.put(e);
        }
        distinct.insert(ev.iter().map(|e| e["ev"].as_str().unwrap().to_string()).collect::<Vec<_>>().join(";"));
    }
    summary["runs"] = json!(runs);
    if mode == "wake" {
        summary["windows_screened"] = json!(screened);
        summary["windows_written"] = json!(written);
        summary["trials_per_window"] = json!(trials);
        summary["missed_deadlines"] = json!(stuck);
        summary["controlled_trials_held"] = json!(held);
    }
    summary["max_id"] = json!(maxid);
    summary["would_block_writes"] = json!(blocks);
    summary["crashes"] = json!(crashes);
    summary["distinct"] = json!(distinct.len());
    summary["lines"] = json!(w.lines);
    w.finish();
    println!("{}", summary);
}
