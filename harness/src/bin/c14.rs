//! C14 driver: the ownership protocol of metrics' copy-on-write pointer (metrics/src/cow.rs).
//!
//!   c14 record --runs N --out F            seeded random programs (all domains) + real-parallel runs
//!   c14 replay --in PROGS --out F          programs produced by TLC (SimCowOwnership REPLAY lines)
//!   c14 child  --in PROGS --out F --skip K (internal) executes a batch; the parent re-executes itself
//!                                          so that an abort (double free ...) is a `crash` event
//!
//! Domains (one per program):
//!   "str"   metrics::SharedString = Cow<'static, str>            (public API of the metrics crate)
//!   "slice" Cow<'static, [Tracked]>  -- `metrics::Cow` is not exported (mod cow is private), so the
//!           REAL source file $VERIF_REPO_DIR/metrics/src/cow.rs is compiled into this binary as a
//!           module; Tracked counts its clones and drops
//!   "key"   metrics::Key (labels: Cow<'static, [Label]>) through Key::from_parts / from_static_labels /
//!           clone / into_parts; each Label's key is a SharedString over one global Arc<str>, whose
//!           strong count therefore counts the live Label elements
//!
//! Observables logged after every step (integers only):
//!   da/df/db  allocations / frees / net bytes performed by the allocator during the call itself
//!   bf/sm     frees of a pointer that is not a live tracked allocation / frees with another size
//!   tl        live allocations made by the program (tracked), relative to the start of the run
//!   dc/dd     Tracked::clone / Tracked::drop calls during the call;  el = live elements
//!   sc        Arc::strong_count of every Arc the harness still holds a clone of (-1: holder dropped)
//!   rd/ow     content read back through every live cow / every value returned by into_owned ([-1]: empty)
use serde_json::{json, Value};
use std::alloc::{GlobalAlloc, Layout, System};
use std::cell::{Cell, UnsafeCell};
use std::collections::hash_map::DefaultHasher;
use std::hash::{Hash, Hasher};
use std::io::Write;
use std::panic::{catch_unwind, AssertUnwindSafe};
use std::sync::atomic::{AtomicBool, AtomicI64, Ordering};
use std::sync::{Arc, OnceLock};

use rand::Rng;

#[allow(dead_code, unused_imports, clippy::all)]
mod cowsrc {
    include!(concat!(env!("VERIF_REPO_DIR"), "/metrics/src/cow.rs"));
}

// ------------------------------------------------------------------------------------------------
// counting allocator
// ------------------------------------------------------------------------------------------------
const OFF: u8 = 0; // not measuring: allocation passes through
const PRE: u8 = 1; // the caller of the library builds an input (Vec / String / Arc): tracked, not counted
const ON: u8 = 2; // inside the library call: tracked and counted; frees are checked, poisoned, quarantined

thread_local! {
    static MODE: Cell<u8> = const { Cell::new(OFF) };
    static M_ALLOCS: Cell<i64> = const { Cell::new(0) };
    static M_FREES: Cell<i64> = const { Cell::new(0) };
    static M_BYTES: Cell<i64> = const { Cell::new(0) };
    static M_BF: Cell<i64> = const { Cell::new(0) };
    static M_SM: Cell<i64> = const { Cell::new(0) };
}
static TRACKED_LIVE: AtomicI64 = AtomicI64::new(0);
static BAD_FREES: AtomicI64 = AtomicI64::new(0);
static TAB_OVERFLOW: AtomicBool = AtomicBool::new(false);

const TABN: usize = 4096;
struct Table {
    lock: AtomicBool,
    ptrs: UnsafeCell<[usize; TABN]>,
    sizes: UnsafeCell<[usize; TABN]>,
    hi: UnsafeCell<usize>,
}
unsafe impl Sync for Table {}
static TABLE: Table =
    Table { lock: AtomicBool::new(false), ptrs: UnsafeCell::new([0; TABN]), sizes: UnsafeCell::new([0; TABN]), hi: UnsafeCell::new(0) };

impl Table {
    fn lock(&self) {
        while self.lock.compare_exchange_weak(false, true, Ordering::Acquire, Ordering::Relaxed).is_err() {
            std::hint::spin_loop();
        }
    }
    fn unlock(&self) {
        self.lock.store(false, Ordering::Release);
    }
    fn insert(&self, p: usize, size: usize) {
        self.lock();
        unsafe {
            let ptrs = &mut *self.ptrs.get();
            let sizes = &mut *self.sizes.get();
            let hi = &mut *self.hi.get();
            let mut done = false;
            for k in 0..TABN {
                if ptrs[k] == 0 {
                    ptrs[k] = p;
                    sizes[k] = size;
                    if k + 1 > *hi {
                        *hi = k + 1;
                    }
                    done = true;
                    break;
                }
            }
            if !done {
                TAB_OVERFLOW.store(true, Ordering::Relaxed);
            }
        }
        self.unlock();
    }
    fn remove(&self, p: usize) -> Option<usize> {
        self.lock();
        let mut res = None;
        unsafe {
            let ptrs = &mut *self.ptrs.get();
            let sizes = &*self.sizes.get();
            let hi = &mut *self.hi.get();
            for k in 0..*hi {
                if ptrs[k] == p {
                    ptrs[k] = 0;
                    res = Some(sizes[k]);
                    break;
                }
            }
            while *hi > 0 && ptrs[*hi - 1] == 0 {
                *hi -= 1;
            }
        }
        self.unlock();
        res
    }
}

struct CountingAlloc;
fn bump(c: &'static std::thread::LocalKey<Cell<i64>>, d: i64) {
    let _ = c.try_with(|x| x.set(x.get() + d));
}
unsafe impl GlobalAlloc for CountingAlloc {
    unsafe fn alloc(&self, layout: Layout) -> *mut u8 {
        let p = System.alloc(layout);
        let mode = MODE.try_with(|m| m.get()).unwrap_or(OFF);
        if mode != OFF && !p.is_null() {
            TABLE.insert(p as usize, layout.size());
            TRACKED_LIVE.fetch_add(1, Ordering::Relaxed);
            if mode == ON {
                bump(&M_ALLOCS, 1);
                bump(&M_BYTES, layout.size() as i64);
            }
        }
        p
    }
    unsafe fn dealloc(&self, ptr: *mut u8, layout: Layout) {
        let mode = MODE.try_with(|m| m.get()).unwrap_or(OFF);
        let found = if mode == ON || TRACKED_LIVE.load(Ordering::Relaxed) > 0 { TABLE.remove(ptr as usize) } else { None };
        match (mode, found) {
            (ON, Some(sz)) => {
                TRACKED_LIVE.fetch_sub(1, Ordering::Relaxed);
                bump(&M_FREES, 1);
                bump(&M_BYTES, -(layout.size() as i64));
                if sz != layout.size() {
                    bump(&M_SM, 1);
                }
                // poison and quarantine: a later read through a dangling pointer sees 0xDD, a second
                // free of the same address is recognised (the address is never handed out again)
                std::ptr::write_bytes(ptr, 0xDD, sz.min(layout.size()));
            }
            (ON, None) => {
                bump(&M_BF, 1);
                BAD_FREES.fetch_add(1, Ordering::Relaxed);
            }
            (_, Some(_)) => {
                TRACKED_LIVE.fetch_sub(1, Ordering::Relaxed);
                System.dealloc(ptr, layout);
            }
            (_, None) => System.dealloc(ptr, layout),
        }
    }
}
#[global_allocator]
static GLOBAL: CountingAlloc = CountingAlloc;

#[derive(Clone, Copy, Default, Debug)]
struct Meas {
    da: i64,
    df: i64,
    db: i64,
    bf: i64,
    sm: i64,
}
fn take_meas() -> Meas {
    let t = |c: &'static std::thread::LocalKey<Cell<i64>>| c.with(|x| x.replace(0));
    Meas { da: t(&M_ALLOCS), df: t(&M_FREES), db: t(&M_BYTES), bf: t(&M_BF), sm: t(&M_SM) }
}
fn with_mode<R>(m: u8, f: impl FnOnce() -> R) -> R {
    let old = MODE.with(|x| x.replace(m));
    let r = f();
    MODE.with(|x| x.set(old));
    r
}
fn on<R>(f: impl FnOnce() -> R) -> R {
    with_mode(ON, f)
}
fn pre<R>(f: impl FnOnce() -> R) -> R {
    with_mode(PRE, f)
}

// ------------------------------------------------------------------------------------------------
// element type with observable clone / drop
// ------------------------------------------------------------------------------------------------
static CLONES: AtomicI64 = AtomicI64::new(0);
static DROPS: AtomicI64 = AtomicI64::new(0);
static CREATED: AtomicI64 = AtomicI64::new(0);

#[derive(Debug, Hash, PartialEq, Eq, PartialOrd, Ord)]
struct Tracked {
    id: u32,
}
impl Tracked {
    fn new(id: i64) -> Tracked {
        CREATED.fetch_add(1, Ordering::Relaxed);
        Tracked { id: id as u32 }
    }
}
impl Clone for Tracked {
    fn clone(&self) -> Self {
        CLONES.fetch_add(1, Ordering::Relaxed);
        Tracked { id: self.id }
    }
}
impl Drop for Tracked {
    fn drop(&mut self) {
        DROPS.fetch_add(1, Ordering::Relaxed);
    }
}

fn clamp(x: u64) -> i64 {
    if x > 1_000_000 {
        1_000_000
    } else {
        x as i64
    }
}

// ------------------------------------------------------------------------------------------------
// domains
// ------------------------------------------------------------------------------------------------
trait Dom: 'static {
    type C: Send + Sync;
    type O: Send + Sync;
    type A: Send + Sync;
    type S: Copy + Send + Sync;
    const NAME: &'static str;
    const ESZ: usize;
    const HAS_CNT: bool;
    const HAS_EL: bool;
    const HAS_SHARED: bool;
    const HAS_CMP: bool;
    /// capacity floor of the copy made by into_owned of a Shared value (see fmtcap in CowOwnership.tla)
    const FCAP: usize;
    fn mk_static(v: &[i64]) -> Self::S;
    fn mk_owned(v: &[i64], cap: usize) -> Self::O;
    fn mk_arc(v: &[i64]) -> Self::A;
    fn arc_clone(a: &Self::A) -> Self::A;
    fn strong(a: &Self::A) -> i64;
    fn borrowed(s: Self::S, via: u64) -> Self::C;
    fn from_owned(o: Self::O, via: u64) -> Self::C;
    fn from_shared(a: Self::A, via: u64) -> Self::C;
    fn clone(c: &Self::C, via: u64) -> Self::C;
    fn into_owned(c: Self::C, via: u64) -> Self::O;
    fn peek_len(c: &Self::C, via: u64) -> i64;
    fn read(c: &Self::C) -> Vec<i64>;
    fn read_owned(o: &Self::O) -> Vec<i64>;
    fn eq(a: &Self::C, b: &Self::C) -> bool;
    fn cmp(a: &Self::C, b: &Self::C) -> i64;
    fn hash_cow(c: &Self::C) -> u64;
    fn hash_model(v: &[i64]) -> u64;
    fn el() -> i64;
}

fn to_string(v: &[i64]) -> String {
    v.iter().map(|x| (*x as u8) as char).collect()
}

// ---- str: the exported alias metrics::SharedString ----
struct DStr;
impl Dom for DStr {
    type C = metrics::SharedString;
    type O = String;
    type A = Arc<str>;
    type S = &'static str;
    const NAME: &'static str = "str";
    const ESZ: usize = 1;
    const HAS_CNT: bool = false;
    const HAS_EL: bool = false;
    const HAS_SHARED: bool = true;
    const HAS_CMP: bool = true;
    const FCAP: usize = 8;
    fn mk_static(v: &[i64]) -> &'static str {
        Box::leak(to_string(v).into_boxed_str())
    }
    fn mk_owned(v: &[i64], cap: usize) -> String {
        let mut s = String::with_capacity(cap);
        for x in v {
            s.push((*x as u8) as char);
        }
        s
    }
    fn mk_arc(v: &[i64]) -> Arc<str> {
        let s = with_mode(OFF, || to_string(v));
        let a: Arc<str> = Arc::from(s.as_str());
        with_mode(OFF, move || drop(s));
        a
    }
    fn arc_clone(a: &Arc<str>) -> Arc<str> {
        a.clone()
    }
    fn strong(a: &Arc<str>) -> i64 {
        clamp(Arc::strong_count(a) as u64)
    }
    fn borrowed(s: &'static str, via: u64) -> Self::C {
        match via % 5 {
            0 => metrics::SharedString::from_borrowed(s),
            1 => s.into(),
            2 => metrics::SharedString::const_str(s),
            3 => metrics::SharedString::from(std::borrow::Cow::Borrowed(s)),
            _ => {
                if s.is_empty() {
                    metrics::SharedString::default()
                } else {
                    metrics::SharedString::from_borrowed(s)
                }
            }
        }
    }
    fn from_owned(o: String, via: u64) -> Self::C {
        match via % 3 {
            0 => metrics::SharedString::from_owned(o),
            1 => o.into(),
            _ => metrics::SharedString::from(std::borrow::Cow::Owned(o)),
        }
    }
    fn from_shared(a: Arc<str>, via: u64) -> Self::C {
        match via % 2 {
            0 => metrics::SharedString::from_shared(a),
            _ => a.into(),
        }
    }
    fn clone(c: &Self::C, _via: u64) -> Self::C {
        c.clone()
    }
    fn into_owned(c: Self::C, _via: u64) -> String {
        c.into_owned()
    }
    fn peek_len(c: &Self::C, via: u64) -> i64 {
        use std::borrow::Borrow;
        let s: &str = match via % 3 {
            0 => &**c,
            1 => c.as_ref(),
            _ => c.borrow(),
        };
        s.len() as i64
    }
    fn read(c: &Self::C) -> Vec<i64> {
        let s: &str = c;
        s.as_bytes().iter().map(|b| *b as i64).collect()
    }
    fn read_owned(o: &String) -> Vec<i64> {
        o.as_bytes().iter().map(|b| *b as i64).collect()
    }
    fn eq(a: &Self::C, b: &Self::C) -> bool {
        a == b
    }
    fn cmp(a: &Self::C, b: &Self::C) -> i64 {
        a.cmp(b) as i64
    }
    fn hash_cow(c: &Self::C) -> u64 {
        let mut h = DefaultHasher::new();
        c.hash(&mut h);
        h.finish()
    }
    fn hash_model(v: &[i64]) -> u64 {
        let s = to_string(v);
        let mut h = DefaultHasher::new();
        s.as_str().hash(&mut h);
        h.finish()
    }
    fn el() -> i64 {
        -1
    }
}

// ---- slice: the real cow.rs compiled into this binary, over an element type with a destructor ----
struct DSlice;
type TCow = cowsrc::Cow<'static, [Tracked]>;
impl Dom for DSlice {
    type C = TCow;
    type O = Vec<Tracked>;
    type A = Arc<[Tracked]>;
    type S = &'static [Tracked];
    const NAME: &'static str = "slice";
    const ESZ: usize = std::mem::size_of::<Tracked>();
    const HAS_CNT: bool = true;
    const HAS_EL: bool = true;
    const HAS_SHARED: bool = true;
    const HAS_CMP: bool = true;
    const FCAP: usize = 0;
    fn mk_static(v: &[i64]) -> &'static [Tracked] {
        // leaked on purpose; not counted as created
        let b: Vec<Tracked> = v.iter().map(|x| Tracked { id: *x as u32 }).collect();
        Box::leak(b.into_boxed_slice())
    }
    fn mk_owned(v: &[i64], cap: usize) -> Vec<Tracked> {
        let mut o = Vec::with_capacity(cap);
        for x in v {
            o.push(Tracked::new(*x));
        }
        o
    }
    fn mk_arc(v: &[i64]) -> Arc<[Tracked]> {
        // Arc::from(Vec) moves the elements (no clone): one ArcInner allocation stays
        let o: Vec<Tracked> = v.iter().map(|x| Tracked::new(*x)).collect();
        Arc::from(o)
    }
    fn arc_clone(a: &Self::A) -> Self::A {
        a.clone()
    }
    fn strong(a: &Self::A) -> i64 {
        clamp(Arc::strong_count(a) as u64)
    }
    fn borrowed(s: &'static [Tracked], via: u64) -> TCow {
        match via % 4 {
            0 => TCow::from_borrowed(s),
            1 => s.into(),
            2 => TCow::const_slice(s),
            _ => {
                if s.is_empty() {
                    TCow::default()
                } else {
                    TCow::from_borrowed(s)
                }
            }
        }
    }
    fn from_owned(o: Vec<Tracked>, via: u64) -> TCow {
        match via % 2 {
            0 => TCow::from_owned(o),
            _ => o.into(),
        }
    }
    fn from_shared(a: Self::A, via: u64) -> TCow {
        match via % 2 {
            0 => TCow::from_shared(a),
            _ => a.into(),
        }
    }
    fn clone(c: &TCow, _via: u64) -> TCow {
        c.clone()
    }
    fn into_owned(c: TCow, _via: u64) -> Vec<Tracked> {
        c.into_owned()
    }
    fn peek_len(c: &TCow, via: u64) -> i64 {
        use std::borrow::Borrow;
        let s: &[Tracked] = match via % 3 {
            0 => &**c,
            1 => c.as_ref(),
            _ => c.borrow(),
        };
        s.len() as i64
    }
    fn read(c: &TCow) -> Vec<i64> {
        c.iter().map(|t| clamp(t.id as u64)).collect()
    }
    fn read_owned(o: &Vec<Tracked>) -> Vec<i64> {
        o.iter().map(|t| clamp(t.id as u64)).collect()
    }
    fn eq(a: &TCow, b: &TCow) -> bool {
        a == b
    }
    fn cmp(a: &TCow, b: &TCow) -> i64 {
        a.cmp(b) as i64
    }
    fn hash_cow(c: &TCow) -> u64 {
        let mut h = DefaultHasher::new();
        c.hash(&mut h);
        h.finish()
    }
    fn hash_model(v: &[i64]) -> u64 {
        let m: Vec<std::mem::ManuallyDrop<Tracked>> =
            v.iter().map(|x| std::mem::ManuallyDrop::new(Tracked { id: *x as u32 })).collect();
        let mut h = DefaultHasher::new();
        // [T]::hash = length prefix + every element
        m.len().hash(&mut h);
        for t in &m {
            (**t).hash(&mut h);
        }
        h.finish()
    }
    fn el() -> i64 {
        CREATED.load(Ordering::Relaxed) + CLONES.load(Ordering::Relaxed) - DROPS.load(Ordering::Relaxed)
    }
}

// ---- key: Cow<'static, [Label]> behind the public Key API ----
struct DKey;
static KARC: OnceLock<Arc<str>> = OnceLock::new();
static LEAKED_LABELS: AtomicI64 = AtomicI64::new(0);
static VALS: OnceLock<Vec<&'static str>> = OnceLock::new();
const KNAME: &str = "k";
fn karc() -> &'static Arc<str> {
    KARC.get_or_init(|| Arc::from("lk"))
}
fn val_str(id: i64) -> &'static str {
    let v = VALS.get_or_init(|| (0..256).map(|i| &*Box::leak(format!("{}", i).into_boxed_str())).collect());
    v[(id as usize) % 256]
}
fn mk_label(id: i64) -> metrics::Label {
    metrics::Label::new(metrics::SharedString::from_shared(karc().clone()), metrics::SharedString::const_str(val_str(id)))
}
fn label_id(l: &metrics::Label) -> i64 {
    if l.key() != "lk" {
        return 1_000_001;
    }
    l.value().parse::<i64>().unwrap_or(1_000_000)
}
impl Dom for DKey {
    type C = metrics::Key;
    type O = Vec<metrics::Label>;
    type A = ();
    type S = &'static [metrics::Label];
    const NAME: &'static str = "key";
    const ESZ: usize = std::mem::size_of::<metrics::Label>();
    const HAS_CNT: bool = false;
    const HAS_EL: bool = true;
    const HAS_SHARED: bool = false;
    const HAS_CMP: bool = false;
    const FCAP: usize = 0;
    fn mk_static(v: &[i64]) -> Self::S {
        let b: Vec<metrics::Label> = v.iter().map(|x| mk_label(*x)).collect();
        LEAKED_LABELS.fetch_add(b.len() as i64, Ordering::Relaxed);
        Box::leak(b.into_boxed_slice())
    }
    fn mk_owned(v: &[i64], cap: usize) -> Self::O {
        let mut o = Vec::with_capacity(cap);
        for x in v {
            o.push(mk_label(*x));
        }
        o
    }
    fn mk_arc(_v: &[i64]) {}
    fn arc_clone(_a: &()) {}
    fn strong(_a: &()) -> i64 {
        -1
    }
    fn borrowed(s: Self::S, _via: u64) -> metrics::Key {
        metrics::Key::from_static_labels(KNAME, s)
    }
    fn from_owned(o: Self::O, _via: u64) -> metrics::Key {
        metrics::Key::from_parts(KNAME, o)
    }
    fn from_shared(_a: (), _via: u64) -> metrics::Key {
        unreachable!()
    }
    fn clone(c: &metrics::Key, via: u64) -> metrics::Key {
        match via % 2 {
            0 => c.clone(),
            _ => c.with_extra_labels(Vec::new()),
        }
    }
    fn into_owned(c: metrics::Key, _via: u64) -> Self::O {
        c.into_parts().1
    }
    fn peek_len(c: &metrics::Key, _via: u64) -> i64 {
        c.labels().len() as i64
    }
    fn read(c: &metrics::Key) -> Vec<i64> {
        c.labels().map(label_id).collect()
    }
    fn read_owned(o: &Self::O) -> Vec<i64> {
        o.iter().map(label_id).collect()
    }
    fn eq(_a: &metrics::Key, _b: &metrics::Key) -> bool {
        false
    }
    fn cmp(_a: &metrics::Key, _b: &metrics::Key) -> i64 {
        0
    }
    fn hash_cow(_c: &metrics::Key) -> u64 {
        0
    }
    fn hash_model(_v: &[i64]) -> u64 {
        0
    }
    fn el() -> i64 {
        Arc::strong_count(karc()) as i64 - 1 - LEAKED_LABELS.load(Ordering::Relaxed)
    }
}

// ------------------------------------------------------------------------------------------------
// programs
// ------------------------------------------------------------------------------------------------
const NSLOTS: usize = 4;
const NOWNED: usize = 2;

#[derive(Clone, Debug, Default)]
struct Op {
    op: String,
    i: usize,
    j: usize,
    t: u8,
    a: usize,
    c: usize,
    v: Vec<i64>,
    via: u64,
}
fn op_json(o: &Op) -> Value {
    json!({"op": o.op, "i": o.i, "j": o.j, "t": o.t, "a": o.a, "c": o.c, "v": o.v, "via": o.via})
}
fn parse_op(v: &Value) -> Op {
    let u = |k: &str| v[k].as_u64().unwrap_or(0);
    Op {
        op: v["op"].as_str().unwrap_or("").to_string(),
        i: u("i") as usize,
        j: u("j") as usize,
        t: u("t") as u8,
        a: u("a") as usize,
        c: u("c") as usize,
        v: v["v"].as_array().map(|a| a.iter().map(|x| x.as_i64().unwrap_or(0)).collect()).unwrap_or_default(),
        via: u("via"),
    }
}

struct St<D: Dom> {
    slots: Vec<Option<D::C>>,
    thr: Vec<u8>,
    src: Vec<Vec<i64>>,
    owned: Vec<Option<D::O>>,
    osrc: Vec<Vec<i64>>,
    arcs: Vec<Option<D::A>>,
    asrc: Vec<Vec<i64>>,
}

type OpOut<R> = (std::thread::Result<R>, Meas);
/// run `f` on the main thread (t = 0) or on a freshly spawned thread (t = 1), measuring what the
/// allocator did on that thread inside the on()/pre() brackets of `f`
fn run_on<D: Dom, R: Send>(t: u8, st: &mut St<D>, f: impl FnOnce(&mut St<D>) -> R + Send) -> OpOut<R> {
    let body = move |st: &mut St<D>| {
        let _ = take_meas();
        let r = catch_unwind(AssertUnwindSafe(|| f(st)));
        MODE.with(|m| m.set(OFF));
        let m = take_meas();
        (r, m)
    };
    if t == 0 {
        body(st)
    } else {
        std::thread::scope(|s| match s.spawn(move || body(st)).join() {
            Ok(x) => x,
            Err(e) => (Err(e), Meas::default()),
        })
    }
}

fn snapshot<D: Dom>(st: &St<D>) -> (Vec<Vec<i64>>, Vec<Vec<i64>>, Vec<i64>) {
    let rd = st.slots.iter().map(|c| c.as_ref().map(|c| D::read(c)).unwrap_or_else(|| vec![-1])).collect();
    let ow = st.owned.iter().map(|o| o.as_ref().map(|o| D::read_owned(o)).unwrap_or_else(|| vec![-1])).collect();
    let sc = st.arcs.iter().map(|a| a.as_ref().map(|a| D::strong(a)).unwrap_or(-1)).collect();
    (rd, ow, sc)
}

/// Is the operation applicable in the harness' own bookkeeping? (TLC programs always are.)
fn applicable<D: Dom>(st: &St<D>, o: &Op) -> bool {
    let full = |i: usize| i >= 1 && i <= NSLOTS && st.slots[i - 1].is_some();
    let empty = |i: usize| i >= 1 && i <= NSLOTS && st.slots[i - 1].is_none();
    let ofull = |j: usize| j >= 1 && j <= NOWNED && st.owned[j - 1].is_some();
    let oempty = |j: usize| j >= 1 && j <= NOWNED && st.owned[j - 1].is_none();
    let holder = |a: usize| a >= 1 && a <= st.arcs.len() && st.arcs[a - 1].is_some();
    match o.op.as_str() {
        "nb" => empty(o.i),
        "no" => empty(o.i) && o.c >= o.v.len(),
        "ns" => empty(o.i) && D::HAS_SHARED,
        "sa" => empty(o.i) && D::HAS_SHARED && holder(o.a),
        "dh" => D::HAS_SHARED && holder(o.a),
        "cl" => full(o.i) && empty(o.j) && o.i != o.j,
        "io" => full(o.i) && oempty(o.j),
        "dc" | "mt" | "rd" => full(o.i),
        "hash" => full(o.i) && D::HAS_CMP,
        "do" => ofull(o.j),
        "fo" => ofull(o.j) && empty(o.i),
        "eq" | "cmp" => full(o.i) && full(o.j) && D::HAS_CMP,
        _ => false,
    }
}

fn step<D: Dom>(st: &mut St<D>, o: &Op, base_tl: i64, base_el: i64) -> Value {
    if !applicable(st, o) {
        return json!({"ev": "bad_program", "op": op_json(o)});
    }
    let (i, j, a, via) = (o.i.wrapping_sub(1), o.j.wrapping_sub(1), o.a.wrapping_sub(1), o.via);
    let c0 = CLONES.load(Ordering::SeqCst);
    let d0 = DROPS.load(Ordering::SeqCst);
    let mut t = o.t;
    let out: OpOut<i64> = match o.op.as_str() {
        "nb" => {
            let s = D::mk_static(&o.v);
            st.thr[i] = t;
            st.src[i] = o.v.clone();
            run_on(t, st, move |st| {
                on(|| st.slots[i] = Some(D::borrowed(s, via)));
                0
            })
        }
        "no" => {
            st.thr[i] = t;
            st.src[i] = o.v.clone();
            let (v, cap) = (o.v.clone(), o.c);
            run_on(t, st, move |st| {
                let ow = pre(|| D::mk_owned(&v, cap));
                on(|| st.slots[i] = Some(D::from_owned(ow, via)));
                0
            })
        }
        "ns" => {
            st.thr[i] = t;
            st.src[i] = o.v.clone();
            st.asrc.push(o.v.clone());
            st.arcs.reserve(1);
            let v = o.v.clone();
            run_on(t, st, move |st| {
                let arc = pre(|| D::mk_arc(&v));
                let h = D::arc_clone(&arc);
                st.arcs.push(Some(h));
                on(|| st.slots[i] = Some(D::from_shared(arc, via)));
                0
            })
        }
        "sa" => {
            st.thr[i] = t;
            st.src[i] = st.asrc[a].clone();
            run_on(t, st, move |st| {
                let arc = D::arc_clone(st.arcs[a].as_ref().unwrap());
                on(|| st.slots[i] = Some(D::from_shared(arc, via)));
                0
            })
        }
        "dh" => {
            t = 0;
            run_on(0, st, move |st| {
                on(|| drop(st.arcs[a].take()));
                0
            })
        }
        "cl" => {
            t = st.thr[i];
            st.thr[j] = t;
            st.src[j] = st.src[i].clone();
            run_on(t, st, move |st| {
                on(|| {
                    let c = D::clone(st.slots[i].as_ref().unwrap(), via);
                    st.slots[j] = Some(c);
                });
                0
            })
        }
        "io" => {
            t = st.thr[i];
            st.osrc[j] = st.src[i].clone();
            run_on(t, st, move |st| {
                on(|| {
                    let c = st.slots[i].take().unwrap();
                    st.owned[j] = Some(D::into_owned(c, via));
                });
                0
            })
        }
        "dc" => {
            t = st.thr[i];
            run_on(t, st, move |st| {
                on(|| drop(st.slots[i].take()));
                0
            })
        }
        "do" => {
            t = 0;
            run_on(0, st, move |st| {
                on(|| drop(st.owned[j].take()));
                0
            })
        }
        "fo" => {
            st.thr[i] = t;
            st.src[i] = st.osrc[j].clone();
            run_on(t, st, move |st| {
                on(|| {
                    let ow = st.owned[j].take().unwrap();
                    st.slots[i] = Some(D::from_owned(ow, via));
                });
                0
            })
        }
        "mt" => {
            // Send: the cow itself crosses to another thread and back by value
            if st.thr[i] == t {
                t = 1 - t;
            }
            st.thr[i] = t;
            let c = st.slots[i].take().unwrap();
            let c = std::thread::scope(|s| s.spawn(move || c).join().unwrap());
            st.slots[i] = Some(c);
            (Ok(0), Meas::default())
        }
        "rd" => {
            t = st.thr[i];
            run_on(t, st, move |st| on(|| D::peek_len(st.slots[i].as_ref().unwrap(), via)))
        }
        "eq" => {
            t = st.thr[i];
            run_on(t, st, move |st| on(|| D::eq(st.slots[i].as_ref().unwrap(), st.slots[j].as_ref().unwrap()) as i64))
        }
        "cmp" => {
            t = st.thr[i];
            run_on(t, st, move |st| on(|| D::cmp(st.slots[i].as_ref().unwrap(), st.slots[j].as_ref().unwrap())))
        }
        "hash" => {
            t = st.thr[i];
            let want = D::hash_model(&st.src[i]);
            run_on(t, st, move |st| on(|| (D::hash_cow(st.slots[i].as_ref().unwrap()) == want) as i64))
        }
        _ => unreachable!(),
    };
    let (r, m) = out;
    let res: i64 = match r {
        Ok(x) => x,
        Err(_) => {
            return json!({"ev": "panic", "op": op_json(o)});
        }
    };
    let dc = CLONES.load(Ordering::SeqCst) - c0;
    let dd = DROPS.load(Ordering::SeqCst) - d0;
    let (rd, ow, sc) = snapshot(st);
    let el = if D::HAS_EL { D::el() - base_el } else { -1 };
    json!({"ev": o.op, "i": o.i, "j": o.j, "t": t, "a": o.a, "c": o.c, "v": o.v, "via": o.via,
           "da": m.da, "df": m.df, "db": m.db, "bf": m.bf, "sm": m.sm,
           "tl": TRACKED_LIVE.load(Ordering::SeqCst) - base_tl,
           "dc": if D::HAS_CNT { dc } else { -1 }, "dd": if D::HAS_CNT { dd } else { -1 }, "el": el,
           "sc": sc, "rd": rd, "ow": ow, "res": res})
}

struct Out {
    f: std::fs::File,
    lines: usize,
}
impl Out {
    fn put(&mut self, v: &Value) {
        // one write per line, unbuffered: whatever precedes a crash is on disk
        let mut s = v.to_string();
        s.push('\n');
        self.f.write_all(s.as_bytes()).unwrap();
        self.lines += 1;
    }
}

fn run_program<D: Dom>(prog: &[Op], idx: usize, src: &str, out: &mut Out) {
    let mut st: St<D> = St {
        slots: (0..NSLOTS).map(|_| None).collect(),
        thr: vec![0; NSLOTS],
        src: vec![vec![]; NSLOTS],
        owned: (0..NOWNED).map(|_| None).collect(),
        osrc: vec![vec![]; NOWNED],
        arcs: Vec::with_capacity(64),
        asrc: Vec::with_capacity(64),
    };
    let _ = karc();
    let _ = val_str(0);
    let base_tl = TRACKED_LIVE.load(Ordering::SeqCst);
    let base_bf = BAD_FREES.load(Ordering::SeqCst);
    let base_el = if D::HAS_EL { D::el() } else { 0 };
    out.put(&json!({"ev": "reset", "dom": D::NAME, "esz": D::ESZ, "hdr": 2 * std::mem::size_of::<usize>(),
                    "al": std::mem::align_of::<usize>(), "cnt": D::HAS_CNT as i64, "hel": D::HAS_EL as i64,
                    "fcap": D::FCAP, "prog": idx, "src": src}));
    let mut dead = false;
    for o in prog {
        let e = step::<D>(&mut st, o, base_tl, base_el);
        let bad = matches!(e["ev"].as_str(), Some("panic") | Some("bad_program"));
        out.put(&e);
        if bad {
            dead = true;
            break;
        }
    }
    if dead {
        // state unknown after a panic: leak everything rather than run more destructors
        std::mem::forget(st);
        return;
    }
    // cleanup: drop every cow, every returned value, every holder -- logged like any other step
    let mut tail = vec![];
    for i in 0..NSLOTS {
        if st.slots[i].is_some() {
            tail.push(Op { op: "dc".into(), i: i + 1, ..Default::default() });
        }
    }
    for j in 0..NOWNED {
        if st.owned[j].is_some() {
            tail.push(Op { op: "do".into(), j: j + 1, ..Default::default() });
        }
    }
    for a in 0..st.arcs.len() {
        if st.arcs[a].is_some() {
            tail.push(Op { op: "dh".into(), a: a + 1, ..Default::default() });
        }
    }
    for o in &tail {
        let e = step::<D>(&mut st, o, base_tl, base_el);
        let bad = matches!(e["ev"].as_str(), Some("panic") | Some("bad_program"));
        out.put(&e);
        if bad {
            std::mem::forget(st);
            return;
        }
    }
    let el = if D::HAS_EL { D::el() - base_el } else { -1 };
    out.put(&json!({"ev": "final", "tl": TRACKED_LIVE.load(Ordering::SeqCst) - base_tl,
                    "bf": BAD_FREES.load(Ordering::SeqCst) - base_bf, "el": el,
                    "ovf": TAB_OVERFLOW.load(Ordering::Relaxed) as i64}));
}

/// Real-parallel run: `threads` threads clone / read / convert / drop the same cows concurrently.
/// Only what holds for every schedule is reported: counts are back where they started.
fn run_par<D: Dom>(threads: usize, iters: usize, idx: usize, out: &mut Out) {
    let base_tl = TRACKED_LIVE.load(Ordering::SeqCst);
    let base_bf = BAD_FREES.load(Ordering::SeqCst);
    let v: Vec<i64> = vec![11, 12, 13];
    let el0 = if D::HAS_EL { D::el() } else { 0 };
    let shared = if D::HAS_SHARED {
        let arc = pre(|| D::mk_arc(&v));
        let h = D::arc_clone(&arc);
        Some((on(|| D::from_shared(arc, 0)), h))
    } else {
        None
    };
    let ow = pre(|| D::mk_owned(&v, 5));
    let owned = on(|| D::from_owned(ow, 0));
    let borrowed = D::borrowed(D::mk_static(&v), 0);
    let sc0 = shared.as_ref().map(|(_, h)| D::strong(h)).unwrap_or(-1);
    let setup_tl = TRACKED_LIVE.load(Ordering::SeqCst);
    let setup_el = if D::HAS_EL { D::el() } else { 0 };
    let bad = AtomicI64::new(0);
    std::thread::scope(|s| {
        for th in 0..threads {
            let (shared, owned, borrowed, bad, v) = (&shared, &owned, &borrowed, &bad, &v);
            s.spawn(move || {
                on(|| {
                    for k in 0..iters {
                        let which = (k + th) % 3;
                        let c = match (which, shared) {
                            (0, Some((c, _))) => D::clone(c, 0),
                            (1, _) => D::clone(owned, 0),
                            _ => D::clone(borrowed, 0),
                        };
                        if D::peek_len(&c, k as u64) != v.len() as i64 {
                            bad.fetch_add(1, Ordering::Relaxed);
                        }
                        if k % 2 == 0 {
                            let o = D::into_owned(c, 0);
                            if with_mode(OFF, || D::read_owned(&o) != *v) {
                                bad.fetch_add(1, Ordering::Relaxed);
                            }
                            drop(o);
                        } else {
                            if with_mode(OFF, || D::read(&c) != *v) {
                                bad.fetch_add(1, Ordering::Relaxed);
                            }
                            drop(c);
                        }
                    }
                });
                let _ = take_meas();
            });
        }
    });
    let sc1 = shared.as_ref().map(|(_, h)| D::strong(h)).unwrap_or(-1);
    let el1 = if D::HAS_EL { D::el() - setup_el } else { 0 };
    let tl1 = TRACKED_LIVE.load(Ordering::SeqCst) - setup_tl;
    on(|| {
        drop(owned);
        drop(borrowed);
    });
    let sc2 = if let Some((c, h)) = shared {
        on(|| drop(c));
        let x = D::strong(&h);
        on(|| drop(h));
        x
    } else {
        -1
    };
    let _ = take_meas();
    out.put(&json!({"ev": "reset", "dom": D::NAME, "esz": D::ESZ, "hdr": 16, "al": 8, "cnt": 0, "hel": 0, "fcap": D::FCAP, "prog": idx, "src": "par"}));
    out.put(&json!({"ev": "par", "threads": threads, "iters": iters, "shared": D::HAS_SHARED as i64,
                    "sc0": sc0, "sc1": sc1, "sc2": sc2, "el1": el1, "tl1": tl1,
                    "el2": if D::HAS_EL { D::el() - el0 } else { 0 },
                    "tl2": TRACKED_LIVE.load(Ordering::SeqCst) - base_tl,
                    "bf": BAD_FREES.load(Ordering::SeqCst) - base_bf, "bad": bad.load(Ordering::SeqCst)}));
}

fn run_any(p: &Value, idx: usize, out: &mut Out) {
    let dom = p["dom"].as_str().unwrap_or("str");
    let src = p["src"].as_str().unwrap_or("tlc");
    if p["mode"].as_str() == Some("par") {
        let (th, it) = (p["threads"].as_u64().unwrap_or(4) as usize, p["iters"].as_u64().unwrap_or(500) as usize);
        match dom {
            "str" => run_par::<DStr>(th, it, idx, out),
            "slice" => run_par::<DSlice>(th, it, idx, out),
            _ => run_par::<DKey>(th, it, idx, out),
        }
        return;
    }
    let ops: Vec<Op> = p["ops"].as_array().map(|a| a.iter().map(parse_op).collect()).unwrap_or_default();
    match dom {
        "str" => run_program::<DStr>(&ops, idx, src, out),
        "slice" => run_program::<DSlice>(&ops, idx, src, out),
        _ => run_program::<DKey>(&ops, idx, src, out),
    }
}

// ------------------------------------------------------------------------------------------------
// random programs
// ------------------------------------------------------------------------------------------------
fn random_program(rng: &mut rand::rngs::StdRng, dom: &str) -> Value {
    let shared_ok = dom != "key";
    let cmp_ok = dom != "key";
    let n = rng.random_range(8..=28usize);
    let mut full = [false; NSLOTS];
    let mut ofull = [false; NOWNED];
    let mut holders: Vec<bool> = vec![];
    let mut ops: Vec<Value> = vec![];
    let mut guard = 0;
    while ops.len() < n && guard < 1000 {
        guard += 1;
        let k = ops.len();
        let empties: Vec<usize> = (0..NSLOTS).filter(|i| !full[*i]).collect();
        let fulls: Vec<usize> = (0..NSLOTS).filter(|i| full[*i]).collect();
        let oempties: Vec<usize> = (0..NOWNED).filter(|j| !ofull[*j]).collect();
        let ofulls: Vec<usize> = (0..NOWNED).filter(|j| ofull[*j]).collect();
        let live_holders: Vec<usize> = (0..holders.len()).filter(|a| holders[*a]).collect();
        let pick = |rng: &mut rand::rngs::StdRng, v: &Vec<usize>| v[rng.random_range(0..v.len())];
        let len = match rng.random_range(0..8) {
            0 | 1 => 0,
            2 | 3 => 1,
            4 => 2,
            5 => 3,
            6 => 5,
            // Key::from_parts hashes >= 8 labels through a temporary Vec (key.rs, not the cow): keep the
            // key domain below that so the allocator counts are the cow's alone
            _ => if dom == "key" { 7 } else { 8 },
        };
        let base = ((k % 12) * 10) as i64;
        let v: Vec<i64> = (1..=len as i64).map(|x| base + x).collect();
        let t = if rng.random_range(0..4) == 0 { 1 } else { 0 };
        let via = rng.random_range(0..60u64);
        let mut o = Op { t, via, ..Default::default() };
        match rng.random_range(0..20) {
            0 | 1 if !empties.is_empty() => {
                o.op = "nb".into();
                o.i = pick(rng, &empties) + 1;
                o.v = v;
                full[o.i - 1] = true;
            }
            2 | 3 | 4 if !empties.is_empty() => {
                o.op = "no".into();
                o.i = pick(rng, &empties) + 1;
                o.c = match rng.random_range(0..4) {
                    0 => len,
                    1 => len + 1,
                    2 => len + 3,
                    _ => (len * 2).max(4),
                };
                o.v = v;
                full[o.i - 1] = true;
            }
            5 | 6 if !empties.is_empty() && shared_ok && live_holders.len() < 3 => {
                o.op = "ns".into();
                o.i = pick(rng, &empties) + 1;
                o.v = v;
                full[o.i - 1] = true;
                holders.push(true);
            }
            7 if !empties.is_empty() && !live_holders.is_empty() => {
                o.op = "sa".into();
                o.i = pick(rng, &empties) + 1;
                o.a = pick(rng, &live_holders) + 1;
                full[o.i - 1] = true;
            }
            8 if !live_holders.is_empty() => {
                o.op = "dh".into();
                o.a = pick(rng, &live_holders) + 1;
                holders[o.a - 1] = false;
            }
            9 | 10 | 11 if !fulls.is_empty() && !empties.is_empty() => {
                o.op = "cl".into();
                o.i = pick(rng, &fulls) + 1;
                o.j = pick(rng, &empties) + 1;
                full[o.j - 1] = true;
            }
            12 | 13 if !fulls.is_empty() && !oempties.is_empty() => {
                o.op = "io".into();
                o.i = pick(rng, &fulls) + 1;
                o.j = pick(rng, &oempties) + 1;
                full[o.i - 1] = false;
                ofull[o.j - 1] = true;
            }
            14 | 15 if !fulls.is_empty() => {
                o.op = "dc".into();
                o.i = pick(rng, &fulls) + 1;
                full[o.i - 1] = false;
            }
            16 if !ofulls.is_empty() => {
                o.op = "do".into();
                o.j = pick(rng, &ofulls) + 1;
                ofull[o.j - 1] = false;
            }
            17 if !ofulls.is_empty() && !empties.is_empty() => {
                o.op = "fo".into();
                o.j = pick(rng, &ofulls) + 1;
                o.i = pick(rng, &empties) + 1;
                ofull[o.j - 1] = false;
                full[o.i - 1] = true;
            }
            18 if !fulls.is_empty() => {
                o.op = "mt".into();
                o.i = pick(rng, &fulls) + 1;
                o.t = rng.random_range(0..2);
            }
            19 if !fulls.is_empty() => {
                o.i = pick(rng, &fulls) + 1;
                o.j = pick(rng, &fulls) + 1;
                o.op = match rng.random_range(0..4) {
                    0 if cmp_ok => "eq",
                    1 if cmp_ok => "cmp",
                    2 if cmp_ok => "hash",
                    _ => "rd",
                }
                .into();
            }
            _ => continue,
        }
        ops.push(op_json(&o));
    }
    json!({"dom": dom, "src": "rand", "ops": ops})
}

// ------------------------------------------------------------------------------------------------
// parent / child
// ------------------------------------------------------------------------------------------------
/// Everything that is initialised lazily (hasher seeds, thread machinery, statics of this harness)
/// is touched once outside every measurement bracket.
fn warmup() {
    let _ = karc();
    let _ = val_str(0);
    let k = metrics::Key::from_parts(KNAME, vec![mk_label(1), mk_label(2)]);
    let _ = k.get_hash();
    let k2 = k.clone();
    drop(k2.into_parts());
    drop(k);
    let s = metrics::SharedString::from_shared(Arc::from("w"));
    let _ = DStr::hash_cow(&s);
    drop(s.clone().into_owned());
    drop(s);
    let t = TCow::from_owned(vec![Tracked { id: 1 }]);
    let _ = DSlice::hash_cow(&t);
    std::thread::scope(|sc| {
        sc.spawn(|| drop(t.clone())).join().unwrap();
    });
    std::mem::forget(t); // not counted as created: leave the counters balanced
    let _ = take_meas();
}

fn child(inp: &str, outp: &str, skip: usize) {
    let text = std::fs::read_to_string(inp).expect("read programs");
    warmup();
    let mut out = Out { f: std::fs::File::create(outp).expect("create child output"), lines: 0 };
    for (idx, line) in text.lines().filter(|l| !l.trim().is_empty()).enumerate() {
        if idx < skip {
            continue;
        }
        let p: Value = serde_json::from_str(line).expect("program json");
        run_any(&p, idx, &mut out);
    }
}

struct BatchStats {
    programs: usize,
    crashes: usize,
    hangs: usize,
    children: usize,
}

/// Executes all programs of `progs` in child processes; appends their events to `w`.
fn run_batches(progs: &[Value], w: &mut vh::trace::Writer, tmp_prefix: &str) -> BatchStats {
    let exe = std::env::current_exe().expect("current_exe");
    let mut stats = BatchStats { programs: progs.len(), crashes: 0, hangs: 0, children: 0 };
    let batch = 200usize;
    let mut start = 0usize;
    while start < progs.len() {
        let end = (start + batch).min(progs.len());
        let inp = format!("{}.batch_in", tmp_prefix);
        let outp = format!("{}.batch_out", tmp_prefix);
        {
            let mut f = std::io::BufWriter::new(std::fs::File::create(&inp).unwrap());
            for p in &progs[start..end] {
                writeln!(f, "{}", p).unwrap();
            }
            f.flush().unwrap();
        }
        let mut skip = 0usize;
        while skip < end - start {
            stats.children += 1;
            let _ = std::fs::remove_file(&outp);
            let mut ch = std::process::Command::new(&exe)
                .args(["child", "--in", &inp, "--out", &outp, "--skip", &skip.to_string()])
                .stdout(std::process::Stdio::null())
                .stderr(std::process::Stdio::null())
                .spawn()
                .expect("spawn child");
            let deadline = std::time::Instant::now() + std::time::Duration::from_secs(120);
            let status = loop {
                match ch.try_wait().expect("wait child") {
                    Some(s) => break Some(s),
                    None => {
                        if std::time::Instant::now() > deadline {
                            let _ = ch.kill();
                            let _ = ch.wait();
                            break None;
                        }
                        std::thread::sleep(std::time::Duration::from_millis(2));
                    }
                }
            };
            let text = std::fs::read_to_string(&outp).unwrap_or_default();
            let mut last_prog = skip;
            let mut any = false;
            for line in text.lines() {
                if let Ok(v) = serde_json::from_str::<Value>(line) {
                    if v["ev"] == "reset" {
                        last_prog = v["prog"].as_u64().unwrap_or(skip as u64) as usize;
                        any = true;
                    }
                    w.put(&v);
                }
            }
            let ok = status.map(|s| s.success()).unwrap_or(false);
            if ok {
                break;
            }
            // abnormal end of the child: the program that was running is a crashed (or hung) run
            if !any || last_prog < skip {
                w.put(&json!({"ev": "reset", "dom": "str", "esz": 1, "hdr": 16, "al": 8, "cnt": 0, "hel": 0, "fcap": 0, "prog": skip, "src": "crash"}));
                last_prog = skip;
            }
            match status {
                Some(s) => {
                    stats.crashes += 1;
                    #[cfg(unix)]
                    let sig = {
                        use std::os::unix::process::ExitStatusExt;
                        s.signal().unwrap_or(0)
                    };
                    #[cfg(not(unix))]
                    let sig = 0;
                    w.put(&json!({"ev": "crash", "code": s.code().unwrap_or(-1), "sig": sig, "prog": start + last_prog}));
                }
                None => {
                    stats.hangs += 1;
                    w.put(&json!({"ev": "hang", "prog": start + last_prog}));
                }
            }
            skip = last_prog + 1;
        }
        let _ = std::fs::remove_file(&inp);
        let _ = std::fs::remove_file(&outp);
        start = end;
    }
    stats
}

fn main() {
    let args = vh::Args::parse();
    let mode = args.pos.get(0).map(|s| s.as_str()).unwrap_or("record").to_string();
    if mode == "child" {
        child(args.get("in").expect("--in"), args.get("out").expect("--out"), args.num("skip", 0usize));
        return;
    }
    let seed = vh::seed(1);
    let mut rng = vh::rng(seed);
    let out = args.get("out").unwrap_or("c14.ndjson").to_string();
    let mut w = vh::trace::Writer::create(&out);
    let mut summary = json!({"mode": mode, "seed": seed});
    let progs: Vec<Value> = match mode.as_str() {
        "record" => {
            let runs: usize = args.num("runs", 100);
            let par: usize = args.num("par", 3);
            let mut v = vec![];
            for k in 0..runs {
                let dom = ["slice", "str", "key"][k % 3];
                v.push(random_program(&mut rng, dom));
            }
            for k in 0..par {
                let dom = ["slice", "str", "key"][k % 3];
                v.push(json!({"mode": "par", "dom": dom, "threads": rng.random_range(2..=6), "iters": rng.random_range(200..=1500)}));
            }
            if args.has("dump") {
                let mut f = std::fs::File::create(args.get("dump").unwrap()).unwrap();
                for p in &v {
                    writeln!(f, "{}", p).unwrap();
                }
            }
            v
        }
        "replay" => {
            let inp = args.get("in").expect("--in");
            let text = std::fs::read_to_string(inp).unwrap();
            text.lines().filter(|l| !l.trim().is_empty()).map(|l| serde_json::from_str(l).expect("program json")).collect()
        }
        _ => {
            eprintln!("unknown mode {mode}");
            std::process::exit(2);
        }
    };
    let distinct: std::collections::HashSet<String> = progs.iter().map(|p| p.to_string()).collect();
    let nops: usize = progs.iter().map(|p| p["ops"].as_array().map(|a| a.len()).unwrap_or(0)).sum();
    let st = run_batches(&progs, &mut w, &out);
    summary["programs"] = json!(st.programs);
    summary["distinct_programs"] = json!(distinct.len());
    summary["ops"] = json!(nops);
    summary["crashes"] = json!(st.crashes);
    summary["hangs"] = json!(st.hangs);
    summary["children"] = json!(st.children);
    summary["lines"] = json!(w.lines);
    w.finish();
    println!("{}", summary);
}
