//! C10 driver: DogStatsD client-side aggregation (storage.rs / state.rs) under the scheduler,
//! plus a black-box end-to-end mode through real sockets.
//!
//!   c10 record --runs N --out F [--mode aggressive|conservative]
//!   c10 replay --in P --out F
//!   c10 e2e --runs N --out F
//!
//! ids: updaters 1..3, flusher 9. Keys: counters c1,c2; gauge g1; histogram h1.
use metrics::{Counter, Gauge, Histogram, Key, Label, Level, Metadata, Recorder};
use metrics_exporter_dogstatsd::verif_driver::{Driver, StateConfiguration};
use metrics_exporter_dogstatsd::AggregationMode;
use rand::Rng;
use serde_json::{json, Value};
use std::collections::HashMap;
use vh::sched::{Ev, RandomChooser, Sched, Stop, Waiting};
use vh::trace::Writer;

#[derive(Clone, Debug)]
struct Op {
    kind: u8, // 1 inc, 2 abs, 3 gset, 4 gadd, 5 gsub, 6 hrec
    key: usize,
    val: i64,
}

#[derive(Clone, Debug)]
struct Scenario {
    aggressive: bool,
    as_dist: bool,
    prefix: bool,
    labels: bool,
    nc: usize,
    warm: Vec<Op>,
    progs: Vec<Vec<Op>>, // per updater
    flushes: usize,
    setup_flush: bool,
    sched: Option<Vec<(usize, String)>>,
}

struct Handles {
    c: Vec<Counter>,
    g: Vec<Gauge>,
    h: Vec<Histogram>,
}

fn apply(hs: &Handles, op: &Op) {
    metrics::verif::point("op.begin.post", &[op.kind as i64, op.key as i64, op.val]);
    match op.kind {
        1 => hs.c[op.key - 1].increment(op.val as u64),
        2 => hs.c[op.key - 1].absolute(op.val as u64),
        3 => hs.g[op.key - 1].set(op.val as f64),
        4 => hs.g[op.key - 1].increment(op.val as f64),
        5 => hs.g[op.key - 1].decrement(op.val as f64),
        _ => hs.h[op.key - 1].record(op.val as f64),
    }
    metrics::verif::point("op.end.post", &[op.kind as i64]);
}

fn mk_handles(rec: &dyn Recorder, nc: usize) -> Handles {
    let md = Metadata::new("t", Level::INFO, None);
    let own = vec![Label::new("own", "1")];
    Handles {
        c: (1..=nc).map(|i| rec.register_counter(&Key::from_parts(format!("c{i}"), own.clone()), &md)).collect(),
        g: vec![rec.register_gauge(&Key::from_parts("g1", own.clone()), &md)],
        h: vec![rec.register_histogram(&Key::from_parts("h1", own.clone()), &md)],
    }
}

/// Parse one DogStatsD payload (possibly several lines) into (kind, key, values, has_ts, fmt_ok).
fn parse_payload(p: &[u8], sc: &Scenario) -> Vec<Value> {
    let text = String::from_utf8_lossy(p);
    let mut out = vec![];
    for line in text.split_inclusive('\n') {
        let ok_nl = line.ends_with('\n');
        let line = line.trim_end_matches('\n');
        let parts: Vec<&str> = line.split('|').collect();
        let (name, vals) = match parts[0].split_once(':') {
            Some(x) => x,
            None => {
                out.push(json!({"bad": line}));
                continue;
            }
        };
        let ty = parts.get(1).copied().unwrap_or("");
        let base = if sc.prefix { name.strip_prefix("pre.").unwrap_or("!") } else { name };
        let mut tags = "";
        let mut ts = false;
        let mut rate = false;
        for x in &parts[2..] {
            if let Some(t) = x.strip_prefix('#') {
                tags = t;
            } else if x.starts_with('T') {
                ts = true;
            } else if x.starts_with('@') {
                rate = true;
            }
        }
        let want_tags = if sc.labels { "glob:9,own:1" } else { "own:1" };
        let fmt_ok = ok_nl && tags == want_tags && !rate && base.len() == 2;
        let key: i64 = base.get(1..).and_then(|s| s.parse().ok()).unwrap_or(-1);
        let kind = match (base.get(..1), ty) {
            (Some("c"), "c") => "c",
            (Some("g"), "g") => "g",
            (Some("h"), "h") if !sc.as_dist => "h",
            (Some("h"), "d") if sc.as_dist => "h",
            _ => "?",
        };
        let values: Vec<i64> = vals
            .split(':')
            .map(|v| if kind == "c" { v.parse::<u64>().map(|x| x as i64).unwrap_or(i64::MIN) } else { v.parse::<f64>().map(|x| x as i64).unwrap_or(i64::MIN) })
            .collect();
        out.push(json!({"kind": kind, "key": key, "vals": values, "ts": ts, "fmt_ok": fmt_ok}));
    }
    out
}

fn site_of(pc: &str) -> Option<&'static str> {
    Some(match pc {
        "i1" => "dsd.c.inc.isabs.pre",
        "i2" => "dsd.c.inc.cur.pre",
        "i3" => "dsd.c.inc.upd.pre",
        "a1" => "dsd.c.abs.swap.pre",
        "a2" => "dsd.c.abs.last.pre",
        "a3" => "dsd.c.abs.cur.pre",
        "a4" => "dsd.c.abs.upd.pre",
        "g1" => "dsd.g.set.pre",
        "ga1" => "dsd.g.add.pre",
        "g2" => "dsd.g.upd.pre",
        "c_pick" => "dsd.c.fl.cur.pre",
        "c_last" => "dsd.c.fl.last.pre",
        "c_upd" => "dsd.c.fl.upd.pre",
        "g_pick" => "dsd.g.fl.cur.pre",
        "g_upd" => "dsd.g.fl.upd.pre",
        "begin" => "op.sched.pre",
        "idle" => "flush.sched.pre",
        _ => return None,
    })
}

fn run(sc: &Scenario, rng: &mut rand::rngs::StdRng) -> (Vec<Value>, Stop, bool) {
    let cfg = StateConfiguration {
        agg_mode: if sc.aggressive { AggregationMode::Aggressive } else { AggregationMode::Conservative },
        telemetry: false,
        histogram_sampling: false,
        histogram_reservoir_size: 8,
        histograms_as_distributions: sc.as_dist,
        global_labels: if sc.labels { vec![Label::new("glob", "9")] } else { vec![] },
        global_prefix: if sc.prefix { Some("pre".to_string()) } else { None },
    };
    let mut driver = Driver::new(cfg, 8192, false);
    let rec = driver.recorder();
    let handles = std::sync::Arc::new(mk_handles(&rec, sc.nc));
    // warm-up operations: sequential, logged like any other step (binds storage addresses to keys)
    let setup_log: std::rc::Rc<std::cell::RefCell<Vec<Ev>>> = Default::default();
    {
        let l = setup_log.clone();
        let l2 = setup_log.clone();
        metrics::verif::install(Box::new(move |site, args| {
            if site.starts_with("dsd.") || site.starts_with("op.") || site.starts_with("flush.") {
                let p = if site.contains(".fl.") || site.starts_with("flush.") { 9 } else { 1 };
                l.borrow_mut().push(Ev { p, ev: site.to_string(), a: args.to_vec() });
            }
        }));
        if sc.setup_flush {
            // a first flush of the fresh registry: every counter reports its initial zero, which also tells which
            // storage address belongs to which key (messages come out in the order the storages are flushed)
            metrics::verif::point("flush.begin.post", &[]);
            let payloads = driver.flush_once();
            let msgs: Vec<Value> = payloads.iter().flat_map(|p| parse_payload(p, sc)).collect();
            l2.borrow_mut().push(Ev { p: 9, ev: format!("flush.end.post#{}", serde_json::to_string(&msgs).unwrap()), a: vec![] });
        }
        for op in &sc.warm {
            apply(&handles, op);
        }
        metrics::verif::clear();
    }
    let nw = sc.progs.len() + 1;
    let s = Sched::new_filtered(nw, false, &["dsd.", "op.", "flush."]);
    let mut hs = vec![];
    for (i, prog) in sc.progs.iter().enumerate() {
        let u = i + 1;
        let h = handles.clone();
        let prog = prog.clone();
        hs.push(s.spawn(u, move || {
            for op in &prog {
                metrics::verif::point("op.sched.pre", &[]);
                apply(&h, op);
            }
        }));
    }
    let nfl = sc.flushes;
    let sc2 = sc.clone();
    let slog = s.clone();
    hs.push(s.spawn(9, move || {
        for _ in 0..nfl {
            metrics::verif::point("flush.sched.pre", &[]);
            metrics::verif::point("flush.begin.post", &[]);
            let payloads = driver.flush_once();
            let msgs: Vec<Value> = payloads.iter().flat_map(|p| parse_payload(p, &sc2)).collect();
            // structured event (not only integers): appended through the scheduler's log as a JSON string argument
            slog.log(9, &format!("flush.end.post#{}", serde_json::to_string(&msgs).unwrap()), &[]);
        }
    }));
    let mut diverged = false;
    let stop = {
        let mut r2 = rng.clone();
        let mut rc = RandomChooser::new(&mut r2);
        let mut pos = 0usize;
        let sched = sc.sched.clone();
        let mut choose = |w: &Waiting| -> usize {
            if let Some((&t, _)) = w.iter().find(|(_, (s, _))| s == "start.pre") {
                return t;
            }
            if let (Some(sch), false) = (&sched, diverged) {
                while pos < sch.len() && site_of(&sch[pos].1).is_none() {
                    pos += 1;
                }
                if pos < sch.len() {
                    let (p, pcn) = &sch[pos];
                    match w.get(p) {
                        Some((site, _)) if site == site_of(pcn).unwrap() => {
                            pos += 1;
                            return *p;
                        }
                        _ => diverged = true,
                    }
                }
            }
            rc.choose(w)
        };
        s.run(20_000, &mut choose)
    };
    let _: u64 = rng.random();
    match stop {
        Stop::Done => {
            for h in hs {
                let _ = h.join();
            }
        }
        _ => s.release_all(),
    }
    let mut ev = vec![json!({"p": 0, "ev": "reset", "a": [sc.aggressive as i64, sc.nc]})];
    let mut log: Vec<Ev> = setup_log.borrow().clone();
    log.extend(s.take_log());
    // bind storage addresses to keys: an op's begin event names the key, the next dsd.* event of that thread carries the address
    let mut names: HashMap<(char, i64), i64> = HashMap::new(); // (kind, ptr) -> key
    let mut pending: HashMap<usize, (char, i64)> = HashMap::new();
    for e in &log {
        if e.ev == "op.begin.post" {
            let kind = match e.a[0] {
                1 | 2 => 'c',
                3 | 4 | 5 => 'g',
                _ => 'h',
            };
            pending.insert(e.p, (kind, e.a[1]));
        } else if e.ev.starts_with("dsd.") && !e.a.is_empty() && e.p != 9 {
            if let Some((kind, key)) = pending.get(&e.p) {
                names.entry((*kind, e.a[0])).or_insert(*key);
            }
        }
    }
    if sc.setup_flush {
        let mut cptrs = vec![];
        let mut gptrs = vec![];
        for e in &log {
            if e.ev == "dsd.c.fl.cur.pre" {
                cptrs.push(e.a[0]);
            } else if e.ev == "dsd.g.fl.cur.pre" {
                gptrs.push(e.a[0]);
            } else if let Some(js) = e.ev.strip_prefix("flush.end.post#") {
                let msgs: Value = serde_json::from_str(js).unwrap();
                let ck: Vec<i64> = msgs.as_array().unwrap().iter().filter(|m| m["kind"] == "c").map(|m| m["key"].as_i64().unwrap()).collect();
                let gk: Vec<i64> = msgs.as_array().unwrap().iter().filter(|m| m["kind"] == "g").map(|m| m["key"].as_i64().unwrap()).collect();
                if ck.len() == cptrs.len() {
                    for (p, k) in cptrs.iter().zip(ck.iter()) {
                        names.entry(('c', *p)).or_insert(*k);
                    }
                }
                if gk.len() == gptrs.len() {
                    for (p, k) in gptrs.iter().zip(gk.iter()) {
                        names.entry(('g', *p)).or_insert(*k);
                    }
                }
                break; // only the setup flush
            }
        }
    }
    for e in &log {
        if let Some(js) = e.ev.strip_prefix("flush.end.post#") {
            let msgs: Value = serde_json::from_str(js).unwrap();
            ev.push(json!({"p": 9, "ev": "flush.end.post", "a": [], "msgs": msgs}));
            continue;
        }
        let mut a = e.a.clone();
        if e.ev.starts_with("dsd.") && !a.is_empty() {
            let kind = if e.ev.starts_with("dsd.c.") { 'c' } else { 'g' };
            let ptr = a[0];
            a[0] = match names.get(&(kind, ptr)) {
                Some(k) => *k,
                None => {
                    // elimination: exactly one key of that kind never touched by an updater
                    let total = if kind == 'c' { sc.nc as i64 } else { 1 };
                    let used: Vec<i64> = names.iter().filter(|((k, _), _)| *k == kind).map(|(_, v)| *v).collect();
                    let free: Vec<i64> = (1..=total).filter(|k| !used.contains(k)).collect();
                    if free.len() == 1 {
                        names.insert((kind, ptr), free[0]);
                        free[0]
                    } else {
                        -1
                    }
                }
            };
        }
        ev.push(json!({"p": e.p, "ev": e.ev, "a": a}));
    }
    ev.push(match stop {
        Stop::Done => json!({"p": 0, "ev": "final", "a": []}),
        Stop::Budget => json!({"p": 0, "ev": "livelock", "a": []}),
        Stop::Stuck => json!({"p": 0, "ev": "stuck", "a": []}),
    });
    (ev, stop, diverged)
}

fn random_scenario(rng: &mut rand::rngs::StdRng, aggressive: bool) -> Scenario {
    let nc = rng.random_range(1..=2usize);
    // per counter key: 0 = increments only, 1 = absolutes only (single writer), 2 = mixed
    let style: Vec<u8> = (0..nc).map(|_| [0u8, 0, 1, 1, 2][rng.random_range(0..5)]).collect();
    let nu = rng.random_range(1..=3usize);
    let mut abs_next = vec![0i64; nc];
    let mut progs: Vec<Vec<Op>> = vec![vec![]; nu];
    let mut warm = vec![];
    // warm-up: at most one counter stays untouched so that addresses can be named by elimination
    let untouched = if rng.random_range(0..3) == 0 { rng.random_range(0..nc) } else { usize::MAX };
    for k in 0..nc {
        if k == untouched && nc > 1 {
            continue;
        }
        if k == untouched {
            continue;
        }
        match style[k] {
            1 => {
                if rng.random_range(0..2) == 0 {
                    abs_next[k] += rng.random_range(1..=4);
                    warm.push(Op { kind: 2, key: k + 1, val: abs_next[k] });
                }
            }
            _ => {
                if rng.random_range(0..2) == 0 {
                    warm.push(Op { kind: 1, key: k + 1, val: rng.random_range(1..=4) });
                }
            }
        }
    }
    for u in 0..nu {
        let n = rng.random_range(1..=3usize);
        for _ in 0..n {
            let r = rng.random_range(0..10);
            let op = if r < 6 {
                let k = rng.random_range(0..nc);
                match style[k] {
                    0 => Op { kind: 1, key: k + 1, val: rng.random_range(1..=4) },
                    1 => {
                        if u == 0 {
                            // single writer, non-decreasing values (a counter)
                            abs_next[k] += rng.random_range(0..=3);
                            Op { kind: 2, key: k + 1, val: abs_next[k].max(1) }
                        } else {
                            Op { kind: 4, key: 1, val: rng.random_range(1..=3) }
                        }
                    }
                    _ => {
                        if u != 0 || rng.random_range(0..2) == 0 {
                            Op { kind: 1, key: k + 1, val: rng.random_range(1..=4) }
                        } else {
                            // absolute values come from a single writer and never decrease
                            abs_next[k] += rng.random_range(0..=3);
                            Op { kind: 2, key: k + 1, val: abs_next[k].max(1) }
                        }
                    }
                }
            } else if r < 8 {
                Op { kind: rng.random_range(3..=5), key: 1, val: rng.random_range(1..=5) }
            } else {
                Op { kind: 6, key: 1, val: rng.random_range(1..=5) }
            };
            if op.kind == 2 {
                abs_next[op.key - 1] = abs_next[op.key - 1].max(op.val);
            }
            progs[u].push(op);
        }
    }
    // storages never touched by any operation can only be told apart through a first flush of the fresh registry
    let touched: std::collections::HashSet<usize> =
        warm.iter().chain(progs.iter().flatten()).filter(|o| o.kind <= 2).map(|o| o.key).collect();
    let setup_flush = nc - touched.len() >= 2 || rng.random_range(0..3) == 0;
    Scenario {
        aggressive,
        as_dist: rng.random_range(0..2) == 0,
        prefix: rng.random_range(0..2) == 0,
        labels: rng.random_range(0..2) == 0,
        nc,
        warm,
        progs,
        flushes: rng.random_range(1..=4),
        setup_flush,
        sched: None,
    }
}

fn parse_ops(v: &Value) -> Vec<Op> {
    v.as_array()
        .map(|a| {
            a.iter()
                .map(|o| Op {
                    kind: match o["kind"].as_str().unwrap() {
                        "inc" => 1,
                        "abs" => 2,
                        "gset" => 3,
                        "gadd" => 4,
                        _ => 6,
                    },
                    key: o["key"].as_u64().unwrap() as usize,
                    val: o["val"].as_i64().unwrap(),
                })
                .collect()
        })
        .unwrap_or_default()
}

// ---------------------------------------------------------------------------------------------
// end-to-end: the real exporter (DogStatsDBuilder, background thread, real sockets)

fn e2e_one(rng: &mut rand::rngs::StdRng, idx: usize, dir: &str) -> Value {
    use std::io::Read;
    use std::time::{Duration, Instant};
    let transport = idx % 3; // 0 udp, 1 unixgram, 2 unix stream
    let aggressive = rng.random_range(0..2) == 0;
    let path = format!("{dir}/dsd_{}_{idx}.sock", std::process::id());
    let _ = std::fs::remove_file(&path);
    let (tx, rx) = std::sync::mpsc::channel::<Vec<u8>>();
    let stopf = std::sync::Arc::new(std::sync::atomic::AtomicBool::new(false));
    let mut frames_bad = 0usize;
    let addr: String;
    let listener_h;
    match transport {
        0 => {
            let sock = std::net::UdpSocket::bind("127.0.0.1:0").unwrap();
            sock.set_read_timeout(Some(Duration::from_millis(20))).unwrap();
            addr = format!("udp://{}", sock.local_addr().unwrap());
            let stopf = stopf.clone();
            listener_h = std::thread::spawn(move || {
                let mut buf = vec![0u8; 65536];
                while !stopf.load(std::sync::atomic::Ordering::Relaxed) {
                    if let Ok(n) = sock.recv(&mut buf) {
                        let _ = tx.send(buf[..n].to_vec());
                    }
                }
                0usize
            });
        }
        1 => {
            let sock = std::os::unix::net::UnixDatagram::bind(&path).unwrap();
            sock.set_read_timeout(Some(Duration::from_millis(20))).unwrap();
            addr = format!("unixgram://{path}");
            let stopf = stopf.clone();
            listener_h = std::thread::spawn(move || {
                let mut buf = vec![0u8; 65536];
                while !stopf.load(std::sync::atomic::Ordering::Relaxed) {
                    if let Ok(n) = sock.recv(&mut buf) {
                        let _ = tx.send(buf[..n].to_vec());
                    }
                }
                0usize
            });
        }
        _ => {
            let l = std::os::unix::net::UnixListener::bind(&path).unwrap();
            l.set_nonblocking(true).unwrap();
            addr = format!("unix://{path}");
            let stopf = stopf.clone();
            listener_h = std::thread::spawn(move || {
                let mut bad = 0usize;
                let mut conns: Vec<(std::os::unix::net::UnixStream, Vec<u8>)> = vec![];
                while !stopf.load(std::sync::atomic::Ordering::Relaxed) {
                    if let Ok((c, _)) = l.accept() {
                        c.set_read_timeout(Some(Duration::from_millis(5))).unwrap();
                        c.set_nonblocking(false).unwrap();
                        conns.push((c, vec![]));
                    }
                    for (c, acc) in conns.iter_mut() {
                        let mut buf = [0u8; 4096];
                        if let Ok(n) = c.read(&mut buf) {
                            acc.extend_from_slice(&buf[..n]);
                        }
                        // de-frame: u32 LE length then payload
                        loop {
                            if acc.len() < 4 {
                                break;
                            }
                            let n = u32::from_le_bytes([acc[0], acc[1], acc[2], acc[3]]) as usize;
                            if n == 0 || n > 8192 {
                                bad += 1;
                                acc.clear();
                                break;
                            }
                            if acc.len() < 4 + n {
                                break;
                            }
                            let _ = tx.send(acc[4..4 + n].to_vec());
                            acc.drain(..4 + n);
                        }
                    }
                    std::thread::sleep(Duration::from_millis(1));
                }
                bad + conns.iter().filter(|(_, a)| !a.is_empty()).count()
            });
        }
    }
    let builder = metrics_exporter_dogstatsd::DogStatsDBuilder::default()
        .with_remote_address(&addr)
        .unwrap()
        .with_telemetry(false)
        .with_aggregation_mode(if aggressive { AggregationMode::Aggressive } else { AggregationMode::Conservative })
        .with_flush_interval(Duration::from_millis(25))
        .send_histograms_as_distributions(false)
        .with_histogram_sampling(false);
    let recorder = match builder.build() {
        Ok(r) => r,
        Err(e) => return json!({"p": 0, "ev": "e2e", "a": [], "error": format!("{e}")}),
    };
    let md = Metadata::new("t", Level::INFO, None);
    let c = recorder.register_counter(&Key::from_name("c1"), &md);
    let g = recorder.register_gauge(&Key::from_name("g1"), &md);
    let h = recorder.register_histogram(&Key::from_name("h1"), &md);
    let n_threads = rng.random_range(2..=4usize);
    let per = rng.random_range(2_000..=20_000usize);
    let mut total = 0u64;
    let mut ths = vec![];
    let mut hvals = vec![];
    for t in 0..n_threads {
        let c = c.clone();
        let incs: Vec<u64> = (0..per).map(|_| rng.random_range(1..=9u64)).collect();
        total += incs.iter().sum::<u64>();
        let h = h.clone();
        let hv: Vec<i64> = (0..3).map(|i| (t * 10 + i + 1) as i64).collect();
        hvals.extend(hv.clone());
        ths.push(std::thread::spawn(move || {
            for (i, v) in incs.iter().enumerate() {
                c.increment(*v);
                if i % 4000 == 3999 {
                    std::thread::sleep(Duration::from_millis(3));
                }
            }
            // histogram values are recorded in a quiet moment of their own cycle (no concurrent flush of h by design
            // cannot be guaranteed; only schedule-independent facts are asserted on them)
            for v in hv {
                h.record(v as f64);
            }
        }));
    }
    for t in ths {
        t.join().unwrap();
    }
    let last_gauge = rng.random_range(1..=99i64);
    g.set(1000.0);
    g.set(last_gauge as f64);
    // wait until the counter total arrived, then a few quiet flush intervals
    let deadline = Instant::now() + Duration::from_secs(10);
    let mut csum = 0i64;
    let mut cmsgs = 0usize;
    let mut zeros_after_total = 0usize;
    let mut gvals: Vec<i64> = vec![];
    let mut hgot: Vec<i64> = vec![];
    let mut ts_seen = vec![];
    let mut neg = 0usize;
    let mut unparsed = 0usize;
    let sc = Scenario { aggressive, as_dist: false, prefix: false, labels: false, nc: 1, warm: vec![], progs: vec![], flushes: 0, setup_flush: false, sched: None };
    let mut quiet_since: Option<Instant> = None;
    loop {
        match rx.recv_timeout(Duration::from_millis(30)) {
            Ok(p) => {
                for m in parse_payload(&p, &sc) {
                    match m["kind"].as_str() {
                        Some("c") => {
                            let v = m["vals"][0].as_i64().unwrap();
                            if v < 0 {
                                neg += 1;
                            }
                            if csum == total as i64 && v == 0 {
                                zeros_after_total += 1;
                            }
                            csum += v;
                            cmsgs += 1;
                            ts_seen.push(m["ts"].as_bool().unwrap());
                        }
                        Some("g") => {
                            gvals.push(m["vals"][0].as_i64().unwrap());
                            ts_seen.push(m["ts"].as_bool().unwrap());
                        }
                        Some("h") => hgot.extend(m["vals"].as_array().unwrap().iter().map(|x| x.as_i64().unwrap())),
                        _ => unparsed += 1,
                    }
                }
            }
            Err(_) => {}
        }
        if csum >= total as i64 && hgot.len() >= hvals.len() && gvals.last() == Some(&last_gauge) {
            let q = quiet_since.get_or_insert_with(Instant::now);
            if q.elapsed() > Duration::from_millis(200) {
                break;
            }
        }
        if Instant::now() > deadline {
            break;
        }
    }
    stopf.store(true, std::sync::atomic::Ordering::Relaxed);
    frames_bad += listener_h.join().unwrap_or(0);
    let _ = std::fs::remove_file(&path);
    std::mem::forget(recorder); // the exporter thread keeps running until the process ends
    hgot.sort();
    hvals.sort();
    let _ = cmsgs;
    json!({"p": 0, "ev": "e2e", "a": [], "transport": transport, "aggressive": aggressive, "total": total, "csum": csum,
           "neg": neg, "zeros_after_total": zeros_after_total, "last_gauge": last_gauge,
           "gauge_last_seen": gvals.last().cloned().unwrap_or(-1), "hist_sent": hvals, "hist_got": hgot,
           "ts_all": ts_seen.iter().all(|x| *x), "ts_none": ts_seen.iter().all(|x| !*x), "frames_bad": frames_bad, "unparsed": unparsed})
}


// ---------------------------------------------------------------------------------------------
// raw histogram vs flush, at the granularity of the bucket's atomic operations: the events are those of
// bucket.rs (C05) and the run is validated against Bucket.tla (TraceBucket): every recorded value is sent by
// exactly one flush or is still in the bucket. Process ids follow Bucket.tla: pushers 1..3, flusher = clearer 4,
// its is_empty() calls = 6.

fn bucket_ptr_args(site: &str) -> &'static [usize] {
    match site {
        "blk.len.pre" | "blk.wr.pre" | "blk.claim.pre" | "blk.claim.post" | "blk.write.pre" | "blk.ack.pre"
        | "blk.ack.post" | "blk.nextlen.pre" | "blk.nextlen.post" | "push.load.post" | "push.casnew.post"
        | "push.casfull.pre" | "clr.load.post" | "clr.cas.pre" | "clr.next.pre" | "clr.next.post"
        | "rd.load.post" | "rd.next.pre" | "rd.next.post" | "ie.load.post" => &[0],
        "push.casfull.post" => &[1],
        _ => &[],
    }
}

fn run_hist(rng: &mut rand::rngs::StdRng) -> (Vec<Value>, Stop) {
    let cfg = StateConfiguration {
        agg_mode: AggregationMode::Conservative,
        telemetry: false,
        histogram_sampling: false,
        histogram_reservoir_size: 8,
        histograms_as_distributions: rng.random_range(0..2) == 0,
        global_labels: vec![],
        global_prefix: None,
    };
    let driver = Driver::new(cfg, 8192, false);
    let rec = driver.recorder();
    let md = Metadata::new("t", Level::INFO, None);
    let h = rec.register_histogram(&Key::from_name("h1"), &md);
    let prefill = [0usize, 0, 1, 61, 62, 62, 63, 63, 64][rng.random_range(0..9)];
    for j in 0..prefill {
        h.record((1000 + j) as f64);
    }
    let np = rng.random_range(1..=2usize);
    let nfl = rng.random_range(1..=3usize);
    let s = Sched::new_filtered(np + 1, false, &["push.", "blk.", "clr.", "rd.", "ie.", "hist.", "flush."]);
    let mut hs = vec![];
    for p in 1..=np {
        let h = h.clone();
        let n = rng.random_range(1..=3usize);
        hs.push(s.spawn(p, move || {
            for i in 1..=n {
                h.record((p * 10 + i) as f64);
                metrics::verif::point("push.done.post", &[(p * 10 + i) as i64]);
            }
        }));
    }

    let driver = std::sync::Arc::new(std::sync::Mutex::new(driver));
    // one whole flush through State::flush, its histogram values logged as `flush.vals.post`
    fn flush_and_log(driver: &std::sync::Mutex<Driver>, slog: &Sched) {
        metrics::verif::point("flush.begin.post", &[]);
        let payloads = driver.lock().unwrap().flush_once();
        let mut vals: Vec<i64> = vec![];
        let mut bad = 0i64;
        for p in &payloads {
            let text = String::from_utf8_lossy(p);
            for line in text.lines() {
                let first = line.split('|').next().unwrap_or("");
                match first.split_once(':') {
                    Some(("h1", vs)) => {
                        for v in vs.split(':') {
                            match v.parse::<f64>() {
                                Ok(x) => vals.push(x as i64),
                                Err(_) => bad += 1,
                            }
                        }
                    }
                    _ => bad += 1,
                }
            }
        }
        if bad > 0 {
            slog.log(4, "flush.bad.post", &[bad]);
        }
        slog.log(4, "flush.vals.post", &vals);
    }
    {
        let (slog, driver) = (s.clone(), driver.clone());
        hs.push(s.spawn(4, move || {
            for _ in 0..nfl {
                flush_and_log(&driver, &slog);
            }
        }));
    }
    let stop = {
        let mut r2 = rng.clone();
        let mut rc = RandomChooser::new(&mut r2);
        let mut choose = |w: &Waiting| -> usize {
            if let Some((&t, _)) = w.iter().find(|(_, (s, _))| s == "start.pre") {
                return t;
            }
            rc.choose(w)
        };
        s.run(20_000, &mut choose)
    };
    let _: u64 = rng.random();
    match stop {
        Stop::Done => {
            for h in hs {
                let _ = h.join();
            }
        }
        _ => s.release_all(),
    }
    // afterwards, with every pusher finished: two more whole flushes by a thread of its own (scheduled alone, so its
    // bucket steps are logged like the others). Whatever was recorded must have been sent by now - a histogram that
    // State::flush keeps skipping although its bucket holds values shows up here.
    let mut log = s.take_log();
    let mut drained = false;
    if matches!(stop, Stop::Done) {
        let s2 = Sched::new_filtered(1, false, &["push.", "blk.", "clr.", "rd.", "ie.", "hist.", "flush."]);
        let (slog, driver) = (s2.clone(), driver.clone());
        let h2 = s2.spawn(4, move || {
            for _ in 0..2 {
                flush_and_log(&driver, &slog);
            }
        });
        let mut first = |w: &Waiting| -> usize { *w.keys().next().unwrap() };
        if matches!(s2.run(20_000, &mut first), Stop::Done) {
            let _ = h2.join();
            drained = true;
        } else {
            s2.release_all();
        }
        log.extend(s2.take_log().into_iter().filter(|e| e.ev != "start.pre"));
    }
    let mut namer = vh::trace::Namer::new();
    let mut ev = vec![json!({"p": 0, "ev": "reset", "a": [prefill]})];
    let mut in_empty = false;
    for e in &log {
        let site = e.ev.as_str();
        if site == "blk.drop.post" {
            continue;
        }
        if site == "blk.dropped.post" {
            namer.retire(e.a[0]);
            continue;
        }
        let mut p = e.p;
        if p == 4 {
            if site == "ie.load.pre" {
                in_empty = true;
            } else if site == "clr.load.pre" || site == "flush.vals.post" || site == "flush.begin.post" {
                in_empty = false;
            }
            if in_empty {
                p = 6;
            }
        }
        let mut a = e.a.clone();
        for &i in bucket_ptr_args(site) {
            a[i] = namer.name(a[i]);
        }
        ev.push(json!({"p": p, "ev": site, "a": a}));
    }
    ev.push(match stop {
        Stop::Done => json!({"p": 0, "ev": "quiet", "a": [drained as i64]}),
        Stop::Budget => json!({"p": 0, "ev": "livelock", "a": []}),
        Stop::Stuck => json!({"p": 0, "ev": "stuck", "a": []}),
    });
    (ev, stop)
}

// ---------------------------------------------------------------------------------------------
// forwarder: reconnect / drop behaviour against an agent that goes away and comes back (unix sockets)

static FWD_LOG: std::sync::Mutex<Vec<(i64, i64)>> = std::sync::Mutex::new(Vec::new());
static FWD_TID: std::sync::Mutex<Option<std::thread::ThreadId>> = std::sync::Mutex::new(None);

fn fwd_one(rng: &mut rand::rngs::StdRng, idx: usize, dir: &str) -> Vec<Value> {
    use std::io::Read;
    use std::time::{Duration, Instant};
    let stream = idx % 2 == 1;
    let path = format!("{dir}/fwd_{}_{idx}.sock", std::process::id());
    let _ = std::fs::remove_file(&path);
    let mut ev = vec![json!({"p": 0, "ev": "reset", "a": [stream as i64]})];
    FWD_LOG.lock().unwrap().clear();
    *FWD_TID.lock().unwrap() = None;
    // the agent: a thread owning the socket(s); commands through a channel
    let (ctx, crx) = std::sync::mpsc::channel::<bool>(); // true = up, false = down
    let (atx, arx) = std::sync::mpsc::channel::<()>(); // acknowledgements
    let got: std::sync::Arc<std::sync::Mutex<Vec<i64>>> = Default::default();
    let got2 = got.clone();
    let stopf = std::sync::Arc::new(std::sync::atomic::AtomicBool::new(false));
    let stop2 = stopf.clone();
    let path2 = path.clone();
    let agent = std::thread::spawn(move || {
        let mut dg: Option<std::os::unix::net::UnixDatagram> = None;
        let mut ls: Option<std::os::unix::net::UnixListener> = None;
        let mut conns: Vec<(std::os::unix::net::UnixStream, Vec<u8>)> = vec![];
        let mut buf = vec![0u8; 65536];
        let parse = |p: &[u8], got: &std::sync::Mutex<Vec<i64>>| {
            let t = String::from_utf8_lossy(p);
            for line in t.lines() {
                if let Some(v) = line.strip_prefix("c1:").and_then(|r| r.split('|').next()).and_then(|v| v.parse::<i64>().ok()) {
                    got.lock().unwrap().push(v);
                } else {
                    got.lock().unwrap().push(-1);
                }
            }
        };
        while !stop2.load(std::sync::atomic::Ordering::Relaxed) {
            if let Ok(upcmd) = crx.try_recv() {
                if upcmd {
                    let _ = std::fs::remove_file(&path2);
                    if stream {
                        let l = std::os::unix::net::UnixListener::bind(&path2).unwrap();
                        l.set_nonblocking(true).unwrap();
                        ls = Some(l);
                    } else {
                        let d = std::os::unix::net::UnixDatagram::bind(&path2).unwrap();
                        d.set_read_timeout(Some(Duration::from_millis(2))).unwrap();
                        dg = Some(d);
                    }
                } else {
                    dg = None;
                    ls = None;
                    conns.clear();
                    let _ = std::fs::remove_file(&path2);
                }
                let _ = atx.send(());
            }
            if let Some(d) = &dg {
                if let Ok(n) = d.recv(&mut buf) {
                    parse(&buf[..n], &got2);
                }
            } else if let Some(l) = &ls {
                if let Ok((c, _)) = l.accept() {
                    c.set_read_timeout(Some(Duration::from_millis(2))).unwrap();
                    conns.push((c, vec![]));
                }
                for (c, acc) in conns.iter_mut() {
                    if let Ok(n) = c.read(&mut buf) {
                        acc.extend_from_slice(&buf[..n]);
                    }
                    while acc.len() >= 4 {
                        let n = u32::from_le_bytes([acc[0], acc[1], acc[2], acc[3]]) as usize;
                        if acc.len() < 4 + n {
                            break;
                        }
                        parse(&acc[4..4 + n], &got2);
                        acc.drain(..4 + n);
                    }
                }
                if conns.is_empty() {
                    std::thread::sleep(Duration::from_millis(1));
                }
            } else {
                std::thread::sleep(Duration::from_millis(1));
            }
        }
    });
    ctx.send(true).unwrap();
    arx.recv().unwrap();
    let addr = if stream { format!("unix://{path}") } else { format!("unixgram://{path}") };
    let recorder = match metrics_exporter_dogstatsd::DogStatsDBuilder::default()
        .with_remote_address(&addr)
        .unwrap()
        .with_telemetry(false)
        .with_flush_interval(Duration::from_millis(15))
        .build()
    {
        Ok(r) => r,
        Err(e) => {
            ev.push(json!({"p": 0, "ev": "build_error", "a": [], "e": format!("{e}")}));
            return ev;
        }
    };
    let md = Metadata::new("t", Level::INFO, None);
    let c = recorder.register_counter(&Key::from_name("c1"), &md);
    let nsteps = rng.random_range(4..=9usize);
    let mut up = true;
    let mut attempts_seen = 0usize;
    let mut timed_out = false;
    for id in 1..=nsteps as i64 {
        // toggle the agent only while the forwarder is idle (no payload is attempted between emissions)
        if rng.random_range(0..3) == 0 {
            up = !up;
            ctx.send(up).unwrap();
            arx.recv().unwrap();
            ev.push(json!({"p": 0, "ev": if up { "agent.up" } else { "agent.down" }, "a": []}));
        }
        c.increment(id as u64 * 10);
        // the delta, then one zero: two payload attempts
        let t0 = Instant::now();
        loop {
            let n = FWD_LOG.lock().unwrap().len();
            if n >= attempts_seen + 2 {
                break;
            }
            if t0.elapsed() > Duration::from_secs(10) {
                timed_out = true;
                break;
            }
            std::thread::sleep(Duration::from_millis(2));
        }
        let log = FWD_LOG.lock().unwrap().clone();
        for (okk, len) in &log[attempts_seen.min(log.len())..] {
            ev.push(json!({"p": 9, "ev": "fwd.send.post", "a": [okk, len]}));
        }
        attempts_seen = log.len();
        if timed_out {
            break;
        }
    }
    std::thread::sleep(Duration::from_millis(60));
    stopf.store(true, std::sync::atomic::Ordering::Relaxed);
    let _ = agent.join();
    let _ = std::fs::remove_file(&path);
    let total_attempts = FWD_LOG.lock().unwrap().len();
    let extra = total_attempts - attempts_seen.min(total_attempts);
    ev.push(json!({"p": 0, "ev": "agent.got", "a": got.lock().unwrap().clone(), "extra_attempts": extra, "timed_out": timed_out}));
    std::mem::forget(recorder);
    ev
}

// ---------------------------------------------------------------------------------------------
// sampled histograms (histogram_sampling = true): sequential record / flush cycles through State::flush;
// what each flush sent (values and the |@rate token) is checked against the accounting identities that hold
// with sampling on: no more than the reservoir size, only values recorded in that cycle, all of them when the
// cycle recorded no more than the reservoir size, rate = sent / recorded.

/// Look-up, increment, drop: several threads use `register_counter(key).increment(1)` (what `counter!(..).increment(1)` does)
/// without keeping handles, with quiet gaps long enough for a key to go idle for several flushes, while flushes run back to
/// back. Schedule-independent fact at the end: per key, the deltas sent add up to the increments made.
fn lookup_one(rng: &mut rand::rngs::StdRng) -> Value {
    use std::sync::atomic::{AtomicBool, Ordering::SeqCst};
    use std::time::{Duration, Instant};
    let cfg = StateConfiguration {
        agg_mode: AggregationMode::Conservative,
        telemetry: false,
        histogram_sampling: false,
        histogram_reservoir_size: 8,
        histograms_as_distributions: false,
        global_labels: vec![],
        global_prefix: None,
    };
    let mut driver = Driver::new(cfg, 8192, false);
    const NK: usize = 32;
    let names: Vec<String> = (0..NK).map(|i| format!("lk{i}")).collect();
    let stop = std::sync::Arc::new(AtomicBool::new(false));
    let nthreads = 6;
    let mut hs = vec![];
    for t in 0..nthreads {
        let rec = driver.recorder();
        let (stop, names) = (stop.clone(), names.clone());
        let mut r = vh::rng(rng.random::<u64>() ^ t as u64);
        hs.push(std::thread::spawn(move || {
            let md = Metadata::new("t", Level::INFO, None);
            let mut made = vec![0i64; NK];
            while !stop.load(SeqCst) {
                let k = r.random_range(0..NK);
                rec.register_counter(&Key::from_name(names[k].clone()), &md).increment(1);
                made[k] += 1;
                match r.random_range(0..10) {
                    0..=3 => std::thread::sleep(Duration::from_micros(r.random_range(100..1500))),
                    4 | 5 => std::thread::yield_now(),
                    _ => {}
                }
            }
            made
        }));
    }
    let mut sent = vec![0i64; NK];
    let mut bad = 0i64;
    let mut flushes = 0i64;
    let absorb = |payloads: Vec<Vec<u8>>, sent: &mut Vec<i64>, bad: &mut i64| {
        for p in &payloads {
            for line in String::from_utf8_lossy(p).lines() {
                let first = line.split('|').next().unwrap_or("");
                match first.split_once(':') {
                    Some((n, v)) => match (n.strip_prefix("lk").and_then(|x| x.parse::<usize>().ok()), v.parse::<i64>()) {
                        (Some(k), Ok(x)) if k < NK && line.contains("|c") => sent[k] += x,
                        _ => *bad += 1,
                    },
                    None => *bad += 1,
                }
            }
        }
    };
    let t0 = Instant::now();
    while t0.elapsed() < Duration::from_millis(1500) {
        absorb(driver.flush_once(), &mut sent, &mut bad);
        flushes += 1;
        std::thread::sleep(Duration::from_micros(150));
    }
    stop.store(true, SeqCst);
    let mut made = vec![0i64; NK];
    for h in hs {
        if let Ok(m) = h.join() {
            for k in 0..NK {
                made[k] += m[k];
            }
        }
    }
    for _ in 0..3 {
        absorb(driver.flush_once(), &mut sent, &mut bad);
        flushes += 1;
    }
    json!({"p": 0, "ev": "lookup", "a": [nthreads, flushes, bad], "made": made, "sent": sent})
}

fn sampled_one(rng: &mut rand::rngs::StdRng) -> Value {
    let cap = [1usize, 2, 3, 4, 8][rng.random_range(0..5)];
    let cfg = StateConfiguration {
        agg_mode: AggregationMode::Conservative,
        telemetry: false,
        histogram_sampling: true,
        histogram_reservoir_size: cap,
        histograms_as_distributions: rng.random_range(0..2) == 0,
        global_labels: vec![],
        global_prefix: None,
    };
    let mut driver = Driver::new(cfg, 8192, false);
    let rec = driver.recorder();
    let md = Metadata::new("t", Level::INFO, None);
    let h = rec.register_histogram(&Key::from_name("h1"), &md);
    let cycles = rng.random_range(2..=5usize);
    let mut out = vec![];
    let mut next = 1i64;
    for _ in 0..cycles {
        let n = rng.random_range(0..=(2 * cap + 2));
        let recorded: Vec<i64> = (0..n).map(|_| { next += 1; next }).collect();
        for v in &recorded {
            h.record(*v as f64);
        }
        let payloads = driver.flush_once();
        let mut sent: Vec<i64> = vec![];
        let mut rates: Vec<i64> = vec![];
        let mut bad = 0;
        for p in &payloads {
            for line in String::from_utf8_lossy(p).lines() {
                let parts: Vec<&str> = line.split('|').collect();
                match parts[0].split_once(':') {
                    Some(("h1", vs)) => {
                        for v in vs.split(':') {
                            match v.parse::<f64>() { Ok(x) => sent.push(x as i64), Err(_) => bad += 1 }
                        }
                        match parts.iter().find(|x| x.starts_with('@')).and_then(|r| r[1..].parse::<f64>().ok()) {
                            Some(r) => rates.push((r * 1_000_000.0).round() as i64),
                            None => rates.push(-1),
                        }
                    }
                    _ => bad += 1,
                }
            }
        }
        out.push(json!({"recorded": recorded, "sent": sent, "rates": rates, "bad": bad}));
    }
    json!({"p": 0, "ev": "sampled", "a": [cap], "cycles": out})
}

fn main() {
    let args = vh::Args::parse();
    let mode = args.pos.get(0).map(|s| s.as_str()).unwrap_or("record").to_string();
    let seed = vh::seed(1);
    let mut rng = vh::rng(seed);
    let aggressive = args.get("mode").unwrap_or("aggressive") == "aggressive";
    let out = args.get("out").unwrap_or("c10.ndjson").to_string();
    let mut w = Writer::create(&out);
    let mut summary = json!({"mode": mode, "seed": seed, "aggressive": aggressive});
    let mut distinct = std::collections::HashSet::new();
    match mode.as_str() {
        "record" => {
            let runs: usize = args.num("runs", 200);
            let mut bad = 0;
            for _ in 0..runs {
                let sc = random_scenario(&mut rng, aggressive);
                let (ev, stop, _) = run(&sc, &mut rng);
                if !matches!(stop, Stop::Done) {
                    bad += 1;
                }
                distinct.insert(ev.iter().map(|e| format!("{}{};", e["p"], e["ev"].as_str().unwrap())).collect::<String>());
                for e in &ev {
                    w.put(e);
                }
            }
            summary["runs"] = json!(runs);
            summary["not_done"] = json!(bad);
        }
        "replay" => {
            let text = std::fs::read_to_string(args.get("in").expect("--in")).unwrap();
            let (mut n, mut div) = (0, 0);
            for line in text.lines().filter(|l| !l.trim().is_empty()) {
                let v: Value = serde_json::from_str(line).unwrap();
                let progs: Vec<Vec<Op>> = v["progs"].as_array().unwrap().iter().map(parse_ops).collect();
                let sc = Scenario {
                    aggressive: v["aggressive"].as_bool().unwrap_or(true),
                    as_dist: false,
                    prefix: false,
                    labels: false,
                    nc: v["nc"].as_u64().unwrap() as usize,
                    warm: vec![],
                    progs,
                    flushes: v["flushes"].as_u64().unwrap() as usize,
                    setup_flush: false,
                    sched: v["sched"].as_array().map(|a| {
                        a.iter().map(|e| (e[0].as_u64().unwrap() as usize, e[1].as_str().unwrap().to_string())).collect()
                    }),
                };
                if sc.aggressive != aggressive {
                    continue;
                }
                let (ev, _, d) = run(&sc, &mut rng);
                n += 1;
                div += d as usize;
                for e in &ev {
                    w.put(e);
                }
            }
            summary["runs"] = json!(n);
            summary["diverged"] = json!(div);
        }
        "fwd" => {
            let runs: usize = args.num("runs", 8);
            let dir = args.get("dir").unwrap_or("/tmp").to_string();
            metrics::verif::install_global(Some(Box::new(|site, a| {
                if site == "fwd.send.post" {
                    // only the newest exporter's forwarder thread is recorded (older ones cannot be stopped)
                    let me = std::thread::current().id();
                    let mut cur = FWD_TID.lock().unwrap_or_else(|e| e.into_inner());
                    if cur.is_none() {
                        *cur = Some(me);
                    }
                    if *cur == Some(me) {
                        FWD_LOG.lock().unwrap_or_else(|e| e.into_inner()).push((a[0], a[1]));
                    }
                }
            })));
            for i in 0..runs {
                for e in fwd_one(&mut rng, i, &dir) {
                    w.put(&e);
                }
            }
            summary["runs"] = json!(runs);
        }
        "lookup" => {
            let runs: usize = args.num("runs", 3);
            for _ in 0..runs {
                let e = lookup_one(&mut rng);
                w.put(&e);
            }
            summary["runs"] = json!(runs);
        }
        "sampled" => {
            let runs: usize = args.num("runs", 100);
            for _ in 0..runs {
                let e = sampled_one(&mut rng);
                w.put(&e);
            }
            summary["runs"] = json!(runs);
        }
        "hist" => {
            let runs: usize = args.num("runs", 100);
            let mut bad = 0;
            for _ in 0..runs {
                let (ev, stop) = run_hist(&mut rng);
                if !matches!(stop, Stop::Done) {
                    bad += 1;
                }
                distinct.insert(ev.iter().map(|e| format!("{}{};", e["p"], e["ev"].as_str().unwrap())).collect::<String>());
                for e in &ev {
                    w.put(e);
                }
            }
            summary["runs"] = json!(runs);
            summary["not_done"] = json!(bad);
        }
        "e2e" => {
            let runs: usize = args.num("runs", 6);
            let dir = args.get("dir").unwrap_or("/tmp").to_string();
            for i in 0..runs {
                let e = e2e_one(&mut rng, i, &dir);
                w.put(&e);
            }
            summary["runs"] = json!(runs);
        }
        _ => {
            eprintln!("unknown mode");
            std::process::exit(2);
        }
    }
    summary["distinct"] = json!(distinct.len());
    summary["lines"] = json!(w.lines);
    w.finish();
    println!("{}", summary);
}
