//! C04 driver: Counter / Gauge / Histogram handles over the standard atomic storage.
//!
//!   c04 replay --in P --out F     TLC-generated operation sequences (SimHandles.tla), sequential
//!   c04 record --runs N --out F   seeded random sequential programs
//!   c04 par    --runs N --out F   real-parallel hammering of clones of one handle; per-run summaries
//!   c04 lin    --runs N --out F   real-parallel short histories with start/end tickets
//!
//! World (must match TraceHT in specs/Handles/TraceHandles.tla):
//!   1 Counter::from_arc(c1)  2 clone of 1  3 Counter::noop()  4 Counter::from(c2)
//!   5 Gauge::from_arc(g3)    6 clone of 5  7 Gauge::noop()    8 Gauge::from(g4)
//!   9 Histogram::from_arc(loop probe s5)  10 clone of 9  11 from_arc(overriding probe s6)
//!   12 Histogram::noop()  13 Histogram::from_arc(Arc<Arc<overriding probe s7>>)
//!
//! Value mapping (DESIGN 3.5): counter ring value x in 0..16000 = hi*1000 + lo (|lo| < 500)
//! <-> hi*2^60 + lo mod 2^64 (15999 <-> u64::MAX); f64 model integer n <-> n/4,
//! 1000001 = NaN, 1000002 = +Inf, 1000003 = -Inf, 1000004 = -0.0 (0 is +0.0: bit-exact); count 2000000 <-> usize::MAX.
use metrics::{Counter, Gauge, Histogram, HistogramFn};
use rand::Rng;
use serde_json::{json, Value};
use std::collections::HashMap;
use std::panic::{catch_unwind, AssertUnwindSafe};
use std::sync::atomic::{AtomicBool, AtomicU64, AtomicUsize, Ordering};
use std::sync::{Arc, Mutex};
use std::time::Duration;
use vh::trace::Writer;

const NAN: i64 = 1_000_001;
const PINF: i64 = 1_000_002;
const NINF: i64 = 1_000_003;
const NZERO: i64 = 1_000_004; // -0.0 (model 0 is +0.0: the mapping is one-to-one on bit patterns, NaN payloads aside)
const BIGN: i64 = 2_000_000;
const UNMAPPED: i64 = -7_777_777;
const RING: i64 = 16_000;

// ------------------------------------------------------------------ value mapping
fn ring_to_u64(x: i64) -> u64 {
    let x = x.rem_euclid(RING);
    let hi = (x + 500).div_euclid(1000);
    let lo = x - hi * 1000;
    (((hi % 16) as u64) << 60).wrapping_add(lo as u64)
}
/// (hi, lo) with value = hi*2^60 + lo mod 2^64, lo in [-2^59, 2^59)
fn u64_to_hilo(c: u64) -> (i64, i64) {
    let l = (c & ((1u64 << 60) - 1)) as i64;
    let lo = if l >= (1i64 << 59) { l - (1i64 << 60) } else { l };
    let hi = (c.wrapping_sub(lo as u64) >> 60) & 15;
    (hi as i64, lo)
}
fn hilo_to_u64(hi: i64, lo: i64) -> u64 {
    ((hi as u64 & 15) << 60).wrapping_add(lo as u64)
}
fn u64_to_ring(c: u64) -> i64 {
    let (hi, lo) = u64_to_hilo(c);
    if lo.abs() >= 500 {
        return UNMAPPED;
    }
    (hi * 1000 + lo).rem_euclid(RING)
}
fn model_to_f64(a: i64) -> f64 {
    match a {
        NAN => f64::NAN,
        PINF => f64::INFINITY,
        NINF => f64::NEG_INFINITY,
        NZERO => -0.0,
        _ => a as f64 / 4.0,
    }
}
fn f64_to_model(g: f64) -> i64 {
    if g.is_nan() {
        NAN
    } else if g == f64::INFINITY {
        PINF
    } else if g == f64::NEG_INFINITY {
        NINF
    } else if g.to_bits() == (-0.0f64).to_bits() {
        NZERO
    } else {
        let q = g * 4.0;
        if q.fract() == 0.0 && q.abs() < 2.0e9 {
            q as i64
        } else {
            UNMAPPED
        }
    }
}
fn count_to_model(n: usize) -> i64 {
    if n == usize::MAX {
        BIGN
    } else if n < 1_000_000 {
        n as i64
    } else {
        UNMAPPED
    }
}
fn model_to_count(n: i64) -> usize {
    if n == BIGN {
        usize::MAX
    } else {
        n as usize
    }
}

// ------------------------------------------------------------------ probes
/// HistogramFn with the DEFAULT record_many (the loop in handles.rs)
#[derive(Default)]
struct ProbeLoop {
    calls: Mutex<Vec<(f64, usize)>>,
}
impl HistogramFn for ProbeLoop {
    fn record(&self, value: f64) {
        self.calls.lock().unwrap().push((value, 1));
    }
}
/// HistogramFn that overrides record_many
#[derive(Default)]
struct ProbeMany {
    calls: Mutex<Vec<(f64, usize)>>,
}
impl HistogramFn for ProbeMany {
    fn record(&self, value: f64) {
        self.calls.lock().unwrap().push((value, 1));
    }
    fn record_many(&self, value: f64, count: usize) {
        self.calls.lock().unwrap().push((value, count));
    }
}
fn drain(m: &Mutex<Vec<(f64, usize)>>) -> Value {
    let v: Vec<(f64, usize)> = std::mem::take(&mut *m.lock().unwrap());
    Value::Array(v.iter().map(|(x, n)| json!([f64_to_model(*x), count_to_model(*n)])).collect())
}

// ------------------------------------------------------------------ typed arguments (IntoF64)
#[derive(Clone, Debug)]
struct Op {
    h: usize,
    op: String,
    ty: String,
    a: i64,
    b: i64,
    n: i64,
}
impl Op {
    fn json(&self) -> Value {
        json!({"h": self.h, "op": self.op, "ty": self.ty, "a": self.a, "b": self.b, "n": self.n})
    }
    fn parse(v: &Value) -> Op {
        Op {
            h: v["h"].as_u64().unwrap() as usize,
            op: v["op"].as_str().unwrap().to_string(),
            ty: v["ty"].as_str().unwrap().to_string(),
            a: v["a"].as_i64().unwrap(),
            b: v["b"].as_i64().unwrap(),
            n: v["n"].as_i64().unwrap(),
        }
    }
}

/// calls `$f(x)` with x of the Rust type named by op.ty (each arm is a separate monomorphization of IntoF64)
macro_rules! typed {
    ($o:expr, $x:ident => $body:expr) => {
        match $o.ty.as_str() {
            "f64" => { let $x = model_to_f64($o.a); $body }
            "f32" => { let $x = model_to_f64($o.a) as f32; $body }
            "i8" => { let $x = $o.a as i8; assert_eq!($x as i64, $o.a); $body }
            "u8" => { let $x = $o.a as u8; assert_eq!($x as i64, $o.a); $body }
            "i16" => { let $x = $o.a as i16; assert_eq!($x as i64, $o.a); $body }
            "u16" => { let $x = $o.a as u16; assert_eq!($x as i64, $o.a); $body }
            "i32" => { let $x = $o.a as i32; assert_eq!($x as i64, $o.a); $body }
            "u32" => { let $x = $o.a as u32; assert_eq!($x as i64, $o.a); $body }
            "dur" => { let $x = Duration::new($o.a as u64, ($o.b as u32) * 250_000_000); $body }
            t => { eprintln!("c04: unknown type {}", t); std::process::exit(2) }
        }
    };
}

// ------------------------------------------------------------------ sequential world
struct World {
    c: [Arc<AtomicU64>; 4], // cells 1..4 (1,2 counters; 3,4 gauges)
    s5: Arc<ProbeLoop>,
    s6: Arc<ProbeMany>,
    s7: Arc<ProbeMany>,
    counters: HashMap<usize, Counter>,
    gauges: HashMap<usize, Gauge>,
    hists: HashMap<usize, Histogram>,
}
impl World {
    fn new() -> World {
        let c = [Arc::new(AtomicU64::new(0)), Arc::new(AtomicU64::new(0)), Arc::new(AtomicU64::new(0)), Arc::new(AtomicU64::new(0))];
        let s5 = Arc::new(ProbeLoop::default());
        let s6 = Arc::new(ProbeMany::default());
        let s7 = Arc::new(ProbeMany::default());
        let mut counters = HashMap::new();
        let h1 = Counter::from_arc(c[0].clone());
        counters.insert(2, h1.clone());
        counters.insert(1, h1);
        counters.insert(3, Counter::noop());
        counters.insert(4, Counter::from(c[1].clone()));
        let mut gauges = HashMap::new();
        let h5 = Gauge::from_arc(c[2].clone());
        gauges.insert(6, h5.clone());
        gauges.insert(5, h5);
        gauges.insert(7, Gauge::noop());
        gauges.insert(8, Gauge::from(c[3].clone()));
        let mut hists = HashMap::new();
        let h9 = Histogram::from_arc(s5.clone());
        hists.insert(10, h9.clone());
        hists.insert(9, h9);
        hists.insert(11, Histogram::from_arc(s6.clone()));
        hists.insert(12, Histogram::noop());
        hists.insert(13, Histogram::from_arc(Arc::new(s7.clone())));
        World { c, s5, s6, s7, counters, gauges, hists }
    }
    fn exec(&self, o: &Op) {
        if let Some(c) = self.counters.get(&o.h) {
            let v = ring_to_u64(o.a);
            match o.op.as_str() {
                "inc" => c.increment(v),
                "abs" => c.absolute(v),
                x => panic_tool(x),
            }
        } else if let Some(g) = self.gauges.get(&o.h) {
            match o.op.as_str() {
                "inc" => typed!(o, x => g.increment(x)),
                "dec" => typed!(o, x => g.decrement(x)),
                "set" => typed!(o, x => g.set(x)),
                x => panic_tool(x),
            }
        } else if let Some(h) = self.hists.get(&o.h) {
            match o.op.as_str() {
                "rec" => typed!(o, x => h.record(x)),
                "many" => {
                    let n = model_to_count(o.n);
                    typed!(o, x => h.record_many(x, n))
                }
                x => panic_tool(x),
            }
        } else {
            eprintln!("c04: unknown handle {}", o.h);
            std::process::exit(2);
        }
    }
    fn observe(&self) -> (Value, Value) {
        let cells = json!([
            u64_to_ring(self.c[0].load(Ordering::SeqCst)),
            u64_to_ring(self.c[1].load(Ordering::SeqCst)),
            f64_to_model(f64::from_bits(self.c[2].load(Ordering::SeqCst))),
            f64_to_model(f64::from_bits(self.c[3].load(Ordering::SeqCst))),
        ]);
        let hc = json!([drain(&self.s5.calls), drain(&self.s6.calls), drain(&self.s7.calls)]);
        (cells, hc)
    }
}
fn panic_tool(x: &str) -> ! {
    eprintln!("c04: unknown op {}", x);
    std::process::exit(2)
}

/// runs one sequential program on a fresh world; returns number of panics
fn run_program(ops: &[Op], w: &mut Writer) -> usize {
    let world = World::new();
    w.put(&json!({"ev": "reset", "p": 0, "a": []}));
    let mut panics = 0;
    for o in ops {
        let r = catch_unwind(AssertUnwindSafe(|| world.exec(o)));
        if r.is_err() {
            panics += 1;
            w.put(&json!({"ev": "panic", "p": 1, "o": o.json()}));
            break;
        }
        let (cells, hc) = world.observe();
        w.put(&json!({"ev": "op", "p": 1, "o": o.json(), "cells": cells, "hc": hc}));
    }
    panics
}

// ------------------------------------------------------------------ random sequential programs
const CVALS: [i64; 10] = [0, 1, 2, 1000, 3001, 7999, 8000, 15000, 15998, 15999];
const FVALS: [i64; 11] = [0, NZERO, 0, 1, 2, -6, 10, 67_108_868, NAN, PINF, NINF];

fn random_typed(rng: &mut rand::rngs::StdRng, arith: bool) -> (String, i64, i64) {
    // (ty, a, b); `arith`: the value takes part in additions (keep the sums inside TLC's 32-bit integers)
    match rng.random_range(0..14) {
        0..=4 => ("f64".into(), FVALS[rng.random_range(0..FVALS.len())], 0),
        5 => ("f32".into(), [1, -6, 10, NAN, PINF, NINF, 4 * 16_777_216, 0, NZERO][rng.random_range(0..9)], 0),
        6 => ("i8".into(), [-128, -1, 0, 127][rng.random_range(0..4)], 0),
        7 => ("u8".into(), [0, 1, 255][rng.random_range(0..3)], 0),
        8 => ("i16".into(), [-32768, 32767, 5][rng.random_range(0..3)], 0),
        9 => ("u16".into(), [65535, 0, 7][rng.random_range(0..3)], 0),
        10 => ("i32".into(), if arith { [-16_777_217, 16_777_217, -3][rng.random_range(0..3)] } else { [-100_000_001, 100_000_001, 16_777_217][rng.random_range(0..3)] }, 0),
        11 => ("u32".into(), if arith { [16_777_217, 0, 9][rng.random_range(0..3)] } else { [100_000_001, 16_777_217, 1][rng.random_range(0..3)] }, 0),
        _ => ("dur".into(), rng.random_range(0..4), rng.random_range(0..4)),
    }
}

fn random_op(rng: &mut rand::rngs::StdRng) -> Op {
    let h = rng.random_range(1..=13usize);
    match h {
        1..=4 => Op {
            h,
            op: if rng.random_range(0..3) == 0 { "abs" } else { "inc" }.into(),
            ty: "u64".into(),
            a: CVALS[rng.random_range(0..CVALS.len())],
            b: 0,
            n: 0,
        },
        5..=8 => {
            let op = ["inc", "dec", "set"][rng.random_range(0..3)];
            // one gauge operation in three passes a zero: +0.0 / -0.0 as f64 or f32, an integer zero, the zero Duration
            let (ty, a, b) = if rng.random_range(0..3) == 0 {
                let z: [(&str, i64); 8] = [("f64", 0), ("f64", NZERO), ("f32", 0), ("f32", NZERO), ("u32", 0), ("i8", 0), ("f64", NZERO), ("dur", 0)];
                let (ty, a) = z[rng.random_range(0..z.len())];
                (ty.to_string(), a, 0)
            } else {
                random_typed(rng, op != "set")
            };
            Op { h, op: op.into(), ty, a, b, n: 0 }
        }
        _ => {
            let (ty, a, b) = random_typed(rng, false);
            if rng.random_range(0..2) == 0 {
                Op { h, op: "rec".into(), ty, a, b, n: 1 }
            } else {
                // usize::MAX only where the storage overrides record_many (the default impl would loop for ever)
                let n = if (h == 11 || h == 12) && rng.random_range(0..3) == 0 { BIGN } else { [0, 1, 2, 3, 17][rng.random_range(0..5)] };
                Op { h, op: "many".into(), ty, a, b, n }
            }
        }
    }
}

// ------------------------------------------------------------------ real-parallel: hammer
/// start barrier: every thread announces itself, the main thread releases them together once all are running
static READY: AtomicUsize = AtomicUsize::new(0);
fn spin(go: &AtomicBool) {
    READY.fetch_add(1, Ordering::SeqCst);
    while !go.load(Ordering::Acquire) {
        std::hint::spin_loop();
    }
}
fn release(go: &AtomicBool, n: usize) {
    let mut spins = 0u32;
    while READY.load(Ordering::SeqCst) < n {
        std::hint::spin_loop();
        spins += 1;
        if spins % 1024 == 0 {
            std::thread::yield_now();
        }
    }
    READY.store(0, Ordering::SeqCst);
    go.store(true, Ordering::Release);
}

fn par_cinc(rng: &mut rand::rngs::StdRng) -> Value {
    let nthreads = rng.random_range(8..=16usize);
    let per = rng.random_range(2000..=20000usize);
    let classes: Vec<(i64, i64)> = vec![(0, 1), (1, 0), (8, 0), (0, -1), (15, -1), (7, 3), (0, 0)];
    let cell = Arc::new(AtomicU64::new(0));
    let base = Counter::from_arc(cell.clone());
    let go = Arc::new(AtomicBool::new(false));
    let mut hs = vec![];
    for t in 0..nthreads {
        // clones of one handle, a handle built from the same Arc, and a no-op handle
        let (h, live) = match t % 5 {
            3 => (Counter::from(cell.clone()), true),
            4 => (Counter::noop(), false),
            _ => (base.clone(), true),
        };
        let go = go.clone();
        let cl = classes.clone();
        let seed: u64 = rng.random();
        hs.push(std::thread::spawn(move || {
            let mut r = vh::rng(seed);
            let picks: Vec<usize> = (0..per).map(|_| r.random_range(0..cl.len())).collect();
            let vals: Vec<u64> = cl.iter().map(|(hi, lo)| hilo_to_u64(*hi, *lo)).collect();
            let mut counts = vec![0i64; cl.len()];
            spin(&go);
            for p in picks {
                h.increment(vals[p]);
                counts[p] += 1;
            }
            (counts, live)
        }));
    }
    release(&go, nthreads);
    let mut total = vec![0i64; classes.len()];
    for h in hs {
        let (counts, live) = h.join().unwrap();
        if live {
            for (i, c) in counts.iter().enumerate() {
                total[i] += c;
            }
        }
    }
    let (fh, fl) = u64_to_hilo(cell.load(Ordering::SeqCst));
    let cls: Vec<Value> = classes.iter().zip(total.iter()).map(|((hi, lo), c)| json!([hi, lo, c])).collect();
    json!({"ev": "par.cinc", "p": 0, "threads": nthreads, "per": per, "classes": cls, "fin": [fh, fl]})
}

fn par_cabs(rng: &mut rand::rngs::StdRng) -> Value {
    let nthreads = rng.random_range(8..=16usize);
    let per = rng.random_range(3..=8usize);
    let cell = Arc::new(AtomicU64::new(0));
    let base = Counter::from_arc(cell.clone());
    let go = Arc::new(AtomicBool::new(false));
    let mut hs = vec![];
    for _ in 0..nthreads {
        let h = base.clone();
        let cell = cell.clone();
        let go = go.clone();
        let given: Vec<i64> = (0..per).map(|_| rng.random_range(0..16i64) * 1000 + rng.random_range(-3..=3i64)).map(|x| x.rem_euclid(RING)).collect();
        hs.push(std::thread::spawn(move || {
            let vals: Vec<u64> = given.iter().map(|x| ring_to_u64(*x)).collect();
            let mut reads = Vec::with_capacity(vals.len());
            spin(&go);
            for v in &vals {
                h.absolute(*v);
                reads.push(cell.load(Ordering::SeqCst));
            }
            given.iter().zip(reads.iter()).map(|(g, r)| vec![*g, u64_to_ring(*r)]).collect::<Vec<_>>()
        }));
    }
    release(&go, nthreads);
    let thr: Vec<Vec<Vec<i64>>> = hs.into_iter().map(|h| h.join().unwrap()).collect();
    json!({"ev": "par.cabs", "p": 0, "threads": nthreads, "thr": thr, "fin": u64_to_ring(cell.load(Ordering::SeqCst))})
}

fn par_ginc(rng: &mut rand::rngs::StdRng) -> Value {
    let nthreads = rng.random_range(8..=16usize);
    let per = rng.random_range(2000..=12000usize);
    // (model value, sign, type)
    let mut classes: Vec<(i64, i64, &'static str)> = vec![
        (1, 1, "f64"), (1, -1, "f64"), (-6, 1, "f64"), (10, -1, "f64"), (4, 1, "u8"), (12, -1, "i32"), (5, 1, "dur"), (0, 1, "f64"), (2, -1, "f32"),
    ];
    // now and then a special value: the result is then determined whatever the order (commutative IEEE table)
    match rng.random_range(0..10) {
        0 => classes.push((PINF, 1, "f64")),
        1 => classes.push((PINF, -1, "f64")),
        2 => {
            classes.push((PINF, 1, "f64"));
            classes.push((NINF, 1, "f64"));
        }
        3 => classes.push((NAN, 1, "f64")),
        _ => {}
    }
    let nreg = 9;
    let cell = Arc::new(AtomicU64::new(0));
    let base = Gauge::from_arc(cell.clone());
    let go = Arc::new(AtomicBool::new(false));
    let mut hs = vec![];
    for t in 0..nthreads {
        let (h, live) = match t % 5 {
            3 => (Gauge::from(cell.clone()), true),
            4 => (Gauge::noop(), false),
            _ => (base.clone(), true),
        };
        let go = go.clone();
        let cl = classes.clone();
        let seed: u64 = rng.random();
        hs.push(std::thread::spawn(move || {
            let mut r = vh::rng(seed);
            let picks: Vec<usize> = (0..per).map(|_| if cl.len() > nreg && r.random_range(0..4000) == 0 { r.random_range(nreg..cl.len()) } else { r.random_range(0..nreg) }).collect();
            let mut counts = vec![0i64; cl.len()];
            let ops: Vec<Op> = cl
                .iter()
                .map(|(v, _, ty)| Op {
                    h: 0,
                    op: String::new(),
                    ty: ty.to_string(),
                    a: if *ty == "u8" || *ty == "i32" || *ty == "dur" { v / 4 } else { *v },
                    b: if *ty == "dur" { v % 4 } else { 0 },
                    n: 0,
                })
                .collect();
            spin(&go);
            for p in picks {
                let sign = cl[p].1;
                let o = &ops[p];
                if sign == 1 {
                    typed!(o, x => h.increment(x))
                } else {
                    typed!(o, x => h.decrement(x))
                }
                counts[p] += 1;
            }
            (counts, live)
        }));
    }
    release(&go, nthreads);
    let mut total = vec![0i64; classes.len()];
    for h in hs {
        let (counts, live) = h.join().unwrap();
        if live {
            for (i, c) in counts.iter().enumerate() {
                total[i] += c;
            }
        }
    }
    let cls: Vec<Value> = classes.iter().zip(total.iter()).map(|((v, s, _), c)| json!([v, s, c])).collect();
    json!({"ev": "par.ginc", "p": 0, "threads": nthreads, "per": per, "classes": cls,
           "fin": f64_to_model(f64::from_bits(cell.load(Ordering::SeqCst)))})
}

fn par_gset(rng: &mut rand::rngs::StdRng) -> Value {
    let nthreads = rng.random_range(8..=16usize);
    let per = rng.random_range(3..=50usize);
    let cell = Arc::new(AtomicU64::new(0));
    let base = Gauge::from_arc(cell.clone());
    let go = Arc::new(AtomicBool::new(false));
    let pool = [1i64, -6, 10, 0, NZERO, 333, PINF, NINF, NAN, 67_108_868];
    let mut hs = vec![];
    for _ in 0..nthreads {
        let h = base.clone();
        let go = go.clone();
        let vals: Vec<i64> = (0..per).map(|_| pool[rng.random_range(0..pool.len())]).collect();
        hs.push(std::thread::spawn(move || {
            let fv: Vec<f64> = vals.iter().map(|v| model_to_f64(*v)).collect();
            spin(&go);
            for v in fv {
                h.set(v);
            }
            vals
        }));
    }
    release(&go, nthreads);
    let mut all = std::collections::BTreeSet::new();
    for h in hs {
        for v in h.join().unwrap() {
            all.insert(v);
        }
    }
    json!({"ev": "par.gset", "p": 0, "threads": nthreads, "vals": all.into_iter().collect::<Vec<_>>(),
           "fin": f64_to_model(f64::from_bits(cell.load(Ordering::SeqCst)))})
}

/// concurrent probes: bag of delivered values
#[derive(Default)]
struct BagLoop {
    bag: Mutex<HashMap<u64, u64>>,
    calls: AtomicUsize,
}
impl HistogramFn for BagLoop {
    fn record(&self, value: f64) {
        self.calls.fetch_add(1, Ordering::Relaxed);
        *self.bag.lock().unwrap().entry(value.to_bits()).or_insert(0) += 1;
    }
}
#[derive(Default)]
struct BagMany {
    bag: Mutex<HashMap<u64, u64>>,
    calls: AtomicUsize,
}
impl HistogramFn for BagMany {
    fn record(&self, value: f64) {
        self.calls.fetch_add(1, Ordering::Relaxed);
        *self.bag.lock().unwrap().entry(value.to_bits()).or_insert(0) += 1;
    }
    fn record_many(&self, value: f64, count: usize) {
        self.calls.fetch_add(1, Ordering::Relaxed);
        *self.bag.lock().unwrap().entry(value.to_bits()).or_insert(0) += count as u64;
    }
}

fn par_hist(rng: &mut rand::rngs::StdRng) -> Value {
    let nthreads = rng.random_range(8..=16usize);
    let per = rng.random_range(50..=300usize);
    let which = rng.random_range(0..3);
    let bl = Arc::new(BagLoop::default());
    let bm = Arc::new(BagMany::default());
    let base = match which {
        0 => Histogram::from_arc(bl.clone()),
        1 => Histogram::from_arc(bm.clone()),
        _ => Histogram::from_arc(Arc::new(bm.clone())),
    };
    let vals = [1i64, -6, 10, 0, PINF];
    let go = Arc::new(AtomicBool::new(false));
    let mut hs = vec![];
    for t in 0..nthreads {
        let (h, live) = if t % 5 == 4 { (Histogram::noop(), false) } else { (base.clone(), true) };
        let go = go.clone();
        let seed: u64 = rng.random();
        hs.push(std::thread::spawn(move || {
            let mut r = vh::rng(seed);
            let picks: Vec<(usize, usize)> = (0..per).map(|_| (r.random_range(0..vals.len()), r.random_range(0..6usize))).collect();
            let mut req: HashMap<(i64, usize), i64> = HashMap::new();
            spin(&go);
            for (vi, n) in picks {
                let x = model_to_f64(vals[vi]);
                if n == 5 {
                    h.record(x);
                    *req.entry((vals[vi], 1)).or_insert(0) += 1;
                } else {
                    h.record_many(x, n);
                    *req.entry((vals[vi], n)).or_insert(0) += 1;
                }
            }
            (req, live)
        }));
    }
    release(&go, nthreads);
    let mut req: std::collections::BTreeMap<(i64, usize), i64> = Default::default();
    for h in hs {
        let (r, live) = h.join().unwrap();
        if live {
            for (k, c) in r {
                *req.entry(k).or_insert(0) += c;
            }
        }
    }
    let (bag, calls) = if which == 0 { (bl.bag.lock().unwrap().clone(), bl.calls.load(Ordering::SeqCst)) } else { (bm.bag.lock().unwrap().clone(), bm.calls.load(Ordering::SeqCst)) };
    let mut got: Vec<Vec<i64>> = bag.iter().map(|(b, c)| vec![f64_to_model(f64::from_bits(*b)), *c as i64]).collect();
    got.sort();
    json!({"ev": "par.hist", "p": 0, "threads": nthreads, "storage": which, "calls": calls,
           "req": req.iter().map(|((v, n), c)| json!([v, n, c])).collect::<Vec<_>>(), "got": got})
}

// ------------------------------------------------------------------ real-parallel: short histories
/// Persistent workers released together by a round counter (much tighter start than spawning per trial):
/// every worker runs its two operations on a clone of the same handle, taking a ticket from one global
/// atomic counter before and after each call.
struct LinShared {
    cell: Arc<AtomicU64>,
    ticket: AtomicUsize,
    round: AtomicUsize,
    done: AtomicUsize,
    stop: AtomicBool,
    counter: AtomicBool,
    progs: Vec<Mutex<Vec<(&'static str, i64, u32)>>>,
    outs: Vec<Mutex<Vec<Value>>>,
}

fn lin_worker(sh: Arc<LinShared>, idx: usize) {
    let c = Counter::from_arc(sh.cell.clone()).clone();
    let g = Gauge::from_arc(sh.cell.clone()).clone();
    let mut seen = 0usize;
    loop {
        let mut spins = 0u32;
        while sh.round.load(Ordering::Acquire) == seen {
            if sh.stop.load(Ordering::Relaxed) {
                return;
            }
            std::hint::spin_loop();
            spins += 1;
            if spins % 4096 == 0 {
                std::thread::yield_now();
            }
        }
        seen += 1;
        let prog: Vec<(&'static str, i64, u32)> = sh.progs[idx].lock().unwrap().clone();
        let counter = sh.counter.load(Ordering::Relaxed);
        let mut out = Vec::with_capacity(prog.len());
        for (op, v, jitter) in prog {
            for _ in 0..jitter {
                std::hint::spin_loop();
            }
            let t0 = sh.ticket.fetch_add(1, Ordering::SeqCst);
            let mut res = 0i64;
            match (counter, op) {
                (true, "inc") => c.increment(ring_to_u64(v)),
                (true, "abs") => c.absolute(ring_to_u64(v)),
                (true, _) => res = u64_to_ring(sh.cell.load(Ordering::SeqCst)),
                (false, "inc") => g.increment(model_to_f64(v)),
                (false, "dec") => g.decrement(model_to_f64(v)),
                (false, "set") => g.set(model_to_f64(v)),
                (false, _) => res = f64_to_model(f64::from_bits(sh.cell.load(Ordering::SeqCst))),
            }
            let t1 = sh.ticket.fetch_add(1, Ordering::SeqCst);
            out.push(json!([t0, t1, op, v, res]));
        }
        *sh.outs[idx].lock().unwrap() = out;
        sh.done.fetch_add(1, Ordering::Release);
    }
}

fn lin_trial(rng: &mut rand::rngs::StdRng, sh: &Arc<LinShared>) -> (Value, bool) {
    let nworkers = sh.progs.len();
    let counter = rng.random_range(0..2) == 0;
    let nthreads = rng.random_range(2..=nworkers);
    let cvals = [1i64, 2, 1000, 8000, 15999, 15000];
    let gvals = [1i64, -6, 10, 3, PINF, NINF, 0, NZERO, NZERO];
    for t in 0..nworkers {
        let ops: Vec<(&'static str, i64, u32)> = if t >= nthreads {
            vec![]
        } else {
            (0..2)
                .map(|_| {
                    let j = rng.random_range(0..24u32);
                    if counter {
                        match rng.random_range(0..8) {
                            0..=3 => ("inc", cvals[rng.random_range(0..cvals.len())], j),
                            4..=5 => ("abs", cvals[rng.random_range(0..cvals.len())], j),
                            _ => ("read", 0, j),
                        }
                    } else {
                        match rng.random_range(0..10) {
                            0..=3 => ("inc", gvals[rng.random_range(0..gvals.len())], j),
                            4..=5 => ("dec", gvals[rng.random_range(0..gvals.len())], j),
                            6..=7 => ("set", gvals[rng.random_range(0..gvals.len())], j),
                            _ => ("read", 0, j),
                        }
                    }
                })
                .collect()
        };
        *sh.progs[t].lock().unwrap() = ops;
    }
    sh.cell.store(0, Ordering::SeqCst);
    sh.ticket.store(1, Ordering::SeqCst);
    sh.counter.store(counter, Ordering::SeqCst);
    sh.done.store(0, Ordering::SeqCst);
    sh.round.fetch_add(1, Ordering::Release);
    let mut spins = 0u32;
    while sh.done.load(Ordering::Acquire) < nworkers {
        std::hint::spin_loop();
        spins += 1;
        if spins % 1024 == 0 {
            std::thread::yield_now();
        }
    }
    let mut ops: Vec<Value> = vec![];
    for t in 0..nthreads {
        ops.extend(sh.outs[t].lock().unwrap().drain(..));
    }
    let raw = sh.cell.load(Ordering::SeqCst);
    let fin = if counter { u64_to_ring(raw) } else { f64_to_model(f64::from_bits(raw)) };
    // overlapping = some pair of operations is concurrent (neither finished before the other began)
    let iv: Vec<(u64, u64)> = ops.iter().map(|o| (o[0].as_u64().unwrap(), o[1].as_u64().unwrap())).collect();
    let mut overlap = false;
    for i in 0..iv.len() {
        for j in 0..i {
            if !(iv[i].1 < iv[j].0 || iv[j].1 < iv[i].0) {
                overlap = true;
            }
        }
    }
    (json!({"ev": "lin", "p": 0, "kind": if counter { "counter" } else { "gauge" }, "ops": ops, "fin": fin}), overlap)
}

fn main() {
    let args = vh::Args::parse();
    let mode = args.pos.get(0).map(|s| s.as_str()).unwrap_or("record").to_string();
    let seed = vh::seed(1);
    let mut rng = vh::rng(seed);
    let out = args.get("out").unwrap_or("c04.ndjson").to_string();
    let mut w = Writer::create(&out);
    let mut summary = json!({"mode": mode, "seed": seed});
    std::panic::set_hook(Box::new(|_| {})); // a panic of the code under test is data (a `panic` event)
    match mode.as_str() {
        "replay" => {
            let text = std::fs::read_to_string(args.get("in").expect("--in")).unwrap();
            let (mut n, mut nops, mut panics) = (0, 0, 0);
            let mut distinct = std::collections::HashSet::new();
            for line in text.lines().filter(|l| !l.trim().is_empty()) {
                let v: Value = serde_json::from_str(line).unwrap();
                let ops: Vec<Op> = v["ops"].as_array().unwrap().iter().map(Op::parse).collect();
                panics += run_program(&ops, &mut w);
                nops += ops.len();
                n += 1;
                distinct.insert(line.to_string());
            }
            summary["runs"] = json!(n);
            summary["ops"] = json!(nops);
            summary["panics"] = json!(panics);
            summary["distinct"] = json!(distinct.len());
        }
        "record" => {
            let runs: usize = args.num("runs", 200);
            let (mut nops, mut panics) = (0, 0);
            let mut distinct = std::collections::HashSet::new();
            for _ in 0..runs {
                let len = rng.random_range(3..=20usize);
                let ops: Vec<Op> = (0..len).map(|_| random_op(&mut rng)).collect();
                panics += run_program(&ops, &mut w);
                nops += ops.len();
                distinct.insert(format!("{:?}", ops));
            }
            summary["runs"] = json!(runs);
            summary["ops"] = json!(nops);
            summary["panics"] = json!(panics);
            summary["distinct"] = json!(distinct.len());
        }
        "par" => {
            let runs: usize = args.num("runs", 100);
            let mut by = HashMap::new();
            for i in 0..runs {
                let e = match i % 5 {
                    0 => par_cinc(&mut rng),
                    1 => par_ginc(&mut rng),
                    2 => par_cabs(&mut rng),
                    3 => par_gset(&mut rng),
                    _ => par_hist(&mut rng),
                };
                *by.entry(e["ev"].as_str().unwrap().to_string()).or_insert(0usize) += 1;
                w.put(&json!({"ev": "reset", "p": 0, "a": []}));
                w.put(&e);
            }
            summary["runs"] = json!(runs);
            summary["by_kind"] = json!(by);
        }
        "lin" => {
            let runs: usize = args.num("runs", 1000);
            let mut overlapping = 0;
            let nworkers = 3;
            let sh = Arc::new(LinShared {
                cell: Arc::new(AtomicU64::new(0)),
                ticket: AtomicUsize::new(1),
                round: AtomicUsize::new(0),
                done: AtomicUsize::new(0),
                stop: AtomicBool::new(false),
                counter: AtomicBool::new(true),
                progs: (0..nworkers).map(|_| Mutex::new(vec![])).collect(),
                outs: (0..nworkers).map(|_| Mutex::new(vec![])).collect(),
            });
            let workers: Vec<_> = (0..nworkers)
                .map(|i| {
                    let sh = sh.clone();
                    std::thread::spawn(move || lin_worker(sh, i))
                })
                .collect();
            for _ in 0..runs {
                let (e, ov) = lin_trial(&mut rng, &sh);
                overlapping += ov as usize;
                w.put(&json!({"ev": "reset", "p": 0, "a": []}));
                w.put(&e);
            }
            sh.stop.store(true, Ordering::SeqCst);
            for h in workers {
                let _ = h.join();
            }
            summary["runs"] = json!(runs);
            summary["overlapping"] = json!(overlapping);
        }
        _ => {
            eprintln!("unknown mode");
            std::process::exit(2);
        }
    }
    summary["lines"] = json!(w.lines);
    w.finish();
    println!("{}", summary);
}
