//! C16 driver: AtomicSamplingReservoir.
//!
//!   c16 seq    --cap C --runs N --out F     single-threaded random push/consume programs (every step logged)
//!   c16 record --cap C --runs N --out F     pushers + consumer under the deterministic scheduler
//!   c16 replay --cap C --in P --out F       TLC-generated schedules
//!   c16 stat   --out F                      retention frequencies (informational, never decides)
//!
//! ids: pushers 1..3, consumer 9.
use metrics_util::storage::reservoir::AtomicSamplingReservoir;
use rand::Rng;
use serde_json::{json, Value};
use std::sync::Arc;
use vh::sched::{RandomChooser, Sched, Stop, Waiting};
use vh::trace::Writer;

fn val(p: usize, i: usize) -> f64 {
    (p * 10 + i) as f64
}

fn consume_once(r: &AtomicSamplingReservoir) {
    r.consume(|mut drain| {
        let vals: Vec<f64> = drain.by_ref().collect();
        let rate = drain.sample_rate();
        let mut a: Vec<i64> = vec![(rate * 1_000_000.0).round() as i64];
        // values are small integers (or stale bit patterns): log as integers, anything else as -1
        a.extend(vals.iter().map(|v| if v.fract() == 0.0 && v.abs() < 1e9 { *v as i64 } else { -1 }));
        metrics::verif::point("drain.post", &a);
    });
    metrics::verif::point("consume.done.post", &[]);
}

#[derive(Clone)]
struct Scenario {
    cap: usize,
    nvals: Vec<usize>, // per pusher (index 0 = pusher 1)
    consumes: usize,
    sched: Option<Vec<(usize, String)>>,
}

fn site_of(pc: &str) -> Option<&'static str> {
    Some(match pc {
        "side" => "res.side.pre",
        "claim" => "res.claim.pre",
        "store" => "res.store.pre",
        "swap" => "res.swap.pre",
        "count" => "res.count.pre",
        "read" => "res.read.pre",
        "reset" => "res.reset.pre",
        _ => return None, // draw: internal
    })
}

fn run(sc: &Scenario, rng: &mut rand::rngs::StdRng, free: bool) -> (Vec<Value>, Stop, bool) {
    let res = Arc::new(AtomicSamplingReservoir::new(sc.cap));
    let nw = sc.nvals.len() + (sc.consumes > 0) as usize;
    let s = Sched::new(nw, free);
    let mut hs = vec![];
    for (pi, &n) in sc.nvals.iter().enumerate() {
        let p = pi + 1;
        let r = res.clone();
        hs.push(s.spawn(p, move || {
            for i in 1..=n {
                r.push(val(p, i));
                metrics::verif::point("push.done.post", &[val(p, i) as i64]);
            }
        }));
    }
    if sc.consumes > 0 {
        let r = res.clone();
        let n = sc.consumes;
        hs.push(s.spawn(9, move || {
            for _ in 0..n {
                consume_once(&r);
            }
        }));
    }
    let mut diverged = false;
    let stop = if free {
        s.wait_all();
        Stop::Done
    } else {
        let mut r2 = rng.clone();
        let mut rc = RandomChooser::new(&mut r2);
        let mut pos = 0usize;
        let sched = sc.sched.clone();
        let mut choose = |w: &Waiting| -> usize {
            if let Some((&t, _)) = w.iter().find(|(_, (s, _))| s == "start.pre") {
                return t;
            }
            if let (Some(sch), false) = (&sched, diverged) {
                while pos < sch.len() && site_of(&sch[pos].1).is_none() {
                    pos += 1;
                }
                if pos < sch.len() {
                    let (p, pcn) = &sch[pos];
                    match w.get(p) {
                        Some((site, _)) if site == site_of(pcn).unwrap() => {
                            pos += 1;
                            return *p;
                        }
                        _ => diverged = true,
                    }
                }
            }
            rc.choose(w)
        };
        s.run(20_000, &mut choose)
    };
    let _: u64 = rng.random();
    match stop {
        Stop::Done => {
            for h in hs {
                let _ = h.join();
            }
        }
        _ => s.release_all(),
    }
    let mut ev = vec![json!({"p": 0, "ev": "reset", "a": [sc.cap]})];
    ev.extend(s.take_log().iter().map(|e| e.json()));
    ev.push(match stop {
        Stop::Done => json!({"p": 0, "ev": "final", "a": []}),
        Stop::Budget => json!({"p": 0, "ev": "livelock", "a": []}),
        Stop::Stuck => json!({"p": 0, "ev": "stuck", "a": []}),
    });
    (ev, stop, diverged)
}

/// Two consumers whose calls overlap in time, built from the public API only: consumer 9's closure holds the drain
/// (and, in the code as written, the reservoir's swap lock) until the pusher has pushed a second batch; consumer 8
/// calls consume() meanwhile. Free-running with handshakes: by construction only one thread acts at a time as long as
/// consume() serialises its callers, so the log order is the real order; a consume() that lets the second consumer in
/// while the first closure is still running shows up as a `res.swap.pre` in the middle of the first drain.
fn run_overlap(cap: usize, rng: &mut rand::rngs::StdRng) -> Vec<Value> {
    use std::sync::atomic::{AtomicBool, Ordering::SeqCst};
    use std::time::{Duration, Instant};
    let res = Arc::new(AtomicSamplingReservoir::new(cap));
    let s = Sched::new(3, true);
    let k1 = rng.random_range(0..=cap / 2);
    let k2 = rng.random_range(1..=(cap / 2).max(1));
    let third = rng.random_range(0..2) == 0; // a third batch after the first consume returned
    let flag = || Arc::new(AtomicBool::new(false));
    let (p1_done, a_in, b_in, p2_done, a_ret, b_ret) = (flag(), flag(), flag(), flag(), flag(), flag());
    let wait = |f: &AtomicBool, ms: u64| {
        let t = Instant::now();
        while !f.load(SeqCst) && t.elapsed() < Duration::from_millis(ms) {
            std::thread::sleep(Duration::from_micros(200));
        }
        f.load(SeqCst)
    };
    let mut hs = vec![];
    {
        let (r, p1_done, a_in, b_in, p2_done, a_ret) = (res.clone(), p1_done.clone(), a_in.clone(), b_in.clone(), p2_done.clone(), a_ret.clone());
        hs.push(s.spawn(1, move || {
            let mut i = 0;
            for _ in 0..k1 {
                i += 1;
                r.push(val(1, i));
                metrics::verif::point("push.done.post", &[val(1, i) as i64]);
            }
            p1_done.store(true, SeqCst);
            wait(&a_in, 20_000);
            // give the second consumer time to get in, if the implementation lets it
            wait(&b_in, 100);
            for _ in 0..k2 {
                i += 1;
                r.push(val(1, i));
                metrics::verif::point("push.done.post", &[val(1, i) as i64]);
            }
            p2_done.store(true, SeqCst);
            if third {
                wait(&a_ret, 20_000);
            }
        }));
    }
    let log_drain = |drain: &mut metrics_util::storage::reservoir::Drain<'_>| {
        let vals: Vec<f64> = drain.by_ref().collect();
        let rate = drain.sample_rate();
        let mut a: Vec<i64> = vec![(rate * 1_000_000.0).round() as i64];
        a.extend(vals.iter().map(|v| if v.fract() == 0.0 && v.abs() < 1e9 { *v as i64 } else { -1 }));
        metrics::verif::point("drain.post", &a);
    };
    {
        let (r, p1_done, a_in, p2_done, a_ret, b_ret) = (res.clone(), p1_done.clone(), a_in.clone(), p2_done.clone(), a_ret.clone(), b_ret.clone());
        hs.push(s.spawn(9, move || {
            wait(&p1_done, 20_000);
            r.consume(|mut drain| {
                a_in.store(true, SeqCst);
                wait(&p2_done, 20_000);
                log_drain(&mut drain);
            });
            metrics::verif::point("consume.ret.post", &[9]);
            a_ret.store(true, SeqCst);
            wait(&b_ret, 20_000);
            r.consume(|mut drain| log_drain(&mut drain));
            metrics::verif::point("consume.ret.post", &[9]);
        }));
    }
    {
        let (r, a_in, b_in, b_ret) = (res.clone(), a_in.clone(), b_in.clone(), b_ret.clone());
        hs.push(s.spawn(8, move || {
            wait(&a_in, 20_000);
            r.consume(|mut drain| {
                b_in.store(true, SeqCst);
                log_drain(&mut drain);
            });
            metrics::verif::point("consume.ret.post", &[8]);
            b_ret.store(true, SeqCst);
        }));
    }
    s.wait_all();
    for h in hs {
        let _ = h.join();
    }
    let mut ev = vec![json!({"p": 0, "ev": "reset", "a": [cap]})];
    ev.extend(s.take_log().iter().map(|e| e.json()));
    ev.push(json!({"p": 0, "ev": "overlap.final", "a": [k1 + k2, 3]}));
    ev
}

/// A push made from a thread-local destructor while its thread exits (a per-thread "record a last sample on exit" guard),
/// installed before the thread's first push so that it is destroyed after anything the pushes themselves put into
/// thread-local storage: pushing never panics, whatever else has been torn down, and the value counts like any other.
fn run_tls(cap: usize, n: usize) -> Value {
    use std::cell::RefCell;
    use std::sync::atomic::{AtomicUsize, Ordering::SeqCst};
    struct ExitGuard {
        res: Arc<AtomicSamplingReservoir>,
        panicked: Arc<AtomicUsize>,
    }
    impl Drop for ExitGuard {
        fn drop(&mut self) {
            let r = self.res.clone();
            if std::panic::catch_unwind(std::panic::AssertUnwindSafe(move || r.push(777.0))).is_err() {
                self.panicked.fetch_add(1, SeqCst);
            }
        }
    }
    thread_local! { static EXIT: RefCell<Option<ExitGuard>> = RefCell::new(None); }
    let res = Arc::new(AtomicSamplingReservoir::new(cap));
    let panicked = Arc::new(AtomicUsize::new(0));
    let (r2, p2) = (res.clone(), panicked.clone());
    let prev = std::panic::take_hook();
    std::panic::set_hook(Box::new(|_| {}));
    let joined = std::thread::spawn(move || {
        EXIT.with(|e| *e.borrow_mut() = Some(ExitGuard { res: r2.clone(), panicked: p2 }));
        for i in 0..n {
            r2.push(i as f64);
        }
    })
    .join()
    .is_ok();
    std::panic::set_hook(prev);
    let (mut len, mut rate) = (0usize, 0i64);
    let prev2 = std::panic::take_hook();
    std::panic::set_hook(Box::new(|_| {}));
    let drained = std::panic::catch_unwind(std::panic::AssertUnwindSafe(|| {
        res.consume(|mut d| {
            len = d.by_ref().count();
            rate = (d.sample_rate() * 1_000_000.0).round() as i64;
        })
    }))
    .is_ok();
    std::panic::set_hook(prev2);
    if !drained {
        len = usize::MAX >> 40; // a drain that panics is data: no model value matches
    }
    json!({"p": 0, "ev": "tls", "a": [cap, n, panicked.load(SeqCst), joined as i64, len, rate]})
}

/// Real-parallel hammer: several pushers and a consumer run freely on a small reservoir. Schedule-independent facts only:
/// no push panics, and every overflowing push drew from exactly the range its own claimed index prescribes (the pair is
/// read from the thread's own hook events `res.claim.post [idx, cap]` / `res.rand.post [range]`).
fn run_hammer(cap: usize, rng: &mut rand::rngs::StdRng) -> Value {
    use std::cell::RefCell;
    use std::sync::atomic::{AtomicBool, AtomicU64, Ordering::SeqCst};
    let res = Arc::new(AtomicSamplingReservoir::new(cap));
    let stop = Arc::new(AtomicBool::new(false));
    let drains = Arc::new(AtomicU64::new(0));
    let np = 3 + rng.random_range(0..3usize);
    let mut hs = vec![];
    for p in 0..np {
        let (r, stop) = (res.clone(), stop.clone());
        hs.push(std::thread::spawn(move || {
            // (idx, range) pairs of this thread: a sample of the good ones, all the bad ones (bounded)
            let state: std::rc::Rc<RefCell<(i64, Vec<[i64; 2]>, Vec<[i64; 2]>, u64)>> = std::rc::Rc::new(RefCell::new((-1, vec![], vec![], 0)));
            let st2 = state.clone();
            metrics::verif::install(Box::new(move |site, a| {
                let mut g = st2.borrow_mut();
                if site == "res.claim.post" {
                    g.0 = a[0];
                } else if site == "res.rand.post" {
                    g.3 += 1;
                    let pair = [g.0, a[0]];
                    if pair[1] != pair[0] + 1 {
                        if g.2.len() < 20 {
                            g.2.push(pair);
                        }
                    } else if g.1.len() < 10 && g.3 % 97 == 1 {
                        g.1.push(pair);
                    }
                }
            }));
            let (mut pushes, mut panics) = (0u64, 0u64);
            while !stop.load(SeqCst) {
                let r2 = r.clone();
                let ok = std::panic::catch_unwind(std::panic::AssertUnwindSafe(move || {
                    for i in 0..256 {
                        r2.push((p * 1000 + i) as f64);
                    }
                }));
                pushes += 256;
                if ok.is_err() {
                    panics += 1;
                }
            }
            metrics::verif::clear();
            let g = state.borrow();
            (pushes, panics, g.1.clone(), g.2.clone(), g.3)
        }));
    }
    let t0 = std::time::Instant::now();
    let prev = std::panic::take_hook();
    std::panic::set_hook(Box::new(|_| {}));
    let mut consumer_panics = 0u64;
    while t0.elapsed() < std::time::Duration::from_millis(250) {
        let r = res.clone();
        if std::panic::catch_unwind(std::panic::AssertUnwindSafe(move || {
            r.consume(|d| {
                let _ = d.count();
            })
        }))
        .is_err()
        {
            consumer_panics += 1; // a panic in the code under test is data
            if consumer_panics > 100 {
                break;
            }
        }
        drains.fetch_add(1, SeqCst);
    }
    stop.store(true, SeqCst);
    let (mut pushes, mut panics, mut good, mut bad, mut draws) = (0u64, consumer_panics, vec![], vec![], 0u64);
    for h in hs {
        if let Ok((a, b, c, d, e)) = h.join() {
            pushes += a;
            panics += b;
            good.extend(c);
            bad.extend(d);
            draws += e;
        } else {
            panics += 1;
        }
    }
    std::panic::set_hook(prev);
    good.truncate(40);
    bad.truncate(40);
    json!({"p": 0, "ev": "hammer", "a": [cap, panics, (pushes / 1000) as i64, drains.load(SeqCst) as i64, (draws / 1000) as i64], "good": good, "bad": bad})
}

/// single-threaded program: pushes and consumes interleaved in program order (one logical process does both)
fn run_seq(cap: usize, rng: &mut rand::rngs::StdRng) -> Vec<Value> {
    let res = Arc::new(AtomicSamplingReservoir::new(cap));
    let s = Sched::new(1, true);
    let nops = rng.random_range(1..=14usize);
    let ops: Vec<bool> = (0..nops).map(|_| rng.random_range(0..4) != 0).collect(); // true = push
    let r = res.clone();
    let h = s.spawn(1, move || {
        let mut i = 0;
        for push in ops {
            if push {
                i += 1;
                r.push(val(1, i));
                metrics::verif::point("push.done.post", &[val(1, i) as i64]);
            } else {
                consume_once(&r);
            }
        }
        consume_once(&r);
        consume_once(&r);
    });
    s.wait_all();
    let _ = h.join();
    let mut ev = vec![json!({"p": 0, "ev": "reset", "a": [cap]})];
    ev.extend(s.take_log().iter().map(|e| e.json()));
    ev.push(json!({"p": 0, "ev": "final", "a": []}));
    ev
}

fn main() {
    let args = vh::Args::parse();
    let mode = args.pos.get(0).map(|s| s.as_str()).unwrap_or("seq").to_string();
    let seed = vh::seed(1);
    let mut rng = vh::rng(seed);
    let cap: usize = args.num("cap", 2);
    let out = args.get("out").unwrap_or("c16.ndjson").to_string();
    let mut w = Writer::create(&out);
    let mut summary = json!({"mode": mode, "seed": seed, "cap": cap});
    let mut distinct = std::collections::HashSet::new();
    match mode.as_str() {
        "seq" => {
            let runs: usize = args.num("runs", 100);
            for _ in 0..runs {
                let ev = run_seq(cap, &mut rng);
                distinct.insert(ev.iter().map(|e| format!("{}{}{};", e["p"], e["ev"].as_str().unwrap(), e["a"])).collect::<String>());
                for e in &ev {
                    w.put(e);
                }
            }
            summary["runs"] = json!(runs);
        }
        "record" => {
            let runs: usize = args.num("runs", 100);
            let mut bad = 0;
            for _ in 0..runs {
                let np = rng.random_range(1..=2usize);
                let sc = Scenario {
                    cap,
                    nvals: (0..np).map(|_| rng.random_range(1..=3usize)).collect(),
                    consumes: rng.random_range(1..=3usize),
                    sched: None,
                };
                let (ev, stop, _) = run(&sc, &mut rng, false);
                if !matches!(stop, Stop::Done) {
                    bad += 1;
                }
                distinct.insert(ev.iter().map(|e| format!("{}{};", e["p"], e["ev"].as_str().unwrap())).collect::<String>());
                for e in &ev {
                    w.put(e);
                }
            }
            summary["runs"] = json!(runs);
            summary["not_done"] = json!(bad);
        }
        "replay" => {
            let text = std::fs::read_to_string(args.get("in").expect("--in")).unwrap();
            let (mut n, mut div) = (0, 0);
            for line in text.lines().filter(|l| !l.trim().is_empty()) {
                let v: Value = serde_json::from_str(line).unwrap();
                let sc = Scenario {
                    cap: v["cap"].as_u64().unwrap() as usize,
                    nvals: v["nvals"].as_array().unwrap().iter().map(|x| x.as_u64().unwrap() as usize).collect(),
                    consumes: v["consumes"].as_u64().unwrap() as usize,
                    sched: v["sched"].as_array().map(|a| {
                        a.iter().map(|e| (e[0].as_u64().unwrap() as usize, e[1].as_str().unwrap().to_string())).collect()
                    }),
                };
                let (ev, _, d) = run(&sc, &mut rng, false);
                n += 1;
                div += d as usize;
                for e in &ev {
                    w.put(e);
                }
            }
            summary["runs"] = json!(n);
            summary["diverged"] = json!(div);
        }
        "overlap" => {
            let runs: usize = args.num("runs", 50);
            for _ in 0..runs {
                let ev = run_overlap(cap.max(2), &mut rng);
                distinct.insert(ev.iter().map(|e| format!("{}{};", e["p"], e["ev"].as_str().unwrap())).collect::<String>());
                for e in &ev {
                    w.put(e);
                }
            }
            summary["runs"] = json!(runs);
        }
        "tls" => {
            let runs: usize = args.num("runs", 12);
            for _ in 0..runs {
                let n = rng.random_range(0..=(3 * cap + 3));
                w.put(&json!({"p": 0, "ev": "reset", "a": [cap]}));
                w.put(&run_tls(cap, n));
            }
            summary["runs"] = json!(runs);
        }
        "hammer" => {
            let runs: usize = args.num("runs", 8);
            let (mut draws, mut drains) = (0i64, 0i64);
            for _ in 0..runs {
                let e = run_hammer(cap, &mut rng);
                w.put(&json!({"p": 0, "ev": "reset", "a": [cap]}));
                draws += e["a"][4].as_i64().unwrap();
                drains += e["a"][3].as_i64().unwrap();
                w.put(&e);
            }
            summary["runs"] = json!(runs);
            summary["kilo_draws"] = json!(draws);
            summary["drains"] = json!(drains);
        }
        "stat" => {
            // retention frequency of each stream position, cap = 2, n = 5: informational only
            let (c, n, trials) = (2usize, 5usize, 100_000usize);
            let mut kept = vec![0u64; n];
            for _ in 0..trials {
                let r = AtomicSamplingReservoir::new(c);
                for i in 0..n {
                    r.push(i as f64);
                }
                r.consume(|d| {
                    for v in d {
                        kept[v as usize] += 1;
                    }
                });
            }
            let expect = trials as f64 * c as f64 / n as f64;
            let chi2: f64 = kept.iter().map(|k| (*k as f64 - expect).powi(2) / expect).sum();
            summary["kept"] = json!(kept);
            summary["expected_each"] = json!(expect);
            summary["chi2_df4"] = json!(chi2);
        }
        _ => {
            eprintln!("unknown mode");
            std::process::exit(2);
        }
    }
    summary["distinct"] = json!(distinct.len());
    summary["lines"] = json!(w.lines);
    w.finish();
    println!("{}", summary);
}
