//! C20 driver: RecoverableRecorder / RecoveryHandle.
//!
//!   c20 record --mode into_inner|drop --runs N --out F    scheduled emitters vs recoverer
//!   c20 replay --mode M --in P --out F                    TLC schedules
//!   c20 install --runs N --out F                          install path in fresh child processes
//!   c20 free --runs N --out F                             real-parallel (schedule-independent facts)
//!
//! ids: emitters 1..3, recoverer 9. The probe recorder has id 7.
use metrics::{Counter, Gauge, Histogram, Key, KeyName, Metadata, Recorder, SharedString, Unit};
use metrics_util::RecoverableRecorder;
use rand::Rng;
use serde_json::{json, Value};
use std::sync::atomic::{AtomicBool, AtomicUsize, Ordering};
use std::sync::Arc;
use vh::sched::{RandomChooser, Sched, Stop, Waiting};
use vh::trace::Writer;

thread_local! { static ENTERED: std::cell::Cell<usize> = std::cell::Cell::new(0); }

struct Probe {
    id: usize,
    finalised: AtomicBool,
    drops: Arc<AtomicUsize>,
    calls: Arc<AtomicUsize>,
    calls_after_final: Arc<AtomicUsize>,
}
impl Probe {
    fn new(id: usize, drops: &Arc<AtomicUsize>, calls: &Arc<AtomicUsize>, caf: &Arc<AtomicUsize>) -> Probe {
        Probe { id, finalised: AtomicBool::new(false), drops: drops.clone(), calls: calls.clone(), calls_after_final: caf.clone() }
    }
    fn hit(&self) {
        metrics::verif::point("probe.call.pre", &[]);
        let f = self.finalised.load(Ordering::SeqCst);
        self.calls.fetch_add(1, Ordering::SeqCst);
        if f {
            self.calls_after_final.fetch_add(1, Ordering::SeqCst);
        }
        ENTERED.with(|e| e.set(e.get() + 1));
        metrics::verif::point("probe.call.post", &[f as i64]);
    }
}
impl Drop for Probe {
    fn drop(&mut self) {
        self.finalised.store(true, Ordering::SeqCst);
        self.drops.fetch_add(1, Ordering::SeqCst);
        metrics::verif::point("probe.drop.post", &[self.id as i64]);
    }
}
impl Recorder for Probe {
    fn describe_counter(&self, _: KeyName, _: Option<Unit>, _: SharedString) {
        self.hit()
    }
    fn describe_gauge(&self, _: KeyName, _: Option<Unit>, _: SharedString) {
        self.hit()
    }
    fn describe_histogram(&self, _: KeyName, _: Option<Unit>, _: SharedString) {
        self.hit()
    }
    fn register_counter(&self, _: &Key, _: &Metadata<'_>) -> Counter {
        self.hit();
        Counter::noop()
    }
    fn register_gauge(&self, _: &Key, _: &Metadata<'_>) -> Gauge {
        self.hit();
        Gauge::noop()
    }
    fn register_histogram(&self, _: &Key, _: &Metadata<'_>) -> Histogram {
        self.hit();
        Histogram::noop()
    }
}

fn emit(w: &dyn Recorder, which: usize) {
    let key = Key::from_name("k");
    let md = Metadata::new("t", metrics::Level::INFO, None);
    match which % 6 {
        0 => w.describe_counter("k".into(), None, "d".into()),
        1 => w.describe_gauge("k".into(), Some(Unit::Bytes), "d".into()),
        2 => w.describe_histogram("k".into(), None, "d".into()),
        3 => {
            let _ = w.register_counter(&key, &md);
        }
        4 => {
            let _ = w.register_gauge(&key, &md);
        }
        _ => {
            let _ = w.register_histogram(&key, &md);
        }
    }
}

struct Scenario {
    nemit: usize,
    ncalls: usize,
    drop_mode: bool,
    sched: Option<Vec<(usize, String)>>,
}

fn site_of(pc: &str) -> Option<&'static str> {
    Some(match pc {
        "upg" => "rec.upgrade.pre",
        "call" => "probe.call.pre",
        "try" => "rec.unwrap.pre",
        "hdrop" => "handle.drop.pre",
        _ => return None, // rel / skip: not yield points
    })
}

fn run(sc: &Scenario, rng: &mut rand::rngs::StdRng) -> (Vec<Value>, Stop, bool) {
    let drops = Arc::new(AtomicUsize::new(0));
    let calls = Arc::new(AtomicUsize::new(0));
    let caf = Arc::new(AtomicUsize::new(0));
    let (wrapped, handle) = RecoverableRecorder::new(Probe::new(7, &drops, &calls, &caf)).verif_build();
    let wrapped: Arc<dyn Recorder + Send + Sync> = Arc::new(wrapped);
    let s = Sched::new(sc.nemit + 1, false);
    let mut hs = vec![];
    for e in 1..=sc.nemit {
        let w = wrapped.clone();
        let n = sc.ncalls;
        let which0 = rng.random_range(0..6usize);
        hs.push(s.spawn(e, move || {
            for i in 0..n {
                ENTERED.with(|x| x.set(0));
                emit(&*w, which0 + i);
                let ent = ENTERED.with(|x| x.get());
                metrics::verif::point("emit.done.post", &[ent as i64]);
            }
        }));
    }
    let drop_mode = sc.drop_mode;
    let unwind = drop_mode && rng.random_range(0..2) == 0;
    let drops2 = drops.clone();
    let kept: Arc<std::sync::Mutex<Option<Probe>>> = Arc::new(std::sync::Mutex::new(None));
    let kept2 = kept.clone();
    hs.push(s.spawn(9, move || {
        if drop_mode {
            metrics::verif::point("handle.drop.pre", &[]);
            if unwind {
                // the handle goes out of scope while its thread is unwinding from a panic (a worker that panics while it
                // owns the handle): dropping it must mean exactly the same
                let _ = std::panic::catch_unwind(std::panic::AssertUnwindSafe(move || {
                    let _h = handle;
                    std::panic::resume_unwind(Box::new("unwinding while owning the recovery handle"));
                }));
            } else {
                drop(handle);
            }
            metrics::verif::point("handle.dropped.post", &[]);
        } else {
            let r = handle.into_inner();
            metrics::verif::point("into_inner.done.post", &[r.id as i64, r.finalised.load(Ordering::SeqCst) as i64, drops2.load(Ordering::SeqCst) as i64]);
            *kept2.lock().unwrap() = Some(r); // the caller owns it now; dropped after the run, outside any hook
        }
    }));
    let mut diverged = false;
    let stop = {
        let mut r2 = rng.clone();
        let mut rc = RandomChooser::new(&mut r2);
        let mut pos = 0usize;
        let sched = sc.sched.clone();
        let mut choose = |w: &Waiting| -> usize {
            if let Some((&t, _)) = w.iter().find(|(_, (s, _))| s == "start.pre") {
                return t;
            }
            if let (Some(sch), false) = (&sched, diverged) {
                while pos < sch.len() && site_of(&sch[pos].1).is_none() {
                    pos += 1;
                }
                if pos < sch.len() {
                    let (p, pcn) = &sch[pos];
                    match w.get(p) {
                        Some((site, _)) if site == site_of(pcn).unwrap() => {
                            pos += 1;
                            return *p;
                        }
                        _ => diverged = true,
                    }
                }
            }
            rc.choose(w)
        };
        s.run(20_000, &mut choose)
    };
    let _: u64 = rng.random();
    match stop {
        Stop::Done => {
            for h in hs {
                let _ = h.join();
            }
        }
        _ => s.release_all(),
    }
    let lib_drops = drops.load(Ordering::SeqCst);
    let mut ev = vec![json!({"p": 0, "ev": "reset", "a": [sc.drop_mode as i64, sc.nemit, sc.ncalls]})];
    ev.extend(s.take_log().iter().map(|e| e.json()));
    ev.push(match stop {
        Stop::Done => json!({"p": 0, "ev": "final", "a": [lib_drops, calls.load(Ordering::SeqCst), caf.load(Ordering::SeqCst)]}),
        Stop::Budget => json!({"p": 0, "ev": "livelock", "a": []}),
        Stop::Stuck => json!({"p": 0, "ev": "stuck", "a": []}),
    });
    drop(kept); // the recovered recorder (if any) is dropped here by its owner
    (ev, stop, diverged)
}

/// child process: the install path through the real global recorder
fn child_install() {
    let drops1 = Arc::new(AtomicUsize::new(0));
    let drops2 = Arc::new(AtomicUsize::new(0));
    let calls = Arc::new(AtomicUsize::new(0));
    let caf = Arc::new(AtomicUsize::new(0));
    let first = RecoverableRecorder::new(Probe::new(1, &drops1, &calls, &caf)).install();
    let first_ok = first.is_ok();
    let second = RecoverableRecorder::new(Probe::new(2, &drops2, &calls, &caf)).install();
    let (second_ok, back_id, back_final) = match &second {
        Ok(_) => (true, 0, false),
        Err(e) => (false, e.0.id, e.0.finalised.load(Ordering::SeqCst)),
    };
    let back_drops = drops2.load(Ordering::SeqCst);
    // emissions reach recorder 1 while the handle lives
    let c0 = calls.load(Ordering::SeqCst);
    metrics::counter!("a").increment(1);
    metrics::describe_gauge!("g", "d");
    let reached = calls.load(Ordering::SeqCst) - c0 == 2;
    let (mut got_original, mut after) = (false, 9usize);
    if let Ok(h) = first {
        let r = h.into_inner();
        got_original = r.id == 1 && !r.finalised.load(Ordering::SeqCst);
        let c1 = calls.load(Ordering::SeqCst);
        metrics::counter!("a").increment(1);
        metrics::histogram!("h").record(1.0);
        after = calls.load(Ordering::SeqCst) - c1;
        std::mem::forget(r);
    }
    let lib_drops = drops1.load(Ordering::SeqCst);
    std::mem::forget(second);
    println!("{}", json!({"p": 0, "ev": "install", "a": [first_ok as i64, second_ok as i64, back_id, back_final as i64, back_drops,
                          reached as i64, got_original as i64, after, lib_drops]}));
}

/// real-parallel: emitters hammer the wrapper while the handle is recovered/dropped
fn run_free(rng: &mut rand::rngs::StdRng, drop_mode: bool) -> Value {
    let drops = Arc::new(AtomicUsize::new(0));
    let calls = Arc::new(AtomicUsize::new(0));
    let caf = Arc::new(AtomicUsize::new(0));
    let (wrapped, handle) = RecoverableRecorder::new(Probe::new(7, &drops, &calls, &caf)).verif_build();
    let wrapped: Arc<dyn Recorder + Send + Sync> = Arc::new(wrapped);
    let n = rng.random_range(2..=6usize);
    let per = rng.random_range(200..=2000usize);
    let go = Arc::new(AtomicBool::new(false));
    let mut hs = vec![];
    for t in 0..n {
        let w = wrapped.clone();
        let go = go.clone();
        hs.push(std::thread::spawn(move || {
            while !go.load(Ordering::Acquire) {
                std::hint::spin_loop();
            }
            // entered flags in program order must be 1* 0*
            let mut rle: Vec<Vec<usize>> = vec![];
            for i in 0..per {
                ENTERED.with(|x| x.set(0));
                emit(&*w, t + i);
                let e = ENTERED.with(|x| x.get());
                match rle.last_mut() {
                    Some(l) if l[0] == e => l[1] += 1,
                    _ => rle.push(vec![e, 1]),
                }
            }
            rle
        }));
    }
    go.store(true, Ordering::Release);
    std::thread::sleep(std::time::Duration::from_micros(rng.random_range(0..300)));
    let mut recovered_ok = true;
    let mut inside_at_return = 0usize;
    if drop_mode {
        drop(handle);
    } else {
        // into_inner in a thread of its own: if it never returns that is a `hang` event, not a stuck harness
        let (tx, rx) = std::sync::mpsc::channel();
        std::thread::spawn(move || {
            let _ = tx.send(handle.into_inner());
        });
        let r = match rx.recv_timeout(std::time::Duration::from_secs(20)) {
            Ok(r) => r,
            Err(_) => return json!({"p": 0, "ev": "hang", "a": [], "what": "into_inner did not return within 20 s"}),
        };
        recovered_ok = r.id == 7 && !r.finalised.load(Ordering::SeqCst);
        // nobody may be inside the recorder any more: the call counter must not move from now on
        let c = calls.load(Ordering::SeqCst);
        std::thread::sleep(std::time::Duration::from_micros(200));
        inside_at_return = calls.load(Ordering::SeqCst) - c;
        std::mem::forget(r);
    }
    let rles: Vec<Vec<Vec<usize>>> = hs.into_iter().map(|h| h.join().unwrap()).collect();
    json!({"p": 0, "ev": "free", "a": [], "drop_mode": drop_mode, "recovered_ok": recovered_ok,
           "calls_after_return": inside_at_return, "lib_drops": drops.load(Ordering::SeqCst),
           "calls_after_final": caf.load(Ordering::SeqCst), "rles": rles})
}

fn main() {
    let args = vh::Args::parse();
    let mode = args.pos.get(0).map(|s| s.as_str()).unwrap_or("record").to_string();
    if mode == "child-install" {
        child_install();
        return;
    }
    let seed = vh::seed(1);
    let mut rng = vh::rng(seed);
    let drop_mode = args.get("mode").unwrap_or("into_inner") == "drop";
    let out = args.get("out").unwrap_or("c20.ndjson").to_string();
    let mut w = Writer::create(&out);
    let mut summary = json!({"mode": mode, "seed": seed, "drop_mode": drop_mode});
    let mut distinct = std::collections::HashSet::new();
    match mode.as_str() {
        "record" => {
            let runs: usize = args.num("runs", 200);
            let mut bad = 0;
            for _ in 0..runs {
                let sc = Scenario { nemit: rng.random_range(1..=3), ncalls: rng.random_range(1..=3), drop_mode, sched: None };
                let (ev, stop, _) = run(&sc, &mut rng);
                if !matches!(stop, Stop::Done) {
                    bad += 1;
                }
                distinct.insert(ev.iter().map(|e| format!("{}{};", e["p"], e["ev"].as_str().unwrap())).collect::<String>());
                for e in &ev {
                    w.put(e);
                }
            }
            summary["runs"] = json!(runs);
            summary["not_done"] = json!(bad);
        }
        "replay" => {
            let text = std::fs::read_to_string(args.get("in").expect("--in")).unwrap();
            let (mut n, mut div) = (0, 0);
            for line in text.lines().filter(|l| !l.trim().is_empty()) {
                let v: Value = serde_json::from_str(line).unwrap();
                let sc = Scenario {
                    nemit: v["nemit"].as_u64().unwrap() as usize,
                    ncalls: v["ncalls"].as_u64().unwrap() as usize,
                    drop_mode: v["mode"].as_str().unwrap() == "drop",
                    sched: v["sched"].as_array().map(|a| {
                        a.iter().map(|e| (e[0].as_u64().unwrap() as usize, e[1].as_str().unwrap().to_string())).collect()
                    }),
                };
                if sc.drop_mode != drop_mode {
                    continue;
                }
                let (ev, _, d) = run(&sc, &mut rng);
                n += 1;
                div += d as usize;
                for e in &ev {
                    w.put(e);
                }
            }
            summary["runs"] = json!(n);
            summary["diverged"] = json!(div);
        }
        "install" => {
            let runs: usize = args.num("runs", 5);
            let exe = std::env::current_exe().unwrap();
            let mut crashed = 0;
            for _ in 0..runs {
                let (text, status) = vh::run_child(std::process::Command::new(&exe).arg("child-install"), 20);
                let mut got = false;
                for line in text.lines() {
                    if let Ok(v) = serde_json::from_str::<Value>(line) {
                        w.put(&v);
                        got = true;
                    }
                }
                if status != Some(true) || !got {
                    crashed += 1;
                    w.put(&json!({"p": 0, "ev": if status.is_none() { "hang" } else { "crash" }, "a": []}));
                }
            }
            summary["runs"] = json!(runs);
            summary["crashed"] = json!(crashed);
        }
        "free" => {
            let runs: usize = args.num("runs", 100);
            for i in 0..runs {
                let e = run_free(&mut rng, i % 2 == 1);
                w.put(&e);
                if e["ev"] == "hang" {
                    summary["hang"] = json!(i);
                    summary["lines"] = json!(w.lines);
                    w.finish();
                    println!("{}", summary);
                    std::process::exit(0); // emitter threads may be stuck too
                }
            }
            summary["runs"] = json!(runs);
        }
        _ => {
            eprintln!("unknown mode");
            std::process::exit(2);
        }
    }
    summary["distinct"] = json!(distinct.len());
    summary["lines"] = json!(w.lines);
    w.finish();
    println!("{}", summary);
}
