//! Deterministic scheduler. Each logical process runs on its own OS thread with a
//! thread-local `metrics::verif` hook. At a site ending in `.pre` the thread parks until the
//! controller grants it; every other site only logs. Exactly one instrumented thread runs
//! between two grants, so the log order is the linearization order.
use serde_json::{json, Value};
use std::collections::{BTreeMap, BTreeSet};
use std::sync::{Arc, Condvar, Mutex};
use std::time::Duration;

#[derive(Clone, Debug)]
pub struct Ev {
    pub p: usize,
    pub ev: String,
    pub a: Vec<i64>,
}

impl Ev {
    pub fn json(&self) -> Value {
        json!({"p": self.p, "ev": self.ev, "a": self.a})
    }
}

#[derive(Default)]
struct Inner {
    waiting: BTreeMap<usize, (String, Vec<i64>)>,
    finished: BTreeSet<usize>,
    granted: Option<usize>,
    nworkers: usize,
    log: Vec<Ev>,
}

pub struct Sched {
    m: Mutex<Inner>,
    cv: Condvar,
    free: bool,
    /// when set, only sites starting with one of these prefixes are seen (others are neither scheduled nor logged)
    filter: Option<Vec<String>>,
}

#[derive(Debug)]
pub enum Stop {
    /// every worker finished
    Done,
    /// step budget exhausted (livelock / runaway spin)
    Budget,
    /// a granted thread did not come back within the deadline (blocked)
    Stuck,
}

pub type Waiting = BTreeMap<usize, (String, Vec<i64>)>;

impl Sched {
    /// `free = true`: hooks only log, nothing parks (real parallel run).
    pub fn new(nworkers: usize, free: bool) -> Arc<Sched> {
        Arc::new(Sched { m: Mutex::new(Inner { nworkers, ..Default::default() }), cv: Condvar::new(), free, filter: None })
    }

    /// Like `new`, but only sites with one of the given prefixes are scheduled / logged.
    pub fn new_filtered(nworkers: usize, free: bool, prefixes: &[&str]) -> Arc<Sched> {
        Arc::new(Sched {
            m: Mutex::new(Inner { nworkers, ..Default::default() }),
            cv: Condvar::new(),
            free,
            filter: Some(prefixes.iter().map(|s| s.to_string()).collect()),
        })
    }

    fn yield_point(&self, tid: usize, site: &str, args: &[i64]) {
        let mut g = self.m.lock().unwrap();
        g.waiting.insert(tid, (site.to_string(), args.to_vec()));
        self.cv.notify_all();
        while g.granted != Some(tid) {
            g = self.cv.wait(g).unwrap();
        }
        g.granted = None;
        g.waiting.remove(&tid);
    }

    /// Append an event to the log on behalf of `tid` (used by hooks and by driver closures).
    pub fn log(&self, tid: usize, site: &str, args: &[i64]) {
        let mut g = self.m.lock().unwrap();
        g.log.push(Ev { p: tid, ev: site.to_string(), a: args.to_vec() });
    }

    fn finish(&self, tid: usize) {
        let mut g = self.m.lock().unwrap();
        g.finished.insert(tid);
        self.cv.notify_all();
    }

    /// Spawn logical process `tid`. A panic inside `f` is logged as a `panic` event (it is data).
    pub fn spawn<F: FnOnce() + Send + 'static>(self: &Arc<Self>, tid: usize, f: F) -> std::thread::JoinHandle<()> {
        let s = self.clone();
        std::thread::spawn(move || {
            let s2 = s.clone();
            let free = s.free;
            // Sites between `blk.drop.post` and `blk.dropped.post` belong to a destructor working on
            // private memory (speculative allocations, deferred epoch garbage): not scheduled, not logged.
            let in_drop = std::cell::Cell::new(0u32);
            metrics::verif::install(Box::new(move |site, args| {
                if let Some(f) = &s2.filter {
                    if !f.iter().any(|p| site.starts_with(p.as_str())) {
                        return;
                    }
                }
                if site == "blk.drop.post" {
                    in_drop.set(in_drop.get() + 1);
                    s2.log(tid, site, args);
                    return;
                }
                if site == "blk.dropped.post" {
                    in_drop.set(in_drop.get().saturating_sub(1));
                    s2.log(tid, site, args);
                    return;
                }
                if in_drop.get() > 0 {
                    return;
                }
                if site.ends_with(".pre") {
                    if !free {
                        s2.yield_point(tid, site, args);
                    } else {
                        // free-running: nothing parks, the step is only logged
                        s2.log(tid, site, args);
                    }
                } else {
                    s2.log(tid, site, args);
                }
            }));
            if !free {
                s.yield_point(tid, "start.pre", &[]);
            }
            let r = std::panic::catch_unwind(std::panic::AssertUnwindSafe(f));
            metrics::verif::clear();
            if r.is_err() {
                s.log(tid, "panic", &[]);
            }
            s.finish(tid);
        })
    }

    /// Controller loop for scheduled mode. `choose` gets the parked threads and returns the tid to
    /// grant. Every grant is logged as the `.pre` event of the granted thread.
    pub fn run(&self, max_steps: usize, choose: &mut dyn FnMut(&Waiting) -> usize) -> Stop {
        let mut steps = 0usize;
        loop {
            let mut g = self.m.lock().unwrap();
            let mut waited = 0u32;
            while !(g.granted.is_none() && g.waiting.len() + g.finished.len() == g.nworkers) {
                let (g2, to) = self.cv.wait_timeout(g, Duration::from_millis(500)).unwrap();
                g = g2;
                if to.timed_out() {
                    waited += 1;
                    if waited > 40 {
                        return Stop::Stuck;
                    }
                }
            }
            if g.finished.len() == g.nworkers {
                return Stop::Done;
            }
            if steps >= max_steps {
                return Stop::Budget;
            }
            let pick = choose(&g.waiting);
            let (site, args) = g.waiting.get(&pick).expect("chooser picked a non-waiting thread").clone();
            g.log.push(Ev { p: pick, ev: site, a: args });
            g.granted = Some(pick);
            steps += 1;
            self.cv.notify_all();
        }
    }

    /// Free-running mode: wait until every worker finished.
    pub fn wait_all(&self) {
        let mut g = self.m.lock().unwrap();
        while g.finished.len() != g.nworkers {
            g = self.cv.wait(g).unwrap();
        }
    }

    pub fn take_log(&self) -> Vec<Ev> {
        std::mem::take(&mut self.m.lock().unwrap().log)
    }

    /// After `Budget`/`Stuck`: let every parked thread run freely to the end so the process can go on
    /// (threads that are truly blocked are leaked).
    pub fn release_all(&self) {
        for _ in 0..200_000 {
            let mut g = self.m.lock().unwrap();
            if g.finished.len() == g.nworkers {
                return;
            }
            if g.granted.is_none() {
                if let Some((&t, _)) = g.waiting.iter().next() {
                    g.granted = Some(t);
                    self.cv.notify_all();
                }
            }
            let _ = self.cv.wait_timeout(g, Duration::from_millis(1)).unwrap();
        }
    }
}

/// Random chooser that deprioritises a thread which keeps coming back to the same (spin) site.
pub struct RandomChooser<'a, R: rand::Rng> {
    pub rng: &'a mut R,
    hist: BTreeMap<usize, Vec<String>>,
}

impl<'a, R: rand::Rng> RandomChooser<'a, R> {
    pub fn new(rng: &'a mut R) -> Self {
        RandomChooser { rng, hist: BTreeMap::new() }
    }
    pub fn choose(&mut self, w: &Waiting) -> usize {
        let cands: Vec<usize> = w.keys().cloned().collect();
        let weights: Vec<u32> = cands
            .iter()
            .map(|t| {
                let n = self.hist.get(t).map(|h| h.iter().filter(|s| **s == w[t].0).count()).unwrap_or(0);
                if n >= 2 { 1 } else { 8 }
            })
            .collect();
        let total: u32 = weights.iter().sum();
        let mut x = self.rng.random_range(0..total);
        let mut pick = cands[0];
        for (i, wt) in weights.iter().enumerate() {
            if x < *wt {
                pick = cands[i];
                break;
            }
            x -= wt;
        }
        let h = self.hist.entry(pick).or_default();
        h.push(w[&pick].0.clone());
        if h.len() > 6 {
            h.remove(0);
        }
        pick
    }
}
