//! Independent, strict parser of the Prometheus text exposition format (owned by the C08 builder;
//! reused by C07 / C15 / C18). Stub until filled in.
