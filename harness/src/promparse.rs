//! Independent, strict parser of the Prometheus text exposition format (version 0.0.4), written from
//! the format description ("Text format details" of prometheus/docs exposition_formats.md), not from
//! the exporter's code. Owned by the C08 check; reused by C07 / C15 / C18.
//!
//! ```ignore
//! let exp = vh::promparse::parse_exposition(&handle.render())?;      // strict: Err(String) on anything ill-formed
//! for fam in &exp.families {                                          // in order of appearance
//!     // fam.name, fam.mtype ("counter" | "gauge" | "histogram" | "summary" | "untyped"), fam.help (unescaped)
//!     for s in &fam.samples {
//!         // s.name (family name or family name + _bucket/_sum/_count), s.labels: Vec<(String, String)> in
//!         // textual order with UNESCAPED values, s.value (the token as printed), s.value_f64(), s.label("le")
//!     }
//! }
//! ```
//!
//! What "strict" means (every violation is an `Err` naming the 1-based line):
//! * the text is empty or ends with `\n`; lines are split at `\n` only (`\r` is an ordinary character);
//! * every line is blank, `# HELP name text`, `# TYPE name type` or a sample; free comments are rejected;
//!   tokens may be separated by runs of blanks/tabs as the format allows;
//! * metric names match `[a-zA-Z_:][a-zA-Z0-9_:]*`, label names `[a-zA-Z_][a-zA-Z0-9_]*`;
//! * label values are double-quoted, only the escapes `\\`, `\"`, `\n` occur inside, no raw line feed;
//!   HELP text only has the escapes `\\` and `\n`;
//! * no label name twice in one sample; a trailing comma after the last label pair is allowed;
//! * the value is a float as Go's `strconv.ParseFloat` reads it (decimal forms, `NaN`, `[+-]Inf`,
//!   `[+-]Infinity`, case-insensitive); an optional integer timestamp may follow;
//! * families: a `HELP` or `TYPE` line naming a new metric opens a group; at most one HELP and exactly one
//!   TYPE per family, both before the family's samples; a family never appears in two groups; every sample
//!   belongs to the current group and is named `family` or `family` + a suffix allowed for the type
//!   (`_bucket` `_sum` `_count` for histogram, `_sum` `_count` for summary, none otherwise);
//! * a sample is what the declared type of its family allows: no bare-name sample under `histogram`; the
//!   label `le` on (and only on) `_bucket` samples of a histogram; the label `quantile` on (and only on)
//!   the bare-name samples of a summary;
//! * (option, on in strict mode) no two samples with the same name and the same label set.
//!
//! `parse_exposition_with` can relax the last two rules: with `allow_foreign_sample_names` a sample whose
//! name does not fit the current family is still attached to it and its index is reported in
//! `Exposition::foreign` (used to observe finding CF08: unit suffixes change the sample names but not
//! the TYPE line).

use std::collections::HashSet;

/// One sample line.
#[derive(Clone, Debug, PartialEq)]
pub struct Sample {
    /// Metric name as printed (family name, possibly with `_bucket` / `_sum` / `_count`).
    pub name: String,
    /// Label pairs in textual order; values are unescaped.
    pub labels: Vec<(String, String)>,
    /// The value token exactly as printed.
    pub value: String,
    /// Optional timestamp token.
    pub timestamp: Option<String>,
    /// 1-based line number in the exposition.
    pub line: usize,
}

impl Sample {
    /// The value as f64 (`NaN`, `+Inf`, `inf`, ... handled like Go's ParseFloat).
    pub fn value_f64(&self) -> Option<f64> {
        parse_go_float(&self.value)
    }
    /// Value of the label `name`, if present.
    pub fn label(&self, name: &str) -> Option<&str> {
        self.labels.iter().find(|(k, _)| k == name).map(|(_, v)| v.as_str())
    }
    /// Labels without the given names (e.g. `le`, `quantile`), sorted by name: the identity of a series.
    pub fn series_labels(&self, without: &[&str]) -> Vec<(String, String)> {
        let mut v: Vec<(String, String)> =
            self.labels.iter().filter(|(k, _)| !without.contains(&k.as_str())).cloned().collect();
        v.sort();
        v
    }
}

/// One metric family: its TYPE, optional HELP and its samples in order of appearance.
#[derive(Clone, Debug, PartialEq)]
pub struct Family {
    pub name: String,
    /// `counter`, `gauge`, `histogram`, `summary` or `untyped`.
    pub mtype: String,
    /// Unescaped HELP text, if the family has a HELP line.
    pub help: Option<String>,
    pub samples: Vec<Sample>,
    /// 1-based line number of the TYPE line.
    pub type_line: usize,
}

/// A parsed exposition.
#[derive(Clone, Debug, PartialEq, Default)]
pub struct Exposition {
    /// Families in order of appearance.
    pub families: Vec<Family>,
    /// `(family index, sample index)` of samples whose name is not the family name plus an allowed
    /// suffix. Always empty unless `ParseOptions::allow_foreign_sample_names` was set.
    pub foreign: Vec<(usize, usize)>,
    /// Line counts: HELP, TYPE, sample, blank.
    pub n_help: usize,
    pub n_type: usize,
    pub n_sample: usize,
    pub n_blank: usize,
}

impl Exposition {
    pub fn family(&self, name: &str) -> Option<&Family> {
        self.families.iter().find(|f| f.name == name)
    }
    /// All samples of all families.
    pub fn samples(&self) -> impl Iterator<Item = &Sample> {
        self.families.iter().flat_map(|f| f.samples.iter())
    }
    /// Total number of label pairs over all samples.
    pub fn n_labels(&self) -> usize {
        self.samples().map(|s| s.labels.len()).sum()
    }
}

/// Which of the relaxable rules are enforced.
#[derive(Clone, Debug)]
pub struct ParseOptions {
    /// Attach a sample whose name does not fit the current family to it anyway and report it in
    /// `Exposition::foreign` instead of failing.
    pub allow_foreign_sample_names: bool,
    /// Fail on two samples with equal name and equal label set.
    pub reject_duplicate_series: bool,
}

impl ParseOptions {
    pub fn strict() -> ParseOptions {
        ParseOptions { allow_foreign_sample_names: false, reject_duplicate_series: true }
    }
}

/// Strict parse (see module documentation).
pub fn parse_exposition(text: &str) -> Result<Exposition, String> {
    parse_exposition_with(text, &ParseOptions::strict())
}

/// Suffixes a sample of a family of type `mtype` may carry.
pub fn allowed_suffixes(mtype: &str) -> &'static [&'static str] {
    match mtype {
        "histogram" => &["_bucket", "_sum", "_count"],
        "summary" => &["_sum", "_count"],
        _ => &[],
    }
}

/// Does `sample` name a sample of family `family` of type `mtype`?
pub fn sample_belongs(family: &str, mtype: &str, sample: &str) -> bool {
    if sample == family {
        return true;
    }
    match sample.strip_prefix(family) {
        Some(rest) => allowed_suffixes(mtype).contains(&rest),
        None => false,
    }
}

/// Is the sample (which `sample_belongs` to the family) something the declared type allows?
/// No bare-name sample under `histogram`; `le` exactly on `_bucket` samples of a histogram; `quantile`
/// exactly on the bare-name samples of a summary.
pub fn role_allowed(family: &str, mtype: &str, s: &Sample) -> Result<(), String> {
    let suffix = &s.name[family.len()..];
    let has_le = s.label("le").is_some();
    let has_q = s.label("quantile").is_some();
    if mtype == "histogram" && suffix.is_empty() {
        return Err(format!("sample {:?} carries the bare name of a histogram family", s.name));
    }
    if has_le != (mtype == "histogram" && suffix == "_bucket") {
        return Err(format!("label `le` {} on sample {:?} of a {} family", if has_le { "present" } else { "missing" }, s.name, mtype));
    }
    if has_q != (mtype == "summary" && suffix.is_empty()) {
        return Err(format!("label `quantile` {} on sample {:?} of a {} family", if has_q { "present" } else { "missing" }, s.name, mtype));
    }
    Ok(())
}

pub fn is_metric_name(s: &str) -> bool {
    let mut it = s.chars();
    match it.next() {
        Some(c) if c.is_ascii_alphabetic() || c == '_' || c == ':' => {}
        _ => return false,
    }
    it.all(|c| c.is_ascii_alphanumeric() || c == '_' || c == ':')
}

pub fn is_label_name(s: &str) -> bool {
    let mut it = s.chars();
    match it.next() {
        Some(c) if c.is_ascii_alphabetic() || c == '_' => {}
        _ => return false,
    }
    it.all(|c| c.is_ascii_alphanumeric() || c == '_')
}

/// Go's strconv.ParseFloat restricted to what the text format uses (no hex floats, no underscores).
pub fn parse_go_float(tok: &str) -> Option<f64> {
    let lower = tok.to_ascii_lowercase();
    let (neg, body) = match lower.as_bytes().first() {
        Some(b'+') => (false, &lower[1..]),
        Some(b'-') => (true, &lower[1..]),
        _ => (false, &lower[..]),
    };
    if body == "inf" || body == "infinity" {
        return Some(if neg { f64::NEG_INFINITY } else { f64::INFINITY });
    }
    if lower == "nan" {
        return Some(f64::NAN);
    }
    // decimal: digits [ . digits ] | . digits, optional exponent
    let b = body.as_bytes();
    let mut i = 0;
    let mut int_digits = 0;
    while i < b.len() && b[i].is_ascii_digit() {
        i += 1;
        int_digits += 1;
    }
    let mut frac_digits = 0;
    if i < b.len() && b[i] == b'.' {
        i += 1;
        while i < b.len() && b[i].is_ascii_digit() {
            i += 1;
            frac_digits += 1;
        }
    }
    if int_digits + frac_digits == 0 {
        return None;
    }
    if i < b.len() && b[i] == b'e' {
        i += 1;
        if i < b.len() && (b[i] == b'+' || b[i] == b'-') {
            i += 1;
        }
        let mut exp_digits = 0;
        while i < b.len() && b[i].is_ascii_digit() {
            i += 1;
            exp_digits += 1;
        }
        if exp_digits == 0 {
            return None;
        }
    }
    if i != b.len() {
        return None;
    }
    // Rust's parser accepts every string of this shape ("1." and ".5" included)
    let v: f64 = body.parse().ok()?;
    Some(if neg { -v } else { v })
}

fn is_int_token(tok: &str) -> bool {
    let body = tok.strip_prefix('-').unwrap_or(tok);
    !body.is_empty() && body.bytes().all(|b| b.is_ascii_digit())
}

struct Cursor<'a> {
    cs: &'a [char],
    i: usize,
}

impl<'a> Cursor<'a> {
    fn peek(&self) -> Option<char> {
        self.cs.get(self.i).cloned()
    }
    fn next(&mut self) -> Option<char> {
        let c = self.peek();
        if c.is_some() {
            self.i += 1;
        }
        c
    }
    fn skip_ws(&mut self) -> usize {
        let s = self.i;
        while matches!(self.peek(), Some(' ') | Some('\t')) {
            self.i += 1;
        }
        self.i - s
    }
    fn token(&mut self) -> String {
        let s = self.i;
        while let Some(c) = self.peek() {
            if c == ' ' || c == '\t' {
                break;
            }
            self.i += 1;
        }
        self.cs[s..self.i].iter().collect()
    }
    fn rest(&mut self) -> String {
        let s: String = self.cs[self.i..].iter().collect();
        self.i = self.cs.len();
        s
    }
    fn at_end(&self) -> bool {
        self.i >= self.cs.len()
    }
    /// longest run of characters satisfying `first` (first char) / `more` (others)
    fn name(&mut self, first: fn(char) -> bool, more: fn(char) -> bool) -> String {
        let s = self.i;
        if let Some(c) = self.peek() {
            if first(c) {
                self.i += 1;
                while let Some(c) = self.peek() {
                    if more(c) {
                        self.i += 1;
                    } else {
                        break;
                    }
                }
            }
        }
        self.cs[s..self.i].iter().collect()
    }
}

fn mn_first(c: char) -> bool {
    c.is_ascii_alphabetic() || c == '_' || c == ':'
}
fn mn_more(c: char) -> bool {
    c.is_ascii_alphanumeric() || c == '_' || c == ':'
}
fn ln_first(c: char) -> bool {
    c.is_ascii_alphabetic() || c == '_'
}
fn ln_more(c: char) -> bool {
    c.is_ascii_alphanumeric() || c == '_'
}

enum Line {
    Blank,
    Help(String, String),
    Type(String, String),
    Sample(Sample),
}

fn unescape_help(s: &str) -> Result<String, String> {
    let mut out = String::new();
    let mut it = s.chars();
    while let Some(c) = it.next() {
        if c == '\\' {
            match it.next() {
                Some('\\') => out.push('\\'),
                Some('n') => out.push('\n'),
                Some(o) => return Err(format!("invalid escape sequence \\{} in HELP text", o)),
                None => return Err("HELP text ends inside an escape sequence".to_string()),
            }
        } else {
            out.push(c);
        }
    }
    Ok(out)
}

fn parse_line(line: &str, no: usize) -> Result<Line, String> {
    let cs: Vec<char> = line.chars().collect();
    let mut c = Cursor { cs: &cs, i: 0 };
    c.skip_ws();
    if c.at_end() {
        return Ok(Line::Blank);
    }
    if c.peek() == Some('#') {
        c.next();
        c.skip_ws();
        let kw = c.token();
        if kw != "HELP" && kw != "TYPE" {
            return Err("comment line (only HELP and TYPE may follow '#')".to_string());
        }
        if c.skip_ws() == 0 {
            return Err(format!("{} line without a metric name", kw));
        }
        let name = c.name(mn_first, mn_more);
        if name.is_empty() {
            return Err(format!("{} line without a valid metric name", kw));
        }
        if kw == "HELP" {
            if c.at_end() {
                return Ok(Line::Help(name, String::new()));
            }
            if c.skip_ws() == 0 {
                return Err("invalid character in the metric name of a HELP line".to_string());
            }
            // the first blank separates name and text; the text runs to the end of the line
            let doc = unescape_help(&c.rest())?;
            return Ok(Line::Help(name, doc));
        }
        if c.skip_ws() == 0 {
            return Err("invalid character in the metric name of a TYPE line, or type missing".to_string());
        }
        let ty = c.token();
        c.skip_ws();
        if !c.at_end() {
            return Err("text after the type of a TYPE line".to_string());
        }
        return match ty.as_str() {
            "counter" | "gauge" | "histogram" | "summary" | "untyped" => Ok(Line::Type(name, ty)),
            _ => Err(format!("unknown metric type {:?}", ty)),
        };
    }
    // sample
    let name = c.name(mn_first, mn_more);
    if name.is_empty() {
        return Err("line is neither HELP, TYPE, sample nor blank".to_string());
    }
    let mut labels: Vec<(String, String)> = vec![];
    let ws = c.skip_ws();
    if c.peek() == Some('{') {
        c.next();
        loop {
            c.skip_ws();
            if c.peek() == Some('}') {
                c.next();
                break;
            }
            let ln = c.name(ln_first, ln_more);
            if ln.is_empty() {
                return Err("invalid start of a label name".to_string());
            }
            c.skip_ws();
            if c.next() != Some('=') {
                return Err(format!("label name {:?} not followed by '='", ln));
            }
            c.skip_ws();
            if c.next() != Some('"') {
                return Err(format!("value of label {:?} is not quoted", ln));
            }
            let mut v = String::new();
            loop {
                match c.next() {
                    None => return Err(format!("value of label {:?} is not terminated on its line", ln)),
                    Some('"') => break,
                    Some('\\') => match c.next() {
                        Some('\\') => v.push('\\'),
                        Some('"') => v.push('"'),
                        Some('n') => v.push('\n'),
                        Some(o) => return Err(format!("invalid escape sequence \\{} in a label value", o)),
                        None => return Err("line ends inside an escape sequence of a label value".to_string()),
                    },
                    Some(o) => v.push(o),
                }
            }
            if labels.iter().any(|(k, _)| *k == ln) {
                return Err(format!("duplicate label name {:?}", ln));
            }
            labels.push((ln, v));
            c.skip_ws();
            match c.next() {
                Some(',') => continue,
                Some('}') => break,
                _ => return Err("label pairs not separated by a comma".to_string()),
            }
        }
        c.skip_ws();
    } else if ws == 0 {
        return Err("invalid character in a metric name".to_string());
    }
    let value = c.token();
    if value.is_empty() {
        return Err("sample without a value".to_string());
    }
    if parse_go_float(&value).is_none() {
        return Err(format!("sample value {:?} is not a float", value));
    }
    c.skip_ws();
    let mut timestamp = None;
    if !c.at_end() {
        let ts = c.token();
        if !is_int_token(&ts) {
            return Err(format!("timestamp {:?} is not an integer", ts));
        }
        timestamp = Some(ts);
        c.skip_ws();
        if !c.at_end() {
            return Err("text after the timestamp".to_string());
        }
    }
    Ok(Line::Sample(Sample { name, labels, value, timestamp, line: no }))
}

struct Group {
    name: String,
    mtype: Option<(String, usize)>,
    help: Option<String>,
    samples: Vec<Sample>,
}

/// Parse with explicit options.
pub fn parse_exposition_with(text: &str, opts: &ParseOptions) -> Result<Exposition, String> {
    let mut exp = Exposition::default();
    if text.is_empty() {
        return Ok(exp);
    }
    if !text.ends_with('\n') {
        return Err("last line is not terminated by a line feed".to_string());
    }
    let body = &text[..text.len() - 1];
    let mut cur: Option<Group> = None;
    let mut seen_names: HashSet<String> = HashSet::new();
    let mut seen_series: HashSet<(String, Vec<(String, String)>)> = HashSet::new();

    fn close(cur: &mut Option<Group>, exp: &mut Exposition) -> Result<(), String> {
        if let Some(g) = cur.take() {
            match g.mtype {
                None => return Err(format!("family {:?} has no TYPE line", g.name)),
                Some((t, l)) => exp.families.push(Family { name: g.name, mtype: t, help: g.help, samples: g.samples, type_line: l }),
            }
        }
        Ok(())
    }

    for (idx, raw) in body.split('\n').enumerate() {
        let no = idx + 1;
        let line = parse_line(raw, no).map_err(|e| format!("line {}: {}", no, e))?;
        match line {
            Line::Blank => exp.n_blank += 1,
            Line::Help(name, doc) => {
                exp.n_help += 1;
                let same = cur.as_ref().map_or(false, |g| g.name == name);
                if same {
                    let g = cur.as_mut().unwrap();
                    if g.help.is_some() {
                        return Err(format!("line {}: second HELP line for family {:?}", no, name));
                    }
                    if !g.samples.is_empty() {
                        return Err(format!("line {}: HELP line after samples of family {:?}", no, name));
                    }
                    g.help = Some(doc);
                } else {
                    close(&mut cur, &mut exp).map_err(|e| format!("line {}: {}", no, e))?;
                    if !seen_names.insert(name.clone()) {
                        return Err(format!("line {}: family {:?} appears in more than one group", no, name));
                    }
                    cur = Some(Group { name, mtype: None, help: Some(doc), samples: vec![] });
                }
            }
            Line::Type(name, ty) => {
                exp.n_type += 1;
                let same = cur.as_ref().map_or(false, |g| g.name == name);
                if same {
                    let g = cur.as_mut().unwrap();
                    if g.mtype.is_some() {
                        return Err(format!("line {}: second TYPE line for family {:?}", no, name));
                    }
                    if !g.samples.is_empty() {
                        return Err(format!("line {}: TYPE line after samples of family {:?}", no, name));
                    }
                    g.mtype = Some((ty, no));
                } else {
                    close(&mut cur, &mut exp).map_err(|e| format!("line {}: {}", no, e))?;
                    if !seen_names.insert(name.clone()) {
                        return Err(format!("line {}: family {:?} appears in more than one group", no, name));
                    }
                    cur = Some(Group { name, mtype: Some((ty, no)), help: None, samples: vec![] });
                }
            }
            Line::Sample(s) => {
                exp.n_sample += 1;
                let g = match cur.as_mut() {
                    Some(g) if g.mtype.is_some() => g,
                    _ => return Err(format!("line {}: sample {:?} without a preceding TYPE line of its family", no, s.name)),
                };
                let ty = g.mtype.as_ref().unwrap().0.clone();
                if !sample_belongs(&g.name, &ty, &s.name) {
                    if !opts.allow_foreign_sample_names {
                        return Err(format!(
                            "line {}: sample name {:?} is not family name {:?} plus a suffix allowed for type {}",
                            no, s.name, g.name, ty
                        ));
                    }
                    exp.foreign.push((exp.families.len(), g.samples.len()));
                } else if let Err(e) = role_allowed(&g.name, &ty, &s) {
                    return Err(format!("line {}: {}", no, e));
                }
                if opts.reject_duplicate_series {
                    let mut ls = s.labels.clone();
                    ls.sort();
                    if !seen_series.insert((s.name.clone(), ls)) {
                        return Err(format!("line {}: duplicate sample {:?} with the same label set", no, s.name));
                    }
                }
                g.samples.push(s);
            }
        }
    }
    close(&mut cur, &mut exp)?;
    Ok(exp)
}

#[cfg(test)]
mod tests {
    use super::*;

    #[test]
    fn accepts_plain() {
        let t = "# HELP a_b some \\\\ text \\n more\n# TYPE a_b counter\na_b{k=\"v \\\" \\\\ \\n x\",z=\"\"} 12\na_b 0.5\n\n# TYPE h histogram\nh_bucket{le=\"+Inf\"} 3\nh_sum NaN\nh_count 3\n\n";
        let e = parse_exposition(t).unwrap();
        assert_eq!(e.families.len(), 2);
        assert_eq!(e.families[0].help.as_deref(), Some("some \\ text \n more"));
        assert_eq!(e.families[0].samples[0].labels[0].1, "v \" \\ \n x");
        assert_eq!(e.n_sample, 5);
    }

    #[test]
    fn rejects() {
        for bad in [
            "a 1",                                   // no final LF
            "# TYPE a counter\nb 1\n",               // foreign sample
            "a 1\n",                                 // no TYPE
            "# TYPE a counter\na{k=\"v\"x=\"y\"} 1\n", // missing comma
            "# TYPE a counter\na{k=\"v\\t\"} 1\n",   // bad escape
            "# TYPE a counter\na 1\n# TYPE a counter\n", // two groups
            "# TYPE a counter\na 1\n# HELP a x\n",
            "# hello\n",
            "# TYPE a counter\n1a 1\n",
            "# TYPE a counter\na{1k=\"v\"} 1\n",
            "# TYPE a counter\na{k=\"v\",k=\"w\"} 1\n",
            "# TYPE a counter\na x\n",
            "# HELP a x\n\n",
            "# HELP a bad \\q\n# TYPE a counter\n",
            "# TYPE h histogram\nh{quantile=\"0.5\"} 1\nh_sum 1\nh_count 1\n", // summary samples under TYPE histogram
            "# TYPE h histogram\nh_bucket 1\n",                               // bucket without le
            "# TYPE s summary\ns 1\n",                                        // summary sample without quantile
            "# TYPE c counter\nc{le=\"1\"} 1\n",
        ] {
            assert!(parse_exposition(bad).is_err(), "{:?}", bad);
        }
    }
}
