//! ndjson trace writer + pointer renaming.
use serde_json::Value;
use std::collections::HashMap;
use std::io::Write;

pub struct Writer {
    f: std::io::BufWriter<std::fs::File>,
    pub lines: usize,
}

impl Writer {
    pub fn create(path: &str) -> Writer {
        Writer { f: std::io::BufWriter::new(std::fs::File::create(path).expect("create trace file")), lines: 0 }
    }
    pub fn put(&mut self, v: &Value) {
        writeln!(self.f, "{}", v).unwrap();
        self.lines += 1;
    }
    pub fn finish(mut self) {
        self.f.flush().unwrap();
    }
}

/// Renames heap addresses to small integers in order of first appearance; ids of retired
/// addresses are never reused (address reuse cannot alias).
#[derive(Default)]
pub struct Namer {
    ids: HashMap<i64, i64>,
    next: i64,
}

impl Namer {
    pub fn new() -> Namer {
        let mut n = Namer { ids: HashMap::new(), next: 1 };
        n.ids.insert(0, 0);
        n
    }
    /// name (allocating a fresh id if unknown)
    pub fn name(&mut self, raw: i64) -> i64 {
        if let Some(v) = self.ids.get(&raw) {
            return *v;
        }
        let id = self.next;
        self.next += 1;
        self.ids.insert(raw, id);
        id
    }
    /// look up without allocating: unknown pointers are -1
    pub fn peek(&self, raw: i64) -> i64 {
        self.ids.get(&raw).cloned().unwrap_or(-1)
    }
    pub fn retire(&mut self, raw: i64) -> i64 {
        if raw == 0 {
            return 0;
        }
        self.ids.remove(&raw).unwrap_or(-1)
    }
}
