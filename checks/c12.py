"""C12: idle metrics are dropped exactly when they were idle longer than the timeout.
Spec: specs/Recency/Recency.tla (Registry + Generational + Recency::should_store, one action per public call)."""
import json, os
import vlib

SPEC = "Recency"
KNOWN = {"CF12": "CF12", "CF12c": "CF12c"}
# FALSE: the recency map is keyed by the key alone, as coded today (finding CF12 = named deviation `interf`).
# TRUE : after a repair that keys the map by (kind, key): no allowance anywhere, witnesses dropped.
# VERIF_C12_FIXED=1 selects TRUE without editing (used to test notes/c12_fix_CF12.diff with bin/mutcheck);
# the trace config of the repaired variant is generated from TraceRecency.cfg.
# The repair (one recency map per kind) is applied in /repo (fix commit ab0f27c): TRUE is the default;
# VERIF_C12_FIXED=0 selects the pre-fix model again (only useful to study the old behaviour).
KEY_BY_KIND = os.environ.get("VERIF_C12_FIXED", "1") == "1"

INV = "TypeOK ObserveExact NeverDropUncovered DropRemoves KeepKeeps FreshRestart InterferenceIsCrossKind UncoveredUntracked"
STRICT = "TypeOK StrictObserveExact NoInterference NeverDropUncovered DropRemoves KeepKeeps FreshRestart UncoveredUntracked"
BIG = 100000000


def mc_cfg(name, kinds, keys, masks, timeouts, steps, delta=0, kbk=None, inv=None, spec="Spec", mode=None,
           observers=(), gen_ordered=False):
    kbk = KEY_BY_KIND if kbk is None else kbk
    if inv is None:
        inv = STRICT if kbk else INV
    p = os.path.join(vlib.SPECS, SPEC, "gen_%s.cfg" % name)
    with open(p, "w") as f:
        f.write("SPECIFICATION %s\nCONSTANTS\n" % spec)
        f.write(" Kinds = {%s}\n Keys = {%s}\n" % (",".join('"%s"' % k for k in kinds), ",".join(str(k) for k in keys)))
        f.write(" KeyByKind = %s\n Masks <- %s\n Timeouts <- %s\n" % ("TRUE" if kbk else "FALSE", masks, timeouts))
        f.write(" MaxDelta = %d\n MaxSteps = %d\n MaxNow = %d\n MaxGen = %d\n" % (delta, steps, BIG, BIG))
        f.write(" GenOrderedCompare = %s\n Observers = {%s}\n" % ("TRUE" if gen_ordered else "FALSE", ",".join(str(o) for o in observers)))
        if mode:
            f.write(' Mode = "%s"\n' % mode)
        f.write("INVARIANTS %s\nCHECK_DEADLOCK FALSE\n" % inv)
    return os.path.basename(p)


RACE_INV = "TypeOK DropOnlyIfQuiet DropWhenQuiet NothingLost FullValue"


def race_cfg(name, updaters, nupd, nobs, timeouts, maxnow, genfirst=False, spec="Spec", inv=RACE_INV):
    """Configurations of specs/Recency/RecencyRace.tla (updates and observations split into their steps)."""
    p = os.path.join(vlib.SPECS, SPEC, "gen_race_%s.cfg" % name)
    with open(p, "w") as f:
        f.write("SPECIFICATION %s\nCONSTANTS\n" % spec)
        f.write(" Updaters = {%s}\n NUpd = %d\n NObs = %d\n Timeouts = {%s}\n Deltas = {1}\n" %
                (",".join(str(u) for u in updaters), nupd, nobs, ",".join(str(t) for t in timeouts)))
        f.write(" GenFirst = %s\n MaxNow = %d\n" % ("TRUE" if genfirst else "FALSE", maxnow))
        f.write("INVARIANTS %s\nCHECK_DEADLOCK FALSE\n" % inv)
    return os.path.basename(p)


def race_part(chk, env, thorough):
    """Concurrency: an update is two steps (value write, generation bump), an observation three (generation
    read, decision, value read).  TLC over all interleavings; the real code driven with emitters held inside
    the inner storage primitive (custom public-API Storage) and validated by TraceRecencyRace."""
    cfgs = [("2upd_x1_3obs", dict(updaters=[1, 2], nupd=1, nobs=3, timeouts=[2, 3], maxnow=8)),
            ("2upd_x2_3obs", dict(updaters=[1, 2], nupd=2, nobs=3, timeouts=[2], maxnow=7))]
    if thorough:
        cfgs += [("2upd_x2_4obs", dict(updaters=[1, 2], nupd=2, nobs=4, timeouts=[2, 3], maxnow=10)),
                 ("3upd_x1_3obs", dict(updaters=[1, 2, 3], nupd=1, nobs=3, timeouts=[2, 3], maxnow=8))]
    for name, kw in cfgs:
        cfg = race_cfg(name, **kw)
        r = vlib.tlc_mc(SPEC, "RecencyRace", cfg, workers=8, timeout=3000 if thorough else 600, tag="race_" + name)
        if not chk.expect_mc_ok(r, "RecencyRace/" + name):
            return
        chk.log("TLC race %s: %d distinct states, depth %d, %.0fs" % (name, r["distinct"], r["depth"], r["wall"]))
    # the model must be able to tell the orders apart: generation published before the value is rejected
    cfg = race_cfg("wit_genfirst", updaters=[1], nupd=1, nobs=2, timeouts=[2], maxnow=6, genfirst=True,
                   spec="SimSpec", inv="DropOnlyIfQuiet NothingLost")
    r = vlib.tlc_mc(SPEC, "SimRecencyRace", cfg, workers=4, timeout=600, coverage=False, tag="race_wit")
    wit = vlib.last_state_var(r["out"], "hist")
    if r["invariant"] not in ("DropOnlyIfQuiet", "NothingLost") or not wit:
        chk.tool_error("RecencyRace no longer rejects GenFirst = TRUE (generation bumped before the value)", r["out"][-2000:])
    chk.notes["race_genfirst_witness"] = {"violates": r["invariant"], "depth": r["depth"], "schedule": wit}

    # impl -> spec: directed timelines (emitter held before / after the primitive's effect around observation #1,
    # counter / gauge / histogram, advance by timeout-1 / timeout / timeout+1) + random legal schedules
    tr = chk.path("race_record.ndjson")
    rc, out, summ = vlib.harness("c12", ["race", "--runs", 3000 if thorough else 400, "--out", tr], env=env, timeout=1800)
    if rc != 0 or not summ:
        chk.tool_error("c12 race failed", out)
    n = vlib.validate_concat(chk, SPEC, "TraceRecencyRace", "TraceRecencyRace.cfg", tr, "recorded schedules with updates held inside the storage primitive", KNOWN, timeout=3000)
    chk.cov["traces_validated_against_impl"] += n
    chk.cov["distinct_nontrivial"] += summ.get("runs_with_overlap", 0)
    chk.notes["race_record"] = summ
    chk.log("race: %s" % json.dumps(summ))

    # spec -> impl: interleavings generated by TLC from the split model (+ the GenFirst counterexample schedule:
    # on the real code it must behave as the value-first model says)
    progs = chk.path("race_programs.ndjson")
    with open(progs, "w") as f:
        f.write(json.dumps({"mode": "race", "timeout": 2, "ops": wit}) + "\n")
        for kind in ("c", "g", "h"):
            f.write(json.dumps({"mode": "race", "kind": kind, "timeout": 2, "ops": wit}) + "\n")
        behs = []
        if thorough:
            # every complete interleaving of one update x two observations x ticks up to 3 (about 34 000)
            cfg = race_cfg("enum", updaters=[1], nupd=1, nobs=2, timeouts=[2], maxnow=3, spec="SimSpec", inv="Emit")
            r = vlib.tlc_mc(SPEC, "SimRecencyRace", cfg, workers=1, timeout=900, coverage=False, tag="race_enum")
            behs = vlib.replay_lines(r["out"])
            if not behs or not r["ok"]:
                chk.tool_error("no interleavings enumerated", r["out"][-2000:])
            chk.notes["race_enumerated_interleavings"] = len(behs)
        for name, kw in [("sim2", dict(updaters=[1, 2], nupd=2, nobs=3, timeouts=[2, 3], maxnow=9)),
                         ("sim1", dict(updaters=[1], nupd=3, nobs=4, timeouts=[2], maxnow=9))]:
            cfg = race_cfg(name, spec="SimSpec", inv="Emit", **kw)
            r = vlib.tlc_mc(SPEC, "SimRecencyRace", cfg, workers=1, timeout=900, coverage=False, tag="race_" + name,
                            extra=["-simulate", "num=%d" % (1500 if thorough else 250), "-depth", "100", "-seed", str(chk.seed)])
            b = vlib.replay_lines(r["out"])
            if not b:
                chk.tool_error("no behaviours generated by race " + name, r["out"][-2000:])
            behs += b
        for b in behs:
            f.write(json.dumps(b) + "\n")
    tr2 = chk.path("race_replay.ndjson")
    rc, out, summ2 = vlib.harness("c12", ["race-replay", "--in", progs, "--out", tr2], env=env, timeout=1800)
    if rc != 0 or not summ2:
        chk.tool_error("c12 race-replay failed", out)
    n2 = vlib.validate_concat(chk, SPEC, "TraceRecencyRace", "TraceRecencyRace.cfg", tr2, "replayed TLC interleavings", KNOWN, timeout=3000)
    chk.cov["traces_validated_against_impl"] += n2
    chk.cov["distinct_nontrivial"] += summ2.get("runs_with_overlap", 0)
    chk.notes["race_replay"] = summ2
    chk.log("race-replay: %s" % json.dumps(summ2))
    if summ.get("hangs", 0) or summ2.get("hangs", 0):
        chk.log("emitters stuck inside the code under test:", summ.get("hangs", 0) + summ2.get("hangs", 0))


def trace_cfg():
    """TraceRecency.cfg is committed for the current tree (KeyByKind = TRUE, strict invariants); the variant for the
    other setting of KEY_BY_KIND is generated from it."""
    src = open(os.path.join(vlib.SPECS, SPEC, "TraceRecency.cfg")).read()
    committed_kbk = "KeyByKind = TRUE" in src
    if committed_kbk == KEY_BY_KIND:
        return "TraceRecency.cfg"
    if KEY_BY_KIND:
        src = src.replace("KeyByKind = FALSE", "KeyByKind = TRUE").replace(INV, STRICT)
    else:
        src = src.replace("KeyByKind = TRUE", "KeyByKind = FALSE").replace(STRICT, INV)
    open(os.path.join(vlib.SPECS, SPEC, "gen_TraceRecency_alt.cfg"), "w").write(src)
    return "gen_TraceRecency_alt.cfg"


def run(chk):
    thorough = chk.tier == "thorough"
    chk.assumptions += [
        "Recency.tla: calls are atomic (sequential histories). RecencyRace.tla: one covered series, updates split into value write / "
        "generation bump and observations into generation read / decision / value read, sequentially consistent interleavings; "
        "an update that overlaps an observation may be ordered after it (happens-before form of the property); the run ends at a drop",
        "race conformance: the update's two halves are separated by holding the emitter inside a custom inner Storage primitive "
        "(before / after its effect); steps are handshakes, so only interleavings at those points are exercised on the real code",
        "time is the mock quanta clock in whole ticks (1 tick = 1 ms); Instant subtraction is exact",
        "Generation numbers are read from the Debug rendering of the opaque `Generation`",
        "Prometheus mode: one series per (kind, name), no labels; families are read from render() by a line scan "
        "(TYPE lines; value = sample named like the family, `<name>_count` for histograms)",
    ]
    # ---------------------------------------------------------------- 1. exhaustive model checking
    cg = ["c", "g"]
    cfgs = [  # name, kwargs
        ("two_kinds_two_keys", dict(kinds=cg, keys=[1, 2], masks="FullMask", timeouts="TO_2", steps=7)),
        ("same_key_full_mask", dict(kinds=cg, keys=[1], masks="FullMask", timeouts="TO_23", steps=8, delta=1)),
        ("same_key_all_masks", dict(kinds=cg, keys=[1], masks="AllMasks", timeouts="TO_n23", steps=7, delta=1)),
        # one extra exporter whose observation overlaps (snapshot now, should_store later), registry-side removals
        ("overlapping_observer", dict(kinds=["c"], keys=[1], masks="FullMask", timeouts="TO_2", steps=9, delta=1, observers=[1])),
        ("single_kind_strict", dict(kinds=["c"], keys=[1, 2], masks="AllMasks", timeouts="TO_n23", steps=7, delta=1, inv=STRICT)),
    ]
    if thorough:
        cfgs += [
            ("same_key_all_masks_8", dict(kinds=cg, keys=[1], masks="AllMasks", timeouts="TO_n23", steps=8, delta=1)),
            ("same_key_full_mask_9", dict(kinds=cg, keys=[1], masks="FullMask", timeouts="TO_23", steps=9, delta=1)),
            ("two_kinds_two_keys_t3", dict(kinds=cg, keys=[1, 2], masks="FullMask", timeouts="TO_23", steps=8)),
            ("two_kinds_two_keys_all_masks", dict(kinds=cg, keys=[1, 2], masks="AllMasks", timeouts="TO_n23", steps=7, delta=1)),
            ("three_kinds_same_key", dict(kinds=["c", "g", "h"], keys=[1], masks="AllMasks", timeouts="TO_n23", steps=8, delta=1)),
        ]
    if not KEY_BY_KIND:
        cfgs.append(("repaired_per_kind_entries", dict(kinds=cg, keys=[1, 2], masks="FullMask", timeouts="TO_2", steps=7, kbk=True)))
    if thorough and not KEY_BY_KIND:
        cfgs.append(("repaired_all_masks", dict(kinds=cg, keys=[1, 2], masks="AllMasks", timeouts="TO_n23", steps=7, delta=1, kbk=True)))
    if thorough:
        cfgs.append(("overlapping_observers_2kinds", dict(kinds=cg, keys=[1], masks="FullMask", timeouts="TO_2", steps=8, observers=[1])))
    for name, kw in cfgs:
        cfg = mc_cfg(name, **kw)
        r = vlib.tlc_mc(SPEC, "MCRecency", cfg, workers=8, timeout=3000 if thorough else 600, tag=name)
        if not chk.expect_mc_ok(r, "Recency/" + name):
            return
        chk.log("TLC %s: %d distinct states, depth %d, %.0fs" % (name, r["distinct"], r["depth"], r["wall"]))

    # ---------------------------------------------------------------- 2. harness
    ok, out, wall = vlib.cargo_build("c12")
    if not ok:
        chk.tool_error("harness build failed", out)
    chk.log("harness built in %.0fs" % wall)
    env = {"VERIF_SEED": str(chk.seed)}
    tcfg = trace_cfg()

    # ---------------------------------------------------------------- 3. impl -> spec: random timelines
    nrec = 4000 if thorough else 500
    tr = chk.path("record.ndjson")
    rc, out, summ = vlib.harness("c12", ["record", "--runs", nrec, "--out", tr], env=env)
    if rc != 0 or not summ:
        chk.tool_error("c12 record failed", out)
    n = vlib.validate_concat(chk, SPEC, "TraceRecency", tcfg, tr, "recorded random timelines", KNOWN, timeout=3000)
    chk.cov["traces_validated_against_impl"] += n
    chk.cov["distinct_nontrivial"] += summ.get("distinct_with_drop", 0)
    chk.notes["record"] = summ
    chk.log("record: %s" % json.dumps(summ))

    # ---------------------------------------------------------------- 4. spec -> impl: timelines generated by TLC
    progs = chk.path("programs.ndjson")
    nb = 0
    with open(progs, "w") as f:
        # (a) every timeline of a tiny scope (same key under two kinds), exhaustively enumerated
        cfg = mc_cfg("enum", kinds=cg, keys=[1], masks="FullMask", timeouts="TO_2", steps=5 if thorough else 4,
                     spec="SimSpec", inv="Emit", mode="direct")
        r = vlib.tlc_mc(SPEC, "MCSimRecency", cfg, workers=1, timeout=900, coverage=False, tag="enum")
        behs = vlib.replay_lines(r["out"])
        if not behs or not r["ok"]:
            chk.tool_error("no timelines enumerated", r["out"][-2000:])
        for b in behs:
            f.write(json.dumps(b) + "\n")
        nb += len(behs)
        chk.notes["enumerated_timelines"] = len(behs)
        # (b) random walks of the specification over larger scopes
        sims = [("sim_direct_cg", dict(kinds=cg, keys=[1, 2], masks="FullMask", timeouts="TO_23", steps=14, observers=[1]), "direct"),
                ("sim_direct_c_overlap", dict(kinds=["c"], keys=[1], masks="FullMask", timeouts="TO_2", steps=16, delta=1, observers=[1, 2]), "direct"),
                ("sim_direct_cgh", dict(kinds=["c", "g", "h"], keys=[1, 2], masks="AllMasks", timeouts="TO_n23", steps=12, delta=1), "direct"),
                ("sim_prom", dict(kinds=["c", "g", "h"], keys=[1, 2], masks="AllMasks", timeouts="TO_n23", steps=12, delta=1), "prom")]
        for name, kw, mode in sims:
            cfg = mc_cfg(name, spec="SimSpec", inv="Emit", mode=mode, **kw)
            num = 1500 if thorough else 200
            r = vlib.tlc_mc(SPEC, "MCSimRecency", cfg, workers=1, timeout=900, coverage=False, tag=name,
                            extra=["-simulate", "num=%d" % num, "-depth", "40", "-seed", str(chk.seed)])
            behs = vlib.replay_lines(r["out"])
            if not behs:
                chk.tool_error("no behaviours generated by " + name, r["out"][-2000:])
            for b in behs:
                f.write(json.dumps(b) + "\n")
            nb += len(behs)
            if len(chk.cov["samples"]) < 3:
                chk.cov["samples"].append({"source": "TLC timeline " + name, "mask": behs[0]["mask"],
                                           "timeout": behs[0]["timeout"], "ops": behs[0]["ops"]})
        # (c) witnesses of CF12: TLC counterexamples to the property WITHOUT the allowance, replayed on the
        #     real code; the KNOWN-FINDING line is printed only if the real code really still does it
        # CF12c (stale entry, equal generation): TLC counterexample to the property with no allowance, replayed on the
        # real code; and the comparison `gen > last_gen` (GenOrderedCompare) must be rejected by TLC even WITH the
        # CF12c allowance -- its counterexample (fresh series with fewer updates than the stale entry) is replayed too:
        # the real code must keep that series.
        for name, inv, go in [("wit_cf12c", "NoStaleObserveExact", False), ("wit_gen_ordered", STRICT if KEY_BY_KIND else INV, True)]:
            cfg = mc_cfg(name, kinds=["c"], keys=[1], masks="FullMask", timeouts="TO_2", steps=9, delta=1,
                         spec="SimSpec", inv=inv, mode="direct", gen_ordered=go)
            r = vlib.tlc_mc(SPEC, "MCSimRecency", cfg, workers=4, timeout=600, coverage=False, tag=name)
            hist = vlib.last_state_var(r["out"], "hist")
            want = ("NoStaleObserveExact",) if not go else ("StrictObserveExact", "ObserveExact")
            if r["invariant"] not in want or not hist:
                chk.tool_error("no TLC witness for %s (invariant=%s)" % (name, r["invariant"]), r["out"][-2000:])
            f.write(json.dumps({"mode": "direct", "mask": ["c"], "timeout": 2, "ops": hist}) + "\n")
            nb += 1
            chk.notes[name] = {"violates": r["invariant"], "depth": r["depth"], "ops": hist}
        if not KEY_BY_KIND:
            for name, mode in [("wit_cf12_direct", "direct"), ("wit_cf12_prom", "prom")]:
                cfg = mc_cfg(name, kinds=cg, keys=[1], masks="FullMask", timeouts="TO_2", steps=8, delta=1,
                             spec="SimSpec", inv="StrictObserveExact", mode=mode)
                r = vlib.tlc_mc(SPEC, "MCSimRecency", cfg, workers=4, timeout=600, coverage=False, tag=name)
                hist = vlib.last_state_var(r["out"], "hist")
                if r["invariant"] != "StrictObserveExact" or not hist:
                    chk.tool_error("no TLC witness for CF12 (%s; invariant=%s)" % (name, r["invariant"]), r["out"][-2000:])
                f.write(json.dumps({"mode": mode, "mask": cg, "timeout": 2, "ops": hist}) + "\n")
                nb += 1
                chk.notes[name] = {"depth": r["depth"], "ops": hist}
    tr2 = chk.path("replay.ndjson")
    rc, out, summ2 = vlib.harness("c12", ["replay", "--in", progs, "--out", tr2], env=env)
    if rc != 0 or not summ2:
        chk.tool_error("c12 replay failed", out)
    n2 = vlib.validate_concat(chk, SPEC, "TraceRecency", tcfg, tr2, "replayed TLC timelines", KNOWN, timeout=3000)
    chk.cov["traces_validated_against_impl"] += n2
    chk.cov["distinct_nontrivial"] += summ2.get("distinct_with_drop", 0)
    chk.notes["replay"] = summ2
    chk.log("replay: %s" % json.dumps(summ2))
    if summ2.get("diverged", 0):
        chk.log("observations whose result differs from the specification's:", summ2["diverged"])
    if "CF12c" not in chk.known_printed and chk.violations == 0:
        chk.tool_error("CF12c witness did not reproduce on the real code although the traces were accepted")
    if not KEY_BY_KIND and "CF12" not in chk.known_printed and chk.violations == 0:
        # the witnesses were replayed and accepted, yet no observation deviated: the code no longer shares entries
        chk.tool_error("CF12 witness did not reproduce on the real code although the traces were accepted")

    # ---------------------------------------------------------------- 5. updates racing with observations
    race_part(chk, env, thorough)

    with open(tr) as f:
        head = [json.loads(next(f)) for _ in range(10)]
    chk.cov["samples"].append({"source": "recorded run (first events)", "events": head})
    chk.cov["rule"] = ("exhaustive TLC over all timelines (register / update incl. value-preserving / tick in {1,T-1,T,T+1} / observe / "
                       "render) within the listed bounds, all masks, timeouts None/2/3; implementation runs = seeded random timelines "
                       "(direct Registry+Recency and through the Prometheus recorder) + every timeline of a tiny scope enumerated by TLC "
                       "+ TLC random walks, each run validated event by event against the spec; RecencyRace: all interleavings of "
                       "1-3 updaters x 1-2 updates (2 steps each) x 3-4 observations (3 steps each) x ticks, real code driven with emitters "
                       "held inside the storage primitive (directed + random + TLC-generated schedules); "
                       "distinct_nontrivial = distinct runs in which at least one series was dropped")


def _trace_to_programs(path, out):
    """Re-derive the programs (configuration + operations) from a recorded trace, so a replay re-executes
    them on the current code instead of re-reading old results."""
    n = 0
    cur = None
    with open(out, "w") as f:
        def flush():
            nonlocal n
            if cur is not None:
                f.write(json.dumps(cur) + "\n")
                n += 1
        for line in open(path):
            line = line.strip()
            if not line:
                continue
            e = json.loads(line)
            ev = e.get("ev")
            if ev == "reset":
                flush()
                cur = {"mode": e["mode"], "mask": e.get("mask", []), "timeout": e["timeout"], "ops": []}
                if "kind" in e:
                    cur["kind"] = e["kind"]
            elif cur is None:
                continue
            elif ev == "u.begin":
                cur["ops"].append(["ubegin", e["u"], e["d"]])
            elif ev == "u.value":
                cur["ops"].append(["ustep1", e["u"]])
            elif ev == "u.end":
                cur["ops"].append(["ustep2", e["u"]])
            elif ev == "o.gen":
                cur["ops"].append(["ogen"])
            elif ev == "o.decide" and "ob" not in e:
                cur["ops"].append(["odecide"])
            elif ev == "o.val":
                cur["ops"].append(["oval"])
            elif ev == "register":
                cur["ops"].append(["register", e["kind"], e["key"]])
            elif ev == "update":
                cur["ops"].append(["update", e["kind"], e["key"], e["d"]])
            elif ev == "tick":
                cur["ops"].append(["tick", e["d"]])
            elif ev in ("observe", "observe_missing"):
                cur["ops"].append(["observe", e["kind"], e["key"]])
            elif ev == "render":
                cur["ops"].append(["render"])
            elif ev == "snap":
                cur["ops"].append(["snap"])
            elif ev == "remove":
                cur["ops"].append(["remove", e["kind"], e["key"]])
            elif ev == "clear":
                cur["ops"].append(["clear"])
            elif ev == "o.snap":
                cur["ops"].append(["osnap", e["ob"], e["kind"], e["key"]])
            elif ev == "o.decide" and "ob" in e:
                cur["ops"].append(["odecide", e["ob"]])
        flush()
    return n


def replay(chk, path):
    if not path.endswith(".ndjson"):
        return run(chk)     # a TLC counterexample on the specification itself: re-run the model checking
    ok, out, wall = vlib.cargo_build("c12")
    if not ok:
        chk.tool_error("harness build failed", out)
    first = json.loads(open(path).readline())
    if "ops" in first:
        progs = path
    else:
        progs = chk.path("replay_programs.ndjson")
        _trace_to_programs(path, progs)
    tr = chk.path("replay_rerun.ndjson")
    race = json.loads(open(progs).readline()).get("mode") == "race"
    rc, out, summ = vlib.harness("c12", ["race-replay" if race else "replay", "--in", progs, "--out", tr],
                                 env={"VERIF_SEED": str(chk.seed)})
    if rc != 0 or not summ:
        chk.tool_error("c12 replay failed", out)
    if race:
        n = vlib.validate_concat(chk, SPEC, "TraceRecencyRace", "TraceRecencyRace.cfg", tr, "replay " + path, KNOWN)
    else:
        n = vlib.validate_concat(chk, SPEC, "TraceRecency", trace_cfg(), tr, "replay " + path, KNOWN)
    chk.cov["traces_validated_against_impl"] += n
