"""C16: sampling reservoir reports true counts and favours no stream position.
Specs: specs/Reservoir/Reservoir.tla (atomic steps of push/consume), ResDist.tla (exact retention distribution)."""
import json, os
import vlib

SPEC = "Reservoir"
INV = "TypeOK NeverMoreThanCap DrainsExact NoPanic"
KNOWN = {"CF16c": "CF16c"}


def cfg(name, spec="Spec", inv=INV, post=False, **kw):
    base = dict(Cap=2, Pushers="{1}", NVals=3, NConsumes=2, DrawInclusive="TRUE")
    base.update(kw)
    p = os.path.join(vlib.SPECS, SPEC, "gen_%s.cfg" % name)
    with open(p, "w") as f:
        f.write("SPECIFICATION %s\nCONSTANTS\n" % spec)
        for k, v in base.items():
            f.write(" %s = %s\n" % (k, v))
        f.write("INVARIANTS %s\n" % inv)
        if post:
            f.write("POSTCONDITION TraceAccepted\n")
        f.write("CHECK_DEADLOCK FALSE\n")
    return os.path.basename(p)


def run(chk):
    thorough = chk.tier == "thorough"
    chk.assumptions += [
        "uniformity is decided exactly on the sampling rule (draw range and replaced slot), which is bound to the code by "
        "checking the logged fastrand() range and result of every overflowing push; the quality of the Xoshiro256** RNG is trusted",
        "the chi-square statistic over 100000 trials is reported in the evidence but never decides the verdict",
        "sequentially consistent interleavings",
        "consume() calls are serialised (the spec has one consumer at a time): two real consumer threads whose calls overlap in time "
        "must produce a log in which the second call's steps begin after the first one's reset; the second consumer is given 100 ms "
        "to get in before the pusher continues (waiting longer only makes a non-serialising implementation easier to see)",
    ]
    # 1a. exact retention distribution over all draw sequences
    r = vlib.tlc_mc(SPEC, "ResDist", "ResDist.cfg", workers=4, timeout=600, coverage=False, tag="dist")
    if not r["ok"]:
        p = chk.path("resdist.txt"); open(p, "w").write(r["out"][-20000:])
        chk.violation("ResDist: the sampling rule is not uniform (or an ASSUME failed): %s" % r["error"], replay_src=p)
        return
    chk.notes["resdist"] = [l for l in r["prints"] if "RESDIST" in l][:1]
    chk.cov["states"] += 1; chk.cov["transitions"] += 1
    # 1b. exhaustive interleavings
    mcs = [("seq_cap2", dict(Cap=2, Pushers="{1}", NVals=4, NConsumes=3)),
           ("conc_cap2", dict(Cap=2, Pushers="{1,2}", NVals=2, NConsumes=2)),
           ("cap0", dict(Cap=0, Pushers="{1,2}", NVals=2, NConsumes=2)),
           ("cap1", dict(Cap=1, Pushers="{1,2}", NVals=2, NConsumes=3))]
    if thorough:
        mcs += [("conc_cap2_c3", dict(Cap=2, Pushers="{1,2}", NVals=2, NConsumes=3)),
                ("conc_cap1_v3", dict(Cap=1, Pushers="{1,2}", NVals=3, NConsumes=2)),
                ("cap3", dict(Cap=3, Pushers="{1,2}", NVals=3, NConsumes=2))]
    for name, kw in mcs:
        r = vlib.tlc_mc(SPEC, "Reservoir", cfg(name, **kw), workers=8, timeout=3000, tag=name)
        exempt = {"PStore"} if kw["Cap"] == 0 else set()
        if kw["Cap"] == 0:
            exempt |= {"CRead"}
        if not chk.expect_mc_ok(r, "Reservoir/" + name, vacuity_exempt=exempt):
            return
        chk.log("TLC %s: %d distinct states" % (name, r["distinct"]))
    # witness that the model still knows the pre-fix rule is broken (CF16a/b) and that CF16c exists
    r = vlib.tlc_mc(SPEC, "Reservoir", cfg("excl", Cap=0, Pushers="{1}", NVals=1, NConsumes=1, DrawInclusive="FALSE"),
                    workers=2, timeout=300, coverage=False, tag="excl")
    if r["invariant"] != "NoPanic":
        chk.tool_error("model lost the CF16b witness", r["out"][-2000:])

    ok, out, wall = vlib.cargo_build("c16")
    if not ok:
        chk.tool_error("harness build failed", out)
    env = {"VERIF_SEED": str(chk.seed)}
    total = 0
    for cap in ([0, 1, 2, 3, 8] if thorough else [0, 1, 2, 3]):
        tcfg = cfg("trace_cap%d" % cap, spec="TraceSpec", post=True, Cap=cap, Pushers="{1,2,3}", NVals=99, NConsumes=999)
        # sequential programs: every push/consume step logged, drains compared exactly
        tr = chk.path("seq_cap%d.ndjson" % cap)
        rc, out, s1 = vlib.harness("c16", ["seq", "--cap", cap, "--runs", 400 if thorough else 80, "--out", tr], env=env)
        if rc != 0 or not s1:
            chk.tool_error("c16 seq failed", out)
        total += vlib.validate_concat(chk, SPEC, "TraceReservoir", tcfg, tr, "sequential programs cap=%d" % cap, KNOWN)
        chk.cov["distinct_nontrivial"] += s1["distinct"]
        # scheduled pushers + consumer
        tr2 = chk.path("rec_cap%d.ndjson" % cap)
        rc, out, s2 = vlib.harness("c16", ["record", "--cap", cap, "--runs", 600 if thorough else 100, "--out", tr2], env=env)
        if rc != 0 or not s2:
            chk.tool_error("c16 record failed", out)
        total += vlib.validate_concat(chk, SPEC, "TraceReservoir", tcfg, tr2, "scheduled pushers+consumer cap=%d" % cap, KNOWN)
        chk.cov["distinct_nontrivial"] += s2["distinct"]
    # overlapping consume() calls: a second consumer calls while the first one's closure is still running
    for cap in (2, 4, 8):
        tro = chk.path("overlap_cap%d.ndjson" % cap)
        rc, out, s5 = vlib.harness("c16", ["overlap", "--cap", cap, "--runs", 40 if thorough else 8, "--out", tro], env=env, timeout=900)
        if rc != 0 or not s5:
            chk.tool_error("c16 overlap failed", out)
        tcfg = cfg("trace_cap%d" % cap, spec="TraceSpec", post=True, Cap=cap, Pushers="{1,2,3}", NVals=99, NConsumes=999)
        total += vlib.validate_concat(chk, SPEC, "TraceReservoir", tcfg, tro, "overlapping consume() calls cap=%d" % cap, KNOWN)
        chk.cov["distinct_nontrivial"] += s5["distinct"]
    # pushes from a thread-local destructor at thread exit
    for cap in (0, 1, 2, 8):
        trt = chk.path("tls_cap%d.ndjson" % cap)
        rc, out, s7 = vlib.harness("c16", ["tls", "--cap", cap, "--runs", 40 if thorough else 10, "--out", trt], env=env, timeout=600)
        if rc != 0 or not s7:
            chk.tool_error("c16 tls failed", out)
        tcfg = cfg("trace_cap%d" % cap, spec="TraceSpec", post=True, Cap=cap, Pushers="{1,2,3}", NVals=99, NConsumes=999)
        total += vlib.validate_concat(chk, SPEC, "TraceReservoir", tcfg, trt, "push from a thread-exit destructor cap=%d" % cap, KNOWN)
    # real-parallel hammer (pushers + consumer, small capacities): schedule-independent facts decided by TLC
    for cap in (0, 1, 2, 4):
        trh = chk.path("hammer_cap%d.ndjson" % cap)
        rc, out, s6 = vlib.harness("c16", ["hammer", "--cap", cap, "--runs", 24 if thorough else 4, "--out", trh], env=env, timeout=900)
        if rc != 0 or not s6:
            chk.tool_error("c16 hammer failed", out)
        if cap > 0 and s6["kilo_draws"] == 0:
            chk.tool_error("c16 hammer: no overflowing push was observed", out)
        tcfg = cfg("trace_cap%d" % cap, spec="TraceSpec", post=True, Cap=cap, Pushers="{1,2,3}", NVals=99, NConsumes=999)
        total += vlib.validate_concat(chk, SPEC, "TraceReservoir", tcfg, trh, "real-parallel hammer cap=%d" % cap, KNOWN)
        chk.notes["hammer_cap%d" % cap] = s6
    # spec -> impl: TLC schedules (no overflow, so no draw is needed to follow them) + the CF16c witness
    progs = chk.path("programs.ndjson")
    r = vlib.tlc_mc(SPEC, "SimReservoir", cfg("sim", spec="SimSpec", inv="Emit", Cap=2, Pushers="{1,2}", NVals=1, NConsumes=2),
                    workers=1, timeout=600, coverage=False, tag="sim",
                    extra=["-simulate", "num=%d" % (1000 if thorough else 200), "-depth", "200", "-seed", str(chk.seed)])
    behs = vlib.replay_lines(r["out"])
    if not behs:
        chk.tool_error("no behaviours from SimReservoir", r["out"][-2000:])
    r = vlib.tlc_mc(SPEC, "SimReservoir", cfg("wit", spec="SimSpec", inv="StrictDrainsExact", Cap=2, Pushers="{1,2}", NVals=1, NConsumes=2),
                    workers=4, timeout=600, coverage=False, tag="wit")
    sched = vlib.last_state_var(r["out"], "sched")
    if r["invariant"] != "StrictDrainsExact" or not sched:
        chk.tool_error("no TLC witness for CF16c", r["out"][-2000:])
    with open(progs, "w") as f:
        for b in behs:
            f.write(json.dumps(b) + "\n")
        f.write(json.dumps({"cap": 2, "nvals": [1, 1], "consumes": 2, "sched": sched}) + "\n")
    chk.cov["samples"].append({"source": "TLC behaviour", "schedule": behs[0]["sched"][:30]})
    chk.cov["samples"].append({"source": "TLC counterexample to the strict property (CF16c witness)", "schedule": sched})
    tr3 = chk.path("replay.ndjson")
    rc, out, s3 = vlib.harness("c16", ["replay", "--cap", 2, "--in", progs, "--out", tr3], env=env)
    if rc != 0 or not s3:
        chk.tool_error("c16 replay failed", out)
    tcfg = cfg("trace_cap2", spec="TraceSpec", post=True, Cap=2, Pushers="{1,2,3}", NVals=99, NConsumes=999)
    total += vlib.validate_concat(chk, SPEC, "TraceReservoir", tcfg, tr3, "replayed TLC behaviours", KNOWN)
    chk.notes["replay"] = s3
    chk.cov["traces_validated_against_impl"] = total
    # informational statistic
    rc, out, s4 = vlib.harness("c16", ["stat", "--out", chk.path("stat.ndjson")], env=env)
    chk.notes["chi_square_informational"] = s4
    with open(chk.path("seq_cap2.ndjson")) as f:
        chk.cov["samples"].append({"source": "recorded sequential run", "events": [json.loads(next(f)) for _ in range(20)]})
    chk.cov["rule"] = ("TLC: all interleavings of push/consume atomic steps (1-2 pushers, cap 0-3) + all draw sequences for the "
                       "retention distribution; implementation: sequential random programs and scheduled concurrent runs per capacity "
                       "(distinct = distinct event sequences), TLC schedules replayed")


def replay(chk, path):
    vlib.cargo_build("c16")
    first = json.loads(open(path).readline())
    cap = first["a"][0]
    tcfg = cfg("trace_cap%d" % cap, spec="TraceSpec", post=True, Cap=cap, Pushers="{1,2,3}", NVals=99, NConsumes=999)
    vlib.validate_concat(chk, SPEC, "TraceReservoir", tcfg, path, "replay " + path, KNOWN)
