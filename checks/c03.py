"""C03: metrics::Key - equality, ordering and hashing agree and ignore how a key was built; get_hash() is stable
under races.
Specs: specs/KeyOrder/KeyOrder.tla (transcription of PartialEq / Ord / key_hasher_impl + the laws),
MCKeyOrder.tla (exhaustive scopes, export of verdict tables), TraceKeyOrder.tla (conformance of the pure part),
KeyHashMemo.tla / SimKeyHashMemo.tla / TraceKeyHashMemo.tla (get_hash memo + clone, one action per atomic step).
Driver: harness/src/bin/c03.rs."""
import json, os, random, re
import vlib

SPEC = "KeyOrder"
# CF03 (Eq true / cmp Less for two same-named labels in opposite orders) was found by this check and fixed in /repo
# (commit 9973904, notes/c03_fix_CF03.diff): the spec mirrors the repaired Ord::cmp (constant CF03Fixed = TRUE), the named
# deviation is unreachable and the strict law `a == b <=> cmp = Equal` is an invariant.  C03_CF03_FIXED=0 in the environment
# selects the old transcription (deviation CF03 named, witness run) to study the defect on a tree without the fix, e.g.
# `C03_CF03_FIXED=0 bin/mutcheck mutants/c03/cmp_two_label_arm_reverted.diff C03` (ends with "unlisted finding CF03" only).
CF03_FIXED = os.environ.get("C03_CF03_FIXED", "1") != "0"
PURE_INVS = ("TypeOK InvEqRefl InvEqSym InvEqTrans InvEqClasses InvCmpRefl InvCmpAntisym InvCmpTrans InvCmpRank "
             "InvEqHash InvPerm InvEqCmp InvDevIsViolation")
MEMO_INVS = "TypeOK RetOK MemoOK CloneOK"      # KeyHashMemo.tla (the Safety of KeyHashMemoApa.tla must name exactly these)
MEMO_EQ_INVS = MEMO_INVS + " TypeOKEq EqCmpAgree EqIgnoresMemo"   # + comparers, KeyHashMemoEq.tla
TIERTAG = "q"              # generated cfg names carry the tier, so a quick and a thorough run can share specs/KeyOrder


def _tf(b):
    return "TRUE" if b else "FALSE"


def pure_cfg(name, mode="scope", t8=3, nn=2, nk=2, nv=2, maxlen=3, famlens=(), spec="Spec", invs=PURE_INVS):
    p = os.path.join(vlib.SPECS, SPEC, "gen_%s_%s.cfg" % (TIERTAG, name))
    with open(p, "w") as f:
        f.write("SPECIFICATION %s\nCONSTANTS\n T8 = %d\n CF03Fixed = %s\n Mode = \"%s\"\n NN = %d\n NK = %d\n NV = %d\n"
                " MaxLen = %d\n FamLens = {%s}\nINVARIANTS %s\nCHECK_DEADLOCK FALSE\n"
                % (spec, t8, _tf(CF03_FIXED), mode, nn, nk, nv, maxlen, ", ".join(str(x) for x in famlens), invs))
    return os.path.basename(p)


def memo_cfg(name, getters, cloners, calls, kinds=("static", "built"), spec="SpecEq", invs=MEMO_EQ_INVS, comparers=(), eq_variant=False):
    p = os.path.join(vlib.SPECS, SPEC, "gen_%s_%s.cfg" % (TIERTAG, name))
    with open(p, "w") as f:
        f.write("SPECIFICATION %s\nCONSTANTS\n Getters = {%s}\n Cloners = {%s}\n NCalls = %d\n InitKinds = {%s}\n"
                " Comparers = {%s}\n EqReadsMemoValueFirst = %s\nINVARIANTS %s\nCHECK_DEADLOCK FALSE\n"
                % (spec, ", ".join(str(x) for x in getters), ", ".join(str(x) for x in cloners), calls,
                   ", ".join('"%s"' % k for k in kinds), ", ".join(str(x) for x in comparers), _tf(eq_variant), invs))
    return os.path.basename(p)


def trace_cfg():
    """TraceKeyOrder.cfg (static, CF03Fixed = TRUE) or its generated twin with the pre-fix cmp."""
    if CF03_FIXED:
        return "TraceKeyOrder.cfg"
    txt = open(os.path.join(vlib.SPECS, SPEC, "TraceKeyOrder.cfg")).read()
    p = os.path.join(vlib.SPECS, SPEC, "gen_trace_prefix.cfg")
    open(p, "w").write(re.sub(r"CF03Fixed = \w+", "CF03Fixed = FALSE", txt))
    return os.path.basename(p)


# ----------------------------------------------------------------------------- string realisations
def cps(s):
    return [ord(c) for c in s]


def real(rid, names, lkeys, lvals):
    for what, l in (("names", names), ("lkeys", lkeys), ("lvals", lvals)):
        assert all(cps(a) < cps(b) for a, b in zip(l, l[1:])), (rid, what)
    return {"id": rid, "names": [cps(s) for s in names], "lkeys": [cps(s) for s in lkeys], "lvals": [cps(s) for s in lvals]}


ALPHA = ["", "a", "b", "A", "z", "0", " ", "\u0000", "\u007f", "\u0080", "\u00e9", "e\u0301", "\u00df", "\u07ff", "\u0800",
         "\u65e5\u672c", "\ud7ff", "\ue000", "\uffff", "\U00010000", "\U0001d11e", "\U0010ffff", "ab", "a\u0000", "aa", "a.b",
         "=", ",", "\"", "\\", "\n"]


def random_real(rng, rid, nn, nk, nv):
    def pick(n):
        out = set()
        while len(out) < n:
            s = "".join(rng.choice(ALPHA) for _ in range(rng.choice([1, 1, 1, 2, 2, 3])))
            out.add(s)
        return sorted(out, key=cps)
    return real(rid, pick(nn), pick(nk), pick(nv))


def scope_reals(rng, thorough):
    r = [
        # the literal-macro realisation: harness/src/bin/c03.rs has key_var!("a", "k" => "u", ..) forms over these
        real("lit", ["a", "b"], ["k", "l"], ["u", "v"]),
        # empty strings in every position
        real("empty", ["", "a"], ["", "k"], ["", "v"]),
        # non-ASCII: z < e-acute (byte order), U+FFFF < U+10000 (UTF-16 order would say otherwise), prefixes
        real("unicode", ["\u00e9", "\u65e5\u672c"], ["z", "\u00e9"], ["\uffff", "\U00010000"]),
        real("prefix", ["m", "m.x"], ["k", "ka"], ["", "\u0000"]),
        random_real(rng, "random-%d" % rng.randrange(10 ** 6), 2, 2, 2),
    ]
    return r if thorough else r[:3] + r[4:]


def family_reals(rng, thorough):
    r = [
        real("fam-unicode", ["n"], ["", "0", "A", "Z", "a", "ab", "b", "z", "\u00e9", "\u65e5", "\U0001d11e"], ["", "\u00e9"]),
        real("fam-ascii", ["name"], list("abcdefghijk"), ["1", "2"]),
    ]
    if thorough:
        r.append(random_real(rng, "fam-random-%d" % rng.randrange(10 ** 6), 1, 11, 2))
    return r


# ----------------------------------------------------------------------------- steps
def build(chk):
    ok, out, wall = vlib.cargo_build("c03")
    if not ok:
        chk.tool_error("harness build failed", out)
    chk.log("harness built in %.0fs" % wall)


def harness(chk, args, what, timeout=1800):
    rc, out, summ = vlib.harness("c03", args, env={"VERIF_SEED": str(chk.seed)}, timeout=timeout)
    if rc != 0 or not summ:
        chk.tool_error("c03 %s failed (rc=%s)" % (what, rc), out)
    return summ


def validate_pure(chk, trace, what, timeout=2400):
    n = vlib.validate_concat(chk, SPEC, "TraceKeyOrder", trace_cfg(), trace, what, known_map={"CF03": "CF03"}, max_rounds=3,
                             timeout=timeout)
    chk.cov["traces_validated_against_impl"] += n
    return n


def validate_memo(chk, trace, what, timeout=2400):
    n = vlib.validate_concat(chk, SPEC, "TraceKeyHashMemo", "TraceKeyHashMemo.cfg", trace, what, max_rounds=3, timeout=timeout)
    chk.cov["traces_validated_against_impl"] += n
    return n


def check_pure_summary(chk, summ, what):
    """spec -> impl: the harness compared the real answers with TLC's exported tables."""
    if summ.get("panics"):
        chk.log("%s: %d panics in the code under test (logged as events, rejected by the trace spec)" % (what, summ["panics"]))
    if summ.get("expect_mismatch"):
        chk.violation("%s: the real Key disagrees with the verdicts exported by TLC: %s" % (what, json.dumps(summ["expect_mismatch"][:3])),
                      payload={"what": what, "mismatches": summ["expect_mismatch"]})
    chk.cov["distinct_nontrivial"] += summ.get("distinct_nontrivial", 0)


def export_universe(chk, name, **kw):
    """TLC writes the universe of a scope with its Eq / Cmp / HashSeq-equality tables (T8 = 8: the real threshold)."""
    out = chk.path("export_%s.json" % name)
    if os.path.exists(out):
        os.remove(out)
    cfg = pure_cfg("x_" + name, t8=8, spec="ExportSpec", invs="Emit", **kw)
    r = vlib.tlc_mc(SPEC, "MCKeyOrder", cfg, workers=1, timeout=1800, coverage=False, env={"EXPORT": out}, tag="x_" + name)
    if r["error"] or not os.path.exists(out):
        chk.tool_error("export of %s failed (%s)" % (name, r["error"]), r["out"][-3000:])
    u = json.load(open(out))
    u["scope"] = name
    return u


def run_pure(chk, thorough, rng):
    # 1. TLC decides the laws on the transcription: every key, every ordered pair, every triple of the scope
    scopes = [("scope_len3_t3", dict(mode="scope", t8=3, maxlen=3)),
              ("family_t8", dict(mode="family", t8=8, nn=1, famlens=(3, 7, 8, 9)))]
    if thorough:
        scopes = [("scope_len3_t3", dict(mode="scope", t8=3, maxlen=3)),
                  ("scope_len4_t4", dict(mode="scope", t8=4, maxlen=4)),
                  ("scope_len4_t3", dict(mode="scope", t8=3, maxlen=4)),
                  ("family_t8", dict(mode="family", t8=8, nn=1, famlens=(3, 4, 5, 6, 7, 8, 9)))]
    invs = PURE_INVS + (" InvEqCmpStrict" if CF03_FIXED else "")
    for name, kw in scopes:
        r = vlib.tlc_mc(SPEC, "MCKeyOrder", pure_cfg(name, invs=invs, **kw), workers=8, timeout=3000, tag=name)
        if not chk.expect_mc_ok(r, "KeyOrder/" + name):
            return False
        chk.log("TLC %s: %d states (keys + ordered pairs; every triple inside the invariants), %.0fs" % (name, r["distinct"], r["wall"]))
    if not CF03_FIXED:
        # witness run: the law WITHOUT the named deviation must fail, and only on instances of the deviation
        r = vlib.tlc_mc(SPEC, "MCKeyOrder", pure_cfg("cf03_witness", invs="InvEqCmpStrict"), workers=1, timeout=600,
                        coverage=False, tag="cf03")
        m = re.search(r'<<\s*"CF03-WITNESS".*?"cmp",\s*-?\d+\s*>>', r["out"], re.S)
        wit = [re.sub(r"\s+", " ", m.group(0))] if m else []
        if r["invariant"] == "InvEqCmpStrict" and wit:
            chk.notes["cf03_tlc_witness"] = wit[0]
            chk.log("TLC finds CF03 on the transcription:", wit[0])
            if not chk.known("CF03", wit[0]):
                chk.violation("TLC: Eq and Cmp disagree on the transcription of key.rs (unlisted finding CF03): " + wit[0],
                              payload={"witness": wit[0]})
        else:
            chk.tool_error("deviation CF03 is named in KeyOrder.tla but TLC no longer finds a witness: update the spec", r["out"][-3000:])

    # 2. spec -> impl and back: exported universes on the real Key, through every construction path
    progs = chk.path("programs.ndjson")
    scope_u = export_universe(chk, "scope_len3", mode="scope", maxlen=3)
    scope_u["reals"] = scope_reals(rng, thorough)
    fam_u = export_universe(chk, "family", mode="family", nn=1, famlens=(3, 4, 5, 6, 7, 8, 9) if thorough else (3, 7, 8, 9))
    fam_u["reals"] = family_reals(rng, thorough)
    us = [scope_u, fam_u]
    if thorough:
        big = export_universe(chk, "scope_len4", mode="scope", maxlen=4)
        big["reals"] = scope_reals(rng, False)[:2]
        us.append(big)
    chk.notes["export"] = {u["scope"]: {"keys": len(u["keys"]), "pairs": len(u["keys"]) ** 2, "realisations": [r["id"] for r in u["reals"]]}
                           for u in us}
    chk.log("TLC exported:", chk.notes["export"])
    k = scope_u["keys"][len(scope_u["keys"]) // 2]
    chk.cov["samples"].append({"source": "TLC-exported key with its verdict row (scope_len3)", "key": k,
                               "eq_row_ones": sum(scope_u["eq"][len(scope_u["keys"]) // 2])})
    for u in us:
        with open(progs, "w") as f:
            f.write(json.dumps(u, separators=(",", ":")) + "\n")
        tr = chk.path("replay_%s.ndjson" % u["scope"])
        args = ["replay", "--in", progs, "--out", tr]
        # every path of a against every path of b for the first realisation, a rotating sample of path pairs for the others
        args += ["--cross", "first" if u["scope"] == "scope_len3" else "rot"]
        summ = harness(chk, args, "replay " + u["scope"])
        chk.notes["replay_" + u["scope"]] = {k: v for k, v in summ.items() if k != "expect_mismatch"}
        chk.log("replay %s: %d keys x paths, %d pairs, %d comparisons on the real Key, %d CF03 pairs seen, paths: %d"
                % (u["scope"], summ["keys"], summ["pairs"], summ["comparisons"], summ["cf03_pairs"], len(summ["paths"])))
        check_pure_summary(chk, summ, "replay " + u["scope"])
        if summ.get("cf03_sample"):
            chk.notes["cf03_on_real_code"] = summ["cf03_sample"]
        validate_pure(chk, tr, "TLC-exported universe %s on the real Key" % u["scope"])

    # 3. impl -> spec: random keys
    tr = chk.path("record.ndjson")
    summ = harness(chk, ["record", "--runs", 1500 if thorough else 150, "--out", tr], "record")
    chk.notes["record"] = summ
    check_pure_summary(chk, summ, "random keys")
    with open(tr) as f:
        e = json.loads(next(f))
    chk.cov["samples"].append({"source": "recorded random batch (header, truncated)", "strs": e["strs"][:6], "keys": e["keys"][:3]})
    validate_pure(chk, tr, "random keys (arbitrary Unicode, 0-12 labels)")
    return True


def run_memo(chk, thorough):
    # getters + cloners + comparers (k == other / cmp / Hash evaluated at every point of the first hashing)
    mcs = [("memo_3g1c1q_2", [1, 2, 3], [11], [21], 2), ("memo_4g2c2q_1", [1, 2, 3, 4], [11, 12], [21, 22], 1)]
    if thorough:
        mcs.append(("memo_4g2c1q_2", [1, 2, 3, 4], [11, 12], [21], 2))
    for name, g, c, q, n in mcs:
        r = vlib.tlc_mc(SPEC, "KeyHashMemoEq", memo_cfg(name, g, c, n, comparers=q), workers=8, timeout=1800, tag=name)
        # the two steps of the witness variant of eq are disabled in the as-coded model
        if not chk.expect_mc_ok(r, "KeyHashMemoEq/" + name, vacuity_exempt={"CompareLoadValues", "CompareLoadFlags"}):
            return False
        chk.log("TLC %s: %d distinct states, depth %d" % (name, r["distinct"], r["depth"]))
    # witness: an eq() that reads the cached hash VALUES before the `hashed` FLAGS must be rejected by TLC
    r = vlib.tlc_mc(SPEC, "KeyHashMemoEq", memo_cfg("eq_reads_memo_witness", [1], [], 1, kinds=("static",), comparers=[21], eq_variant=True,
                                                  invs="EqCmpAgree EqIgnoresMemo"), workers=1, timeout=600, coverage=False, tag="eqwit")
    if r["invariant"] not in ("EqCmpAgree", "EqIgnoresMemo"):
        chk.tool_error("witness EqReadsMemoValueFirst = TRUE is not rejected by TLC (%s / %s)" % (r["invariant"], r["error"]), r["out"][-3000:])
    chk.notes["eq_reads_memo_witness"] = "rejected by TLC: invariant %s violated after %d states" % (r["invariant"], r["generated"])
    chk.log("TLC rejects the witness variant EqReadsMemoValueFirst (invariant %s)" % r["invariant"])

    # spec -> impl: EVERY complete schedule of the small configurations + sampled ones with cloners
    behs = []
    for name, g, c, n, kinds in [("sim_2g_2", [1, 2], [], 2, ("static", "built")), ("sim_3g_1", [1, 2, 3], [], 1, ("static",))]:
        r = vlib.tlc_mc(SPEC, "SimKeyHashMemo", memo_cfg(name, g, c, n, kinds=kinds, spec="SimSpec", invs="Emit"), workers=1,
                        timeout=900, coverage=False, tag=name)
        b = vlib.replay_lines(r["out"])
        if not b or r["error"]:
            chk.tool_error("no schedules from SimKeyHashMemo %s (%s)" % (name, r["error"]), r["out"][-2000:])
        chk.notes.setdefault("schedules_exhaustive", {})[name] = len(b)
        behs += b
    for name, g, c, q, n, num in [("sim_3g1c1q_2", [1, 2, 3], [11], [21], 2, 1200 if thorough else 150),
                                  ("sim_4g2c2q_1", [1, 2, 3, 4], [11, 12], [21, 22], 1, 1200 if thorough else 150)]:
        r = vlib.tlc_mc(SPEC, "SimKeyHashMemo", memo_cfg(name, g, c, n, spec="SimSpec", invs="Emit", comparers=q), workers=1, timeout=900,
                        coverage=False, tag=name, extra=["-simulate", "num=%d" % num, "-depth", "200", "-seed", str(chk.seed)])
        b = vlib.replay_lines(r["out"])
        if not b:
            chk.tool_error("no schedules from SimKeyHashMemo %s" % name, r["out"][-2000:])
        behs += b
    progs = chk.path("memo_programs.ndjson")
    with open(progs, "w") as f:
        for b in behs:
            f.write(json.dumps(b) + "\n")
    chk.cov["samples"].append({"source": "TLC schedule (get_hash race)", "init": behs[0]["init"], "schedule": behs[0]["sched"][:12]})
    tr = chk.path("memo_replay.ndjson")
    s2 = harness(chk, ["memo-replay", "--in", progs, "--out", tr], "memo-replay")
    chk.notes["memo_replay"] = s2
    chk.log("memo: %d TLC schedules replayed (%d diverged), %d distinct event sequences" % (s2["runs"], s2["diverged"], s2["distinct_schedules"]))
    validate_memo(chk, tr, "TLC schedules replayed on the real get_hash")
    chk.cov["distinct_nontrivial"] += s2["distinct_schedules"]

    # impl -> spec: random scenarios and schedules
    tr = chk.path("memo_record.ndjson")
    s1 = harness(chk, ["memo-record", "--runs", 3000 if thorough else 300, "--out", tr], "memo-record")
    chk.notes["memo_record"] = s1
    validate_memo(chk, tr, "random get_hash / clone schedules")
    chk.cov["distinct_nontrivial"] += s1["distinct_schedules"]
    with open(tr) as f:
        chk.cov["samples"].append({"source": "recorded get_hash race", "events": [json.loads(next(f)) for _ in range(10)]})

    # real-parallel first-use races
    tr = chk.path("memo_free.ndjson")
    s3 = harness(chk, ["memo-free", "--runs", 200000 if thorough else 20000, "--out", tr], "memo-free", timeout=1800)
    chk.notes["memo_free"] = s3
    chk.log("memo-free: %d fresh keys x 8 threads (%d keys computed by >= 2 threads at once), %d returned hashes, %d differ from the reference"
            % (s3["runs"], s3["keys_computed_by_two_or_more_threads"], s3["returns"], s3["bad"]))
    vlib.validate_concat(chk, SPEC, "TraceKeyHashMemo", "TraceKeyHashMemo.cfg", tr, "real-parallel first use of get_hash", max_rounds=3)
    chk.cov["traces_validated_against_impl"] += s3["runs"]

    # real-parallel: ==, cmp and Hash evaluated WHILE another thread hashes the key for the first time
    tr = chk.path("eqrace.ndjson")
    s4 = harness(chk, ["eqrace", "--runs", 240 if thorough else 24, "--keys", 2048, "--out", tr], "eqrace", timeout=1800)
    chk.notes["eqrace"] = s4
    chk.log("eqrace: %d runs x %d fresh lazily hashed keys (memo fields at %s), %d evaluations of ==/cmp/Hash during the first "
            "get_hash, %d answer tuples other than the structural verdict" % (s4["runs"], s4["keys_per_run"], s4["layout"],
                                                                              s4["evaluations"], s4["unexpected_tuples"]))
    validate_pure(chk, tr, "== / cmp / Hash raced with the first get_hash (real-parallel)")
    chk.cov["evaluations"] += s4["evaluations"]
    return True


def run(chk):
    global TIERTAG
    thorough = chk.tier == "thorough"
    TIERTAG = "t" if thorough else "q"
    rng = random.Random(chk.seed)
    chk.assumptions += [
        "strings are compared as sequences of Unicode code points (Rust compares UTF-8 bytes: the same order for valid UTF-8, "
        "and every str is valid UTF-8); TLC recomputes the order from the logged code points",
        "the bytes Hash::hash feeds to a hasher are observed with a recording std::hash::Hasher and decoded as "
        "name 0xff | label count (usize) | (key 0xff value 0xff)* - the encoding str/usize use on Rust 1.74; equality of the "
        "hash input is compared exactly, get_hash() only in the direction 'same input => same u64'",
        "get_hash memo: sequentially consistent interleavings of the four atomic operations (the Acquire/Release orderings "
        "themselves are not modelled); returned hashes are logged as 1 (= reference hash from KeyHasher over Hash::hash on "
        "another key) or 0; Key::clone runs between two scheduler grants (its two loads are one step in scheduled runs, two "
        "steps in the TLC model and in the real-parallel trials)",
        "==, cmp and Hash concurrent with a first get_hash(): decided by TLC on the model (comparer processes; witness variant "
        "rejected) and observed on real hardware only (no yield points inside eq/cmp/Hash): many fresh keys, placed so that a "
        "cache-line boundary runs between the two memo fields, every distinct answer tuple judged by TLC; no timing assertion",
        "exhaustive scope: 2 names x 2 label names x 2 values, label lists up to 3 (thorough 4) with the '8' threshold shrunk to "
        "3 (and 4); the real threshold is reached by the padded families (lengths 3..9) and the random keys (0..12 labels)",
    ]
    if chk.tier == "thorough":
        # beyond TLC's bounds: inductive invariant by Apalache (any sets of <= 8 processes) + TLAPS proof (any size); recorded, never decides
        vlib.run_unbounded(chk, "keyhashmemo")
    chk.cov["rule"] = ("TLC: every key, ordered pair and triple of each scope (states = keys + ordered pairs; the triple laws quantify "
                       "over every third key inside the invariant); all interleavings of the get_hash/clone steps. Implementation: "
                       "every exported key built through every public construction path, all pairs compared on the real Key (==, !=, "
                       "cmp, partial_cmp, <, Hash bytes, get_hash, CompositeKey) and re-evaluated by TLC per row (one validated run = "
                       "one batch of keys or one scheduled race); distinct_nontrivial = distinct ordered pairs of different label "
                       "lists with the same name and length (comparisons that reach the label branches) + distinct race event "
                       "sequences, counted by the harness")
    build(chk)
    if not run_pure(chk, thorough, rng):
        return
    run_memo(chk, thorough)


def replay(chk, path):
    """Re-execute a failing run on the real code."""
    build(chk)
    if not path.endswith(".ndjson"):
        return run(chk)
    first = json.loads(open(path).readline())
    if first.get("src") == "eqrace":
        # a real-parallel race cannot be re-executed step by step: run the stage again (same seed)
        tr = chk.path("eqrace_again.ndjson")
        harness(chk, ["eqrace", "--runs", 24, "--keys", 2048, "--out", tr], "eqrace")
        validate_pure(chk, tr, "replay (re-run) " + path)
        return
    if "strs" in first:
        tr = chk.path("rebuild.ndjson")
        harness(chk, ["rebuild", "--in", path, "--out", tr], "rebuild")
        validate_pure(chk, tr, "replay " + path)
        return
    # get_hash race: the schedule is the sequence of granted .pre events
    pcs = {"key.hashed.load.pre": "lh", "key.hash.load.pre": "lv", "key.hash.store.pre": "sv", "key.hashed.store.pre": "sh",
           "c03.clone.pre": "c1", "c03.cmp.pre": "q0"}
    progs, cur = [], None
    for line in open(path):
        e = json.loads(line)
        if e.get("ev") == "reset":
            a = e.get("a") or []
            cur = {"getters": a[0], "cloners": a[1], "calls": a[2], "comparers": e.get("comparers", 0), "init": e["init"],
                   "sched": []} if len(a) == 3 else None
            if cur:
                progs.append(cur)
        elif cur is not None and e.get("ev") in pcs:
            cur["sched"].append([e["p"], pcs[e["ev"]]])
    if not progs:
        vlib.validate_concat(chk, SPEC, "TraceKeyHashMemo", "TraceKeyHashMemo.cfg", path, "replay " + path)
        return
    pf = chk.path("memo_replay_programs.ndjson")
    with open(pf, "w") as f:
        for p in progs:
            f.write(json.dumps(p) + "\n")
    tr = chk.path("memo_replay_again.ndjson")
    harness(chk, ["memo-replay", "--in", pf, "--out", tr], "memo-replay")
    validate_memo(chk, tr, "replay " + path)
