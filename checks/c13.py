"""C13: metrics-util layers deliver exactly the transformed operations to exactly the right recorders.
Spec: specs/Layers/Layers.tla (code mirror + laws), scopes/export: MCLayers.tla, conformance: TraceLayers.tla,
driver: harness/src/bin/c13.rs (real Stack / PrefixLayer / FilterLayer / Router / Fanout over probe recorders)."""
import json, os
import vlib

SPEC = "Layers"
CHUNK_LINES = 100000
INVS = "TypeOK InvDeliveries InvPure InvPrefixLaw InvFilterLaw InvRouterLaw InvFanoutLaw InvCompose InvBuilder InvHandleTargets InvUpdateOnce"
# code points: a A b B . e-acute E-acute
A, UA, B, UB, DOT, EAC, UEAC = 97, 65, 98, 66, 46, 233, 201
C = 99  # 'c' = 0x63: same high nibble as 'a' 0x61 / 'b' 0x62 (radix_trie branches on nibbles); '.' 0x2e and 'A' 0x41 differ


def _set(xs):
    return "{" + ", ".join(('"%s"' % x) if isinstance(x, str) else str(x) for x in xs) + "}"


def gen_cfg(name, export=False, **kw):
    base = dict(Mode="filter", Alpha=[A, UA, DOT], NameAlpha=[A, UA, DOT], MaxName=2, MaxPat=2, MaxPats=1, MaxRoutes=1,
                MaxDepth=1, MaskSet=["c", "g", "h", "all"], KindSet=["c", "g", "h"], DfaSet=["TRUE"], PerOp="both",
                MaxCalls=1, MaxUpdates=1, MaxHist=0, StaleCaseFlag=False, MaxBuilders=1, AllowOnto=False, BWide=False)
    base.update(kw)
    inv = base.pop("INV", None)
    p = os.path.join(vlib.SPECS, SPEC, "gen_%s.cfg" % name)
    with open(p, "w") as f:
        f.write("SPECIFICATION %s\nCONSTANTS\n" % ("ExportSpec" if export else "Spec"))
        for k, v in base.items():
            if k == "DfaSet":
                v = "{" + ", ".join(v) + "}"
            elif isinstance(v, bool):
                v = "TRUE" if v else "FALSE"
            elif isinstance(v, list):
                v = _set(v)
            elif isinstance(v, str):
                v = '"%s"' % v
            f.write(" %s = %s\n" % (k, v))
        f.write(" Configs <- MCConfigs\n OpsOf <- MCOpsOf\n UpdatesOf <- MCUpdatesOf\n BuilderCallsOf <- MCBuilderCalls\n")
        f.write("INVARIANTS %s\nCHECK_DEADLOCK FALSE\n" % ("Emit" if export else (inv or INVS)))
    return os.path.basename(p)


def mc_scopes(thorough):
    """(name, constants, vacuity_exempt): exhaustive scopes: every configuration x every operation."""
    s = [
        ("prefix", dict(Mode="prefix", Alpha=[A, UA, DOT], MaxPat=2, NameAlpha=[A, UB, DOT], MaxName=3), ()),
        ("filter", dict(Mode="filter", Alpha=[A, UA, DOT], MaxPat=2, MaxPats=2, NameAlpha=[A, UA, DOT], MaxName=3,
                        KindSet=["c"]), ()),
        ("router2", dict(Mode="router", Alpha=[A, DOT], MaxPat=2, MaxRoutes=2, NameAlpha=[A, DOT], MaxName=3,
                         MaxUpdates=0), ("DoUpdate",)),
        ("router3", dict(Mode="router", Alpha=[A], MaxPat=2, MaxRoutes=3, MaskSet=["c", "g", "all"], NameAlpha=[A, DOT],
                         MaxName=3, KindSet=["c", "g"], MaxUpdates=0), ("DoUpdate",)),
        ("fanout", dict(Mode="fanout", NameAlpha=[A, B], MaxName=2, MaxCalls=2), ()),
        ("stack", dict(Mode="stack", MaxDepth=3, NameAlpha=[A, UB, DOT], MaxName=2, PerOp="alt"), ()),
        ("sibling", dict(Mode="sibling", Alpha=[A, B, DOT, UA], NameAlpha=[A, B, C], MaxName=3, MaxUpdates=0), ("DoUpdate",)),
        # every history of <= 5 calls on one FilterLayer / PrefixLayer value (new, add_pattern, case_insensitive(b),
        # use_dfa(b), layer() onto a fresh probe or onto an earlier product), then every name/case variant through all products
        ("builder", dict(Mode="builder", MaxHist=5, AllowOnto=True, DfaSet=["TRUE", "FALSE"], NameAlpha=[A, UA], MaxName=2,
                         KindSet=["c"], PerOp="alt", MaxUpdates=0), ("DoUpdate",)),
    ]
    if thorough:
        s += [
            ("filter-b", dict(Mode="filter", Alpha=[A, UA, DOT], MaxPat=2, MaxPats=2, NameAlpha=[A, UA, B, DOT], MaxName=3,
                              KindSet=["c"]), ()),
            ("router2-b", dict(Mode="router", Alpha=[A, DOT], MaxPat=2, MaxRoutes=2, NameAlpha=[A, B, DOT], MaxName=3,
                               MaxUpdates=0), ("DoUpdate",)),
            ("router3-b", dict(Mode="router", Alpha=[A, DOT], MaxPat=2, MaxRoutes=3, MaskSet=["c", "all"], NameAlpha=[A, DOT],
                               MaxName=3, KindSet=["c", "g"], MaxUpdates=0), ("DoUpdate",)),
            ("stack-both", dict(Mode="stack", MaxDepth=3, NameAlpha=[A, UB, DOT], MaxName=2), ()),
            ("filter-wide", dict(Mode="filter", Alpha=[A, UA, B, DOT], MaxPat=2, MaxPats=2, NameAlpha=[A, UA, B, DOT],
                                 MaxName=4, KindSet=["g"], PerOp="alt"), ()),
            ("filter-long", dict(Mode="filter", Alpha=[A, UA, DOT], MaxPat=3, MaxPats=1, NameAlpha=[A, UA, DOT],
                                 MaxName=5, KindSet=["h"]), ()),
            ("router3-masks", dict(Mode="router", Alpha=[A, DOT], MaxPat=2, MaxRoutes=3, NameAlpha=[A, DOT], MaxName=3,
                                   PerOp="alt", MaxUpdates=0), ("DoUpdate",)),
            ("router2-long", dict(Mode="router", Alpha=[A, B, DOT], MaxPat=3, MaxRoutes=2, MaskSet=["g", "all"],
                                  NameAlpha=[A, B, DOT], MaxName=4, KindSet=["c", "g"], PerOp="alt", MaxUpdates=0),
             ("DoUpdate",)),
            ("stack-names3", dict(Mode="stack", MaxDepth=3, NameAlpha=[A, UB, DOT], MaxName=3), ()),
            ("stack-depth4", dict(Mode="stack", MaxDepth=4, NameAlpha=[A, UB, DOT], MaxName=2, KindSet=["c", "g"],
                                  PerOp="alt"), ()),
            ("builder-6", dict(Mode="builder", MaxHist=6, AllowOnto=True, DfaSet=["TRUE", "FALSE"], NameAlpha=[A, UA],
                               MaxName=1, KindSet=["c"], PerOp="alt", MaxUpdates=0), ("DoUpdate",)),
            ("builder-2wide", dict(Mode="builder", MaxHist=5, MaxBuilders=2, BWide=True, DfaSet=["FALSE"],
                                   NameAlpha=[A, UB], MaxName=1, KindSet=["g"], PerOp="alt", MaxUpdates=0), ("DoUpdate",)),
        ]
    return s


def export_scopes(thorough):
    """programs exported by TLC for execution on the real code (one program per configuration)."""
    s = [
        ("x_prefix", dict(Mode="prefix", Alpha=[A, DOT, EAC], MaxPat=2, NameAlpha=[A, UB, EAC], MaxName=2, PerOp="both")),
        ("x_filter", dict(Mode="filter", Alpha=[A, UA, UEAC], MaxPat=2, MaxPats=2, DfaSet=["TRUE", "FALSE"],
                          NameAlpha=[A, UA, EAC, UEAC], MaxName=2, KindSet=["c"], PerOp="alt")),
        ("x_filter1", dict(Mode="filter", Alpha=[A, UB, DOT], MaxPat=2, MaxPats=1, DfaSet=["TRUE", "FALSE"],
                           NameAlpha=[A, B, UB, DOT], MaxName=3, KindSet=["h"], PerOp="alt")),
        ("x_router2", dict(Mode="router", Alpha=[A, DOT], MaxPat=2, MaxRoutes=2, MaskSet=["c", "g", "all"],
                           NameAlpha=[A, DOT], MaxName=2, PerOp="alt")),
        ("x_router3", dict(Mode="router", Alpha=[A], MaxPat=2, MaxRoutes=3, MaskSet=["h", "all"], NameAlpha=[A, DOT],
                           MaxName=3, KindSet=["g", "h"], PerOp="alt")),
        ("x_fanout", dict(Mode="fanout", NameAlpha=[A, B], MaxName=2, PerOp="both")),
        ("x_stack", dict(Mode="stack", MaxDepth=3, NameAlpha=[A, UB, DOT], MaxName=2, KindSet=["c", "g"], PerOp="alt")),
        # route tables {P, P+x, P+y} (value-less internal trie node between siblings), every mask, P first / last, all names <= 3
        # over a b c: deterministic coverage of "closest ancestor ROUTE, not closest trie node" (seeded raw_ancestor_lookup)
        ("x_sibling", dict(Mode="sibling", Alpha=[A, B, DOT, UA], NameAlpha=[A, B, C], MaxName=3, PerOp="alt")),
        # every builder history of <= 5 calls, executed on real FilterLayer / PrefixLayer values
        ("x_builder", dict(Mode="builder", MaxHist=5, DfaSet=["FALSE"], NameAlpha=[A, UA], MaxName=2, KindSet=["c"],
                           PerOp="alt")),
    ]
    if thorough:
        s += [
            ("x_filter_t", dict(Mode="filter", Alpha=[A, UA, DOT, UEAC], MaxPat=2, MaxPats=2, DfaSet=["TRUE", "FALSE"],
                                NameAlpha=[A, UA, DOT, EAC], MaxName=3, KindSet=["g"], PerOp="alt")),
            ("x_router_t", dict(Mode="router", Alpha=[A], MaxPat=2, MaxRoutes=3, MaskSet=["c", "h", "all"], NameAlpha=[A, DOT],
                                MaxName=3, PerOp="alt")),
            ("x_stack_t", dict(Mode="stack", MaxDepth=3, NameAlpha=[A, UB, DOT], MaxName=3, PerOp="alt")),
            ("x_builder_t", dict(Mode="builder", MaxHist=5, AllowOnto=True, DfaSet=["TRUE", "FALSE"], NameAlpha=[A, UA],
                                 MaxName=1, KindSet=["h"], PerOp="alt")),
        ]
    return s


def build(chk):
    ok, out, wall = vlib.cargo_build("c13")
    if not ok:
        chk.tool_error("harness build failed", out)
    chk.log("harness built in %.0fs" % wall)


def run_and_validate(chk, mode_args, trace, what, timeout=3000):
    env = {"VERIF_SEED": str(chk.seed)}
    rc, out, summ = vlib.harness("c13", mode_args + ["--out", trace], env=env, timeout=1200)
    if rc != 0 or not summ:
        chk.tool_error("c13 %s failed (rc=%s)" % (mode_args[0], rc), out)
    if summ.get("panics", 0):
        chk.log("%s: %d panics in the code under test (logged as events)" % (what, summ["panics"]))
    # validate in chunks of whole runs (TLC holds the deserialized trace in memory)
    chunk, nchunks, size = [], 0, 0
    def flush():
        nonlocal chunk, nchunks, size
        if not chunk:
            return
        if chk.violations >= 4:      # enough failing runs reported; do not spend minutes on the remaining chunks
            chunk, size = [], 0
            return
        nchunks += 1
        cp = trace if nchunks == 1 and size == total_lines else "%s.part%d" % (trace, nchunks)
        if cp != trace:
            with open(cp, "w") as f:
                for ls in chunk:
                    f.writelines(ls)
        n = vlib.validate_concat(chk, SPEC, "TraceLayers", "TraceLayers.cfg", cp, what, None, max_rounds=2, timeout=timeout)
        chk.cov["traces_validated_against_impl"] += n
        if cp != trace:
            os.remove(cp)
        chunk, size = [], 0
    runs = vlib.split_runs(trace)
    total_lines = sum(len(ls) for _, ls in runs)
    for _, ls in runs:
        if size + len(ls) > CHUNK_LINES and chunk:
            flush()
        chunk.append(ls)
        size += len(ls)
    flush()
    chk.cov["distinct_nontrivial"] += summ.get("distinct_nontrivial", 0)
    return summ


def run(chk):
    thorough = chk.tier == "thorough"
    chk.assumptions += [
        "names / prefixes / patterns / routes are modelled as sequences of code points; the real matching is on UTF-8 bytes "
        "(equivalent for valid UTF-8, and every Rust str is valid UTF-8)",
        "case-insensitive filtering is ASCII-only (AhoCorasickBuilder::ascii_case_insensitive)",
        "route masks are the four the router accepts (COUNTER, GAUGE, HISTOGRAM, ALL); add_route panics on any other mask",
        "Histogram::record_many(v, n) through a fanout is compared at sample level (n x record(v) per inner handle)",
        "recorder trees (no recorder shared between two branches); the sequential programs call from one thread, the hammer "
        "stage from 8 threads and only asserts quiescent totals (no interleaving is assumed)",
        "re-usable builders are FilterLayer and PrefixLayer (layer(&self)); RouterBuilder::build, FanoutBuilder::add_recorder/"
        "build and Stack::push consume self, so no call can follow the product (enforced by the compiler)",
    ]
    # 1. exhaustive model checking: mirror of the code == laws, for every configuration and operation of each scope
    for name, kw, exempt in mc_scopes(thorough):
        cfg = gen_cfg(name.replace("-", "_"), **kw)
        r = vlib.tlc_mc(SPEC, "MCLayers", cfg, workers=8, timeout=3000 if thorough else 900, tag=name)
        exempt = set(exempt) | ({"DoConfigure", "Configure"} if kw["Mode"] == "builder" else {"DoBuild", "DoAssemble", "Assemble"})
        if not chk.expect_mc_ok(r, "Layers/" + name, vacuity_exempt=exempt):
            return
        chk.log("TLC %s: %d distinct states (%d generated), depth %d, %.0fs" % (name, r["distinct"], r["generated"], r["depth"], r["wall"]))

    # witness: a FilterLayer that keeps its compiled automaton across case_insensitive() must be rejected by the model
    cfg = gen_cfg("builder_witness", Mode="builder", MaxHist=4, StaleCaseFlag=True, NameAlpha=[A, UA], MaxName=1, KindSet=["c"],
                  PerOp="alt", MaxUpdates=0, INV="InvBuilder")
    r = vlib.tlc_mc(SPEC, "MCLayers", cfg, workers=4, timeout=600, coverage=False, tag="builder_witness")
    if r["invariant"] != "InvBuilder":
        chk.tool_error("model no longer rejects a stale case flag in FilterLayer (witness lost)", r["out"][-2000:])
    chk.notes["stale_case_witness"] = "StaleCaseFlag=TRUE violates InvBuilder (history: new, layer, case_insensitive, layer)"

    # concurrency counter-model: one call must never be decided by another call's key.  The pure filter passes; a filter
    # that memoises its last decision in two separately written cells (FilterMemoTwoCells) must be rejected.
    def memo_cfg(name, two):
        p = os.path.join(vlib.SPECS, SPEC, "gen_%s.cfg" % name)
        with open(p, "w") as f:
            f.write('SPECIFICATION Spec\nCONSTANTS\n Callers = {1, 2}\n Keys = {"A", "B"}\n DropKeys = {"A"}\n NCalls = %d\n'
                    ' FilterMemoTwoCells = %s\nINVARIANTS TypeOK OwnKey\nCHECK_DEADLOCK FALSE\n' % (3 if thorough else 2, two))
        return os.path.basename(p)
    r = vlib.tlc_mc(SPEC, "FilterMemo", memo_cfg("memo_pure", "FALSE"), workers=4, timeout=600, tag="memo_pure")
    memo_only = {"DoLdState", "DoLdHash", "DoStEmpty", "DoStHash", "DoStState", "LdState", "LdHash", "StEmpty", "StHash", "StState"}
    if not chk.expect_mc_ok(r, "FilterMemo/pure", vacuity_exempt=memo_only):
        return
    r = vlib.tlc_mc(SPEC, "FilterMemo", memo_cfg("memo_witness", "TRUE"), workers=4, timeout=600, coverage=False, tag="memo_witness")
    if r["invariant"] != "OwnKey":
        chk.tool_error("concurrent model no longer rejects the two-cell decision memo (witness lost)", r["out"][-2000:])
    chk.notes["memo_witness"] = "FilterMemoTwoCells=TRUE violates OwnKey at depth %d" % r["depth"]

    # 2. harness against /repo's working tree
    build(chk)

    # 3. spec -> impl: TLC exports every configuration of the (smaller) conformance scopes with all its operations;
    #    the harness executes them on the real layers; TraceLayers recomputes the deliveries and compares
    progs = chk.path("programs.ndjson")
    nprog = 0
    per_scope = {}
    with open(progs, "w") as f:
        for name, kw in export_scopes(thorough):
            cfg = gen_cfg(name, export=True, **kw)
            r = vlib.tlc_mc(SPEC, "MCLayers", cfg, workers=1, timeout=900, coverage=False, tag=name)
            ps = vlib.replay_lines(r["out"])
            if not ps or r["error"]:
                chk.tool_error("no programs exported by %s (%s)" % (name, r["error"]), r["out"][-3000:])
            for p in ps:
                f.write(json.dumps(p, separators=(",", ":")) + "\n")
            nprog += len(ps)
            per_scope[name] = {"programs": len(ps), "ops": sum(len(p["ops"]) + len(p.get("hist", [])) for p in ps)}
            if name == "x_stack":
                chk.cov["samples"].append({"source": "TLC-exported program (x_stack)", "cfg": ps[len(ps) // 2]["cfg"],
                                           "first_ops": ps[len(ps) // 2]["ops"][:3]})
    chk.log("TLC exported %d programs: %s" % (nprog, per_scope))
    summ = run_and_validate(chk, ["replay", "--in", progs], chk.path("replay.ndjson"), "TLC-exported programs on the real layers")
    chk.notes["export"] = per_scope
    chk.notes["replay"] = summ

    # 4. impl -> spec: random configuration trees and names (non-ASCII, empty, equal to / extending / inside / other
    #    case of the configured routes, prefixes and patterns), validated the same way
    nrec = 12000 if thorough else 1200
    summ2 = run_and_validate(chk, ["record", "--runs", nrec], chk.path("record.ndjson"), "random configurations and names")
    chk.notes["record"] = summ2
    with open(chk.path("record.ndjson")) as f:
        head = [json.loads(next(f)) for _ in range(3)]
    chk.cov["samples"].append({"source": "recorded random run (first events)", "events": head})
    # 5. real-parallel: 8 threads through ONE shared layer tree per layer kind, totals judged by TLC (HammerOK) with the
    #    same delivery function; sound for every interleaving because deliveries are a pure function of the call (InvPure)
    summ3 = run_and_validate(chk, ["hammer", "--runs", 6 if thorough else 2, "--threads", 8, "--calls", 200000 if thorough else 150000],
                             chk.path("hammer.ndjson"), "real-parallel calls through one shared layer")
    chk.notes["hammer"] = summ3
    chk.log("hammer: %d runs, %d calls, %.1fs in the layers" % (summ3.get("runs", 0), summ3.get("calls", 0), summ3.get("secs", 0)))
    chk.cov["rule"] = ("exhaustive TLC: every configuration x every describe/register (x every update) of each scope, "
                       "mirror-of-code deliveries == law deliveries; conformance: every TLC-exported program and every seeded "
                       "random program executed on the real layers, deliveries recomputed by TLC per call and compared as bags; "
                       "distinct_nontrivial = distinct (configuration, call) pairs whose outcome is not a plain pass-through "
                       "to the default recorder (dropped / renamed / routed / fanned out), counted by the harness; "
                       "hammer: per layer kind 8 real threads x 150-200k calls through one shared instance, per-(thread,key) "
                       "totals compared by TLC with the summed per-call deliveries")


def replay(chk, path):
    """Re-execute a failing run on the real code: the trace carries the configuration and every call."""
    build(chk)
    if not path.endswith(".ndjson"):
        return run(chk)
    prog = None
    progs = []
    for line in open(path):
        e = json.loads(line)
        if e.get("ev") == "hammer":      # a real-parallel run: run that layer kind again
            run_and_validate(chk, ["hammer", "--runs", 6, "--threads", 8, "--calls", 200000, "--only", e["layer"]],
                             chk.path("hammer_again.ndjson"), "replay (hammer) " + path)
            return
        if e.get("ev") == "reset":
            prog = {"hist": [], "ops": []} if e["cfg"].get("t") == "none" else {"cfg": e["cfg"], "ops": []}
            progs.append(prog)
        elif prog is not None and e.get("ev") == "build":
            prog["hist"].append({k: v for k, v in e.items() if k != "ev"})
        elif prog is not None and e.get("ev") in ("describe", "register", "update", "panic"):
            if e["ev"] == "panic":
                if isinstance(e.get("at"), dict):
                    prog["ops"].append(e["at"])
                continue
            op = {k: v for k, v in e.items() if k not in ("ev", "got")}
            op["o"] = e["ev"]
            prog["ops"].append(op)
    pf = chk.path("replay_programs.ndjson")
    with open(pf, "w") as f:
        for p in progs:
            f.write(json.dumps(p) + "\n")
    run_and_validate(chk, ["replay", "--in", pf], chk.path("replay_again.ndjson"), "replay " + path)
