"""X01 (specification growth, not a listed property): DogStatsD forwarder accounting and telemetry.
Spec: specs/DsdTelemetry/DsdTelemetry.tla (forwarder round = flush / send* / apply, TelemetryUpdate bookkeeping,
the 15 datadog.dogstatsd.client.* counters, an agent that restarts / stalls).  Conformance: the real exporter
(real forwarder thread run in lock step through the cfg(metrics_verif) points, real unix datagram / stream
sockets, a recorder double as global recorder) in child processes, harness/src/bin/x01.rs."""
import json, os, glob
import vlib

SPEC = "DsdTelemetry"
INV = ("TypeOK TelSums TelDropSplit RoundPackets HistPointsAreValues Contexts ExactlyOnce NothingLost TelVsSocket "
       "SocketConservation Attempts TelemetryOff LazyInit FeedbackReg")
KNOWN = {"XF01a": "XF01a"}
XF01A_WHAT = ("a round that flushed contexts / sent or dropped packets / had serializer drops but counted zero points is not "
              "applied to the telemetry counters (TelemetryUpdate::had_updates looks at the point counts only)")
# X01_GATE_REPAIRED=1: check a tree in which had_updates() looks at every field (notes/x01_fix_XF01a.diff): the
# conformance specs use GateOnPoints = FALSE and the strict law (no deviation allowed)
REPAIRED = os.environ.get("X01_GATE_REPAIRED") == "1"
REAL = dict(CK="{1,2,3,4}", GK="{11,12,13}", HK="{21,22,23}", BigKeys="{4,13,23}", TightH="{22}", HCap=2, BS=64)


def cfg(name, spec="Spec", inv=INV, props="Monotone", post=False, **kw):
    base = dict(CK="{1,2}", GK="{11}", HK="{21}", BigKeys="{2}", TightH="{21}", HCap=1, BS=2, Stream="FALSE",
                TelemetryOn="TRUE", Feedback="FALSE", GateOnPoints="TRUE", AnyOrder="TRUE", MaxRounds=2, MaxOps=3,
                MaxRestarts=1, MaxStalls=0, Lens="{2}", IncVals="{0,1}")
    base.update(kw)
    p = os.path.join(vlib.SPECS, SPEC, "gen_%s.cfg" % name)
    with open(p, "w") as f:
        f.write("SPECIFICATION %s\nCONSTANTS\n" % spec)
        for k, v in base.items():
            f.write(" %s = %s\n" % (k, v))
        f.write("INVARIANTS %s\n" % inv)
        if props:
            f.write("PROPERTIES %s\n" % props)
        if post:
            f.write("POSTCONDITION TraceAccepted\n")
        f.write("CHECK_DEADLOCK FALSE\n")
    return os.path.basename(p)


def tf(b):
    return "TRUE" if b else "FALSE"


def trace_cfg(group):
    s, t, fb = [int(x) for x in group.split("_")]
    inv = INV.replace("RoundPackets", "RoundPacketsT")
    if REPAIRED:
        inv = inv.replace("NothingLost", "StrictNothingLost")
    return cfg("tr_" + group, spec="TraceSpec", inv=inv, props=None, post=True, GateOnPoints=tf(not REPAIRED),
               Stream=tf(s), TelemetryOn=tf(t), Feedback=tf(fb), MaxRounds=100000, MaxOps=100000, MaxRestarts=100000,
               MaxStalls=100000, Lens="{1}", IncVals="{0}", **REAL)


def install_known(chk):
    """XF01a is a *proposed* finding (notes/x01.md): while it is not listed in known_findings.json for X01 the
    observation is kept in the evidence notes and is neither a KNOWN-FINDING line nor a violation."""
    orig = chk.known

    def known(fid, observed=""):
        if fid == "XF01a" and fid not in chk.listed:
            n = chk.notes.setdefault("proposed_finding_XF01a", {"what": XF01A_WHAT, "rounds_observed": 0, "samples": []})
            n["rounds_observed"] += 1
            if len(n["samples"]) < 3:
                n["samples"].append("round delta (metrics, by type x3, packets_sent, packets_dropped, _writer, _serializer, "
                                    "bytes_dropped, bytes_sent, bytes_dropped_writer, contexts, by type x3) = " + observed)
            return True
        return orig(fid, observed)
    chk.known = known


def validate_dir(chk, d, what):
    total = 0
    for p in sorted(glob.glob(os.path.join(d, "tr_*.ndjson"))):
        group = os.path.basename(p)[3:-7]
        total += vlib.validate_concat(chk, SPEC, "TraceDsdTelemetry", trace_cfg(group), p, "%s (stream/telemetry/feedback = %s)" % (what, group),
                                      KNOWN, timeout=1800)
    return total


def run(chk):
    thorough = chk.tier == "thorough"
    install_known(chk)
    chk.assumptions += [
        "State::flush is one atomic step here (its interleavings with updates are C10's subject); the writer is seen as 'metric "
        "rejected for size' or 'payload(s) of n values' (its bytes are C09's subject); payload lengths are data",
        "histogram sampling off; unix datagram and unix stream transports (udp not driven)",
        "conformance runs the forwarder in lock step (parked at dsd.c.fl.cur.pre / fwd.send.post): application calls and agent "
        "faults happen while it is parked; the kernel's socket buffer size is not modelled (a send to a stalled agent may "
        "succeed or time out)",
    ]
    # 1. exhaustive: the design satisfies the accounting laws
    mcs = [("dgram_restart", dict(), set()),
           ("stream_stall", dict(Stream="TRUE", MaxStalls=1, MaxOps=2, CK="{1}", BigKeys="{}", IncVals="{1}"), set()),
           ("feedback", dict(Feedback="TRUE", AnyOrder="FALSE", MaxRestarts=0, MaxRounds=3, MaxOps=2, CK="{1}", BigKeys="{11}",
                             HK="{}", TightH="{}", IncVals="{1}"),
            {"AgentDown", "AgentUp", "AgentStall", "AgentResume", "SendRefusedA", "SendTimeoutA", "Record"}),
           ("telemetry_off", dict(TelemetryOn="FALSE", MaxOps=2, MaxRestarts=0), {"AgentDown", "AgentUp", "AgentStall", "AgentResume", "SendRefusedA", "SendTimeoutA"}),
           ("gate_repaired", dict(GateOnPoints="FALSE", MaxRestarts=0, inv=INV.replace("NothingLost", "StrictNothingLost")),
            {"AgentDown", "AgentUp", "AgentStall", "AgentResume", "SendRefusedA", "SendTimeoutA"})]
    if thorough:
        mcs += [("dgram_restart_deep", dict(MaxRounds=3, MaxOps=4), set()),
                ("stream_stall_restart", dict(Stream="TRUE", MaxStalls=1, MaxOps=3, Lens="{1,2}"), set()),
                ("feedback_faults", dict(Feedback="TRUE", AnyOrder="FALSE", MaxRestarts=1, MaxRounds=3, MaxOps=2, CK="{1}", BigKeys="{}",
                                         GK="{}", HK="{}", TightH="{}", IncVals="{1}"),
                 {"AgentStall", "AgentResume", "SendTimeoutA", "Record", "RegG", "SetG"})]
    for name, kw, exempt in mcs:
        kw = dict(kw)
        inv = kw.pop("inv", INV)
        exempt = set(exempt) | ({"AgentStall", "AgentResume", "SendTimeoutA"} if kw.get("MaxStalls", 0) == 0 else set())
        r = vlib.tlc_mc(SPEC, SPEC, cfg(name, inv=inv, **kw), workers=8, timeout=3000, tag=name)
        if not chk.expect_mc_ok(r, "DsdTelemetry/" + name, vacuity_exempt=exempt):
            return
        chk.log("TLC %s: %d distinct states, depth %d, %.0fs" % (name, r["distinct"], r["depth"], r["wall"]))
    # the model reproduces the had_updates() gate: without the named deviation 'nothing is lost' fails
    r = vlib.tlc_mc(SPEC, SPEC, cfg("wit_xf01a", inv="StrictNothingLost", props=None, MaxRestarts=0), workers=4, timeout=600,
                    coverage=False, tag="wit")
    if r["invariant"] != "StrictNothingLost":
        chk.tool_error("model lost the XF01a witness", r["out"][-2000:])
    chk.notes["xf01a_witness"] = "GateOnPoints=TRUE violates StrictNothingLost at depth %d; GateOnPoints=FALSE satisfies it" % r["depth"]

    # 2. the real exporter
    ok, out, wall = vlib.cargo_build("x01")
    if not ok:
        chk.tool_error("harness build failed", out)
    env = {"VERIF_SEED": str(chk.seed)}
    total = 0
    # implementation -> specification: seeded random scenarios
    d1 = chk.path("rec")
    os.makedirs(d1, exist_ok=True)
    for p in glob.glob(os.path.join(d1, "tr_*.ndjson")):
        os.remove(p)
    rc, out, s1 = vlib.harness("x01", ["record", "--runs", 1500 if thorough else 240, "--out", d1, "--par", 8], env=env, timeout=1800)
    if rc != 0 or not s1:
        chk.tool_error("x01 record failed", out)
    chk.notes["record"] = s1
    chk.cov["distinct_nontrivial"] += s1["distinct"]
    total += validate_dir(chk, d1, "recorded scenarios")
    # specification -> implementation: behaviours generated by TLC, executed on the real exporter
    progs = chk.path("programs.ndjson")
    nsim = 0
    with open(progs, "w") as f:
        for name, kw in (("sim_dgram", dict()), ("sim_stream", dict(Stream="TRUE")),
                         ("sim_feedback", dict(Feedback="TRUE", MaxRestarts=1, MaxOps=5)),
                         ("sim_off", dict(TelemetryOn="FALSE", Stream="TRUE"))):
            simkw = dict(REAL, GateOnPoints=tf(not REPAIRED), AnyOrder="FALSE", MaxRounds=3, MaxOps=8, MaxRestarts=2, MaxStalls=0, Lens="{10}", IncVals="{0,1,2}")
            simkw.update(kw)
            c = cfg(name, spec="SimSpec", inv="Emit", props=None, **simkw)
            r = vlib.tlc_mc(SPEC, "SimDsdTelemetry", c, workers=1, timeout=600, coverage=False, tag=name,
                            extra=["-simulate", "num=%d" % (300 if thorough else 40), "-depth", "300", "-seed", str(chk.seed)])
            behs = vlib.replay_lines(r["out"])
            if not behs:
                chk.tool_error("no behaviours from " + name, r["out"][-2000:])
            for b in behs:
                f.write(json.dumps(b) + "\n")
            nsim += len(behs)
            if len(chk.cov["samples"]) < 2:
                chk.cov["samples"].append({"source": "TLC behaviour " + name, "script": behs[0]["steps"][:40], "telemetry_expected": behs[0]["expect"]})
    d2 = chk.path("rep")
    os.makedirs(d2, exist_ok=True)
    for p in glob.glob(os.path.join(d2, "tr_*.ndjson")):
        os.remove(p)
    rc, out, s2 = vlib.harness("x01", ["replay", "--in", progs, "--out", d2, "--par", 8], env=env, timeout=1800)
    if rc != 0 or not s2:
        chk.tool_error("x01 replay failed", out)
    chk.notes["replay"] = s2
    total += validate_dir(chk, d2, "replayed TLC behaviours")
    chk.cov["traces_validated_against_impl"] = total
    for p in sorted(glob.glob(os.path.join(d1, "tr_*.ndjson")))[:1]:
        with open(p) as f:
            chk.cov["samples"].append({"source": "recorded run", "events": [json.loads(next(f)) for _ in range(14)]})
    chk.cov["rule"] = ("TLC: every interleaving of application calls, forwarder rounds (flush / one send per payload / apply) and agent "
                       "faults (down, up, stall, resume, read) within small bounds, per transport and telemetry mode; implementation: one "
                       "child process per scenario (real forwarder thread in lock step, real unix sockets, global recorder double); "
                       "distinct = distinct sequences of calls, faults and outcomes; evaluations = states of validated traces")


def replay(chk, path):
    install_known(chk)
    vlib.cargo_build("x01")
    first = json.loads(open(path).readline())
    a = first.get("a", [0, 1, 0])
    group = "%d_%d_%d" % (a[0], a[1], a[2])
    vlib.validate_concat(chk, SPEC, "TraceDsdTelemetry", trace_cfg(group), path, "replay " + path, KNOWN)
