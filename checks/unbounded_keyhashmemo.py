"""Unbounded safety argument for specs/KeyOrder/KeyHashMemo.tla (C03, Key::get_hash memoisation): an inductive invariant, checked by
Apalache for every constant assignment within a size bound and proved by TLAPS without a size bound.

    specs/KeyOrder/KeyHashMemoApa.tla    typed INSTANCE wrapper of KeyHashMemo.tla + IndInv + Safety + ConstInit<n>
    specs/KeyOrder/KeyHashMemoProof.tla  TLAPS proof of Spec => []Safety through the same IndInv

`unbounded(chk)` runs
    (a) Init => IndInv              apalache-mc check --cinit=ConstInit<n> --init=Init   --inv=IndInv --length=0
    (b) IndInv /\\ Next => IndInv'   apalache-mc check --cinit=ConstInit<n> --init=IndInv --inv=IndInv --length=1
    (c) IndInv => Safety            apalache-mc check --cinit=ConstInit<n> --init=IndInv --inv=Safety --length=0
    (d) tlapm KeyHashMemoProof.tla         (all proof obligations re-checked from scratch)
and RETURNS a dict; it never calls chk.violation / chk.tool_error and never exits.  An "Error" outcome of
(b) is a counterexample to inductiveness of IndInv, i.e. a state satisfying IndInv that need not be
reachable: it is a defect of IndInv (ours) unless somebody shows the state reachable, and is reported as
data only.  Safety is exactly the invariant list checks/c03.py gives to TLC.

n (bound on the size of each process set for Apalache): 4 in the quick tier (~25 s), 8 in the thorough
tier (~100 s on an idle box; measured up to n = 12, see notes/unbounded.md); env VERIF_UNBOUNDED_N overrides.
"""
import os, sys

sys.path.insert(0, os.path.join(os.path.dirname(os.path.dirname(os.path.abspath(__file__))), "lib"))
import apalache

MODULE = "KeyHashMemo"
SPEC_DIR = "KeyOrder"
SIZES = (4, 6, 8, 12)          # the ConstInit<n> operators that exist in KeyHashMemoApa.tla
SAFETY = "TypeOK RetOK MemoOK CloneOK"


def constants(n):
    return {"Getters": "any set of integers, at most %d elements" % n,
            "Cloners": "any set of integers disjoint from Getters, at most %d elements" % n,
            "NCalls": "any integer >= 1 (TypeOK bounds a cloner's cnt = 1 by NCalls)",
            "InitKinds": "any non-empty subset of {static, built}"}


PROOF_CONSTANTS = {"Getters": "any set (no size bound)", "Cloners": "any set disjoint from Getters",
                   "NCalls": "any natural number >= 1", "InitKinds": "any set"}


def unbounded(chk=None, n=None, timeout=1800, tlaps=True):
    tier = getattr(chk, "tier", "quick")
    if n is None:
        n = int(os.environ.get("VERIF_UNBOUNDED_N", "8" if tier == "thorough" else "4"))
    if n not in SIZES:
        n = max([k for k in SIZES if k <= n] or [SIZES[0]])
    out_dir = os.path.join(chk.work, "unbounded") if chk is not None and hasattr(chk, "work") else None
    r = apalache.inductive(MODULE, SPEC_DIR, MODULE + "Apa.tla", cinit="ConstInit%d" % n, timeout=timeout,
                           constants=constants(n), tag="n%d" % n, out_dir=out_dir,
                           proof_file=(MODULE + "Proof.tla") if tlaps else None, proof_constants=PROOF_CONSTANTS)
    r["safety"] = SAFETY.split()
    # Safety of the Apa module == the invariant list the property's check gives to TLC (drift guard, data only)
    r["safety_vs_tlc"] = apalache.safety_drift("c03.py", "MEMO_INVS", "KeyOrder/KeyHashMemoApa.tla")
    if chk is not None and hasattr(chk, "log"):
        for o in r["obligations"]:
            chk.log("unbounded %s: %s -> %s (%.1f s)" % (MODULE, o["name"], o["outcome"], o["wall_s"]))
    return r


if __name__ == "__main__":
    import json
    res = unbounded(n=int(sys.argv[1]) if len(sys.argv) > 1 else None)
    for o in res["obligations"]:
        o.pop("tail", None)
    print(json.dumps(res, indent=1))
