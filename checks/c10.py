"""C10: DogStatsD aggregation conserves counts across flushes under any interleaving.
Spec: specs/DsdAgg/DsdAgg.tla (atomic steps of storage.rs + State::flush decisions)."""
import json, os
import vlib

SPEC = "DsdAgg"
INV = "TypeOK IncConservation AbsConservation NoOvershoot ZeroOnce HistConservation"
KNOWN = {"CF10b": "CF10b", "CF05a": "CF05a"}


def cfg(name, spec="MCSpec", inv=INV, post=False, prog=None, **kw):
    base = dict(Updaters="{1,2}", CKeys="{1,2}", GKeys="{1}", HKeys="{1}", MaxFlushes=3, IdleByDelta="TRUE",
                TsWhenAggressive="TRUE", Mode='"Aggressive"')
    base.update(kw)
    p = os.path.join(vlib.SPECS, SPEC, "gen_%s.cfg" % name)
    with open(p, "w") as f:
        f.write("SPECIFICATION %s\nCONSTANTS\n" % spec)
        for k, v in base.items():
            f.write(" %s = %s\n" % (k, v))
        if prog:
            f.write(" Prog <- %s\n" % prog)
        f.write("INVARIANTS %s\n" % inv)
        if post:
            f.write("POSTCONDITION TraceAccepted\n")
        f.write("CHECK_DEADLOCK FALSE\n")
    return os.path.basename(p)


def split_by(trace, keyf):
    """split a concatenated trace into files by keyf(reset event)"""
    groups = {}
    for start, lines in vlib.split_runs(trace):
        k = keyf(json.loads(lines[0]))
        groups.setdefault(k, []).extend(lines)
    out = {}
    for k, lines in groups.items():
        p = "%s.%s.ndjson" % (trace[:-7], "_".join(str(x) for x in k))
        open(p, "w").writelines(lines)
        out[k] = p
    return out


def run(chk):
    thorough = chk.tier == "thorough"
    chk.assumptions += [
        "sequentially consistent interleavings; the raw histogram bucket is abstract here (linearizable push / drain): its own atomic "
        "steps are C05's subject, and scheduled runs do not yield inside it",
        "counter values stay far below 2^63 so a wrapped delta is observable as a negative i64",
        "absolute() on a key is used by one thread with non-decreasing values (a counter)",
    ]
    mcs = [("inc", "ProgInc", dict(MaxFlushes=3)), ("abs", "ProgAbs", dict(MaxFlushes=3)), ("mixed", "ProgMixed", dict(MaxFlushes=2))]
    if thorough:
        mcs += [("inc3", "ProgInc3", dict(Updaters="{1,2,3}", MaxFlushes=3)), ("inc4f", "ProgInc", dict(MaxFlushes=4))]
    for name, prog, kw in mcs:
        r = vlib.tlc_mc(SPEC, "MCDsdAgg", cfg(name, prog=prog, **kw), workers=8, timeout=3000, tag=name)
        used = {"inc": {"I1", "I2", "I3"}, "abs": {"A1", "A2", "A3", "A4"}}
        if not chk.expect_mc_ok(r, "DsdAgg/" + name, vacuity_exempt={"UStep", "FStep"}):
            return
        chk.log("TLC %s: %d distinct states" % (name, r["distinct"]))
    # the model still distinguishes the pre-fix decision rule (CF10a) and knows CF10b
    r = vlib.tlc_mc(SPEC, "MCDsdAgg", cfg("incold", prog="ProgInc", IdleByDelta="FALSE"), workers=8, timeout=900, coverage=False, tag="incold")
    if r["invariant"] is None:
        chk.tool_error("model lost the CF10a witness", r["out"][-2000:])
    chk.notes["cf10a_witness"] = "IdleByDelta=FALSE violates %s at depth %d" % (r["invariant"], r["depth"])

    ok, out, wall = vlib.cargo_build("c10")
    if not ok:
        chk.tool_error("harness build failed", out)
    env = {"VERIF_SEED": str(chk.seed)}
    total = 0
    for mode in ("aggressive", "conservative"):
        tr = chk.path("rec_%s.ndjson" % mode)
        rc, out, s1 = vlib.harness("c10", ["record", "--mode", mode, "--runs", 1500 if thorough else 250, "--out", tr], env=env)
        if rc != 0 or not s1:
            chk.tool_error("c10 record failed", out)
        chk.cov["distinct_nontrivial"] += s1["distinct"]
        for (nc,), path in split_by(tr, lambda e: (e["a"][1],)).items():
            tcfg = cfg("trace_%s_%d" % (mode, nc), spec="TraceSpec", post=True, Updaters="{1,2,3}",
                       CKeys="{1,2}" if nc == 2 else "{1}", MaxFlushes=99, Mode='"%s"' % mode.capitalize())
            total += vlib.validate_concat(chk, SPEC, "TraceDsdAgg", tcfg, path, "scheduled runs (%s, %d counters)" % (mode, nc), KNOWN)
    # spec -> impl: TLC behaviours + directed CF10b witness
    progs = chk.path("programs.ndjson")
    with open(progs, "w") as f:
        for name, prog in (("sim_inc", "ProgInc"), ("sim_abs", "ProgAbs"), ("sim_mixed", "ProgMixed")):
            r = vlib.tlc_mc(SPEC, "SimDsdAgg", cfg(name, spec="SimSpec", inv="Emit", prog=prog, MaxFlushes=2), workers=1, timeout=600,
                            coverage=False, tag=name,
                            extra=["-simulate", "num=%d" % (600 if thorough else 120), "-depth", "300", "-seed", str(chk.seed)])
            behs = vlib.replay_lines(r["out"])
            if not behs:
                chk.tool_error("no behaviours from " + name, r["out"][-2000:])
            for b in behs:
                f.write(json.dumps(b) + "\n")
            if len(chk.cov["samples"]) < 2:
                chk.cov["samples"].append({"source": "TLC behaviour " + name, "schedule": behs[0]["sched"][:30]})
        r = vlib.tlc_mc(SPEC, "SimDsdAgg", cfg("wit_cf10b", spec="SimSpec", inv="StrictNoNegativeDelta", prog="ProgAbs", MaxFlushes=1),
                        workers=4, timeout=600, coverage=False, tag="wit")
        sched = vlib.last_state_var(r["out"], "sched")
        if r["invariant"] != "StrictNoNegativeDelta" or not sched:
            chk.tool_error("no TLC witness for CF10b", r["out"][-2000:])
        # let the run continue to the end of the flush after the witness prefix
        f.write(json.dumps({"nc": 2, "flushes": 1, "aggressive": True,
                            "progs": [[{"kind": "abs", "key": 1, "val": 5}, {"kind": "abs", "key": 1, "val": 5}, {"kind": "abs", "key": 1, "val": 8}],
                                      [{"kind": "inc", "key": 2, "val": 1}]], "sched": sched}) + "\n")
        chk.cov["samples"].append({"source": "TLC counterexample to StrictNoNegativeDelta (CF10b witness)", "schedule": sched})
    tr2 = chk.path("replay.ndjson")
    rc, out, s2 = vlib.harness("c10", ["replay", "--mode", "aggressive", "--in", progs, "--out", tr2], env=env)
    if rc != 0 or not s2:
        chk.tool_error("c10 replay failed", out)
    tcfg = cfg("trace_aggressive_2", spec="TraceSpec", post=True, Updaters="{1,2,3}", CKeys="{1,2}", MaxFlushes=99, Mode='"Aggressive"')
    total += vlib.validate_concat(chk, SPEC, "TraceDsdAgg", tcfg, tr2, "replayed TLC behaviours", KNOWN)
    chk.notes["replay"] = s2
    # raw histograms vs flush at the granularity of the bucket's atomic operations: the recorder / State::flush path is
    # driven under the scheduler and the run is validated against Bucket.tla (C05's specification): every recorded value
    # is sent by exactly one flush or is still in the bucket (CF05a losses are accounted for exactly)
    tr4 = chk.path("hist.ndjson")
    rc, out, s4 = vlib.harness("c10", ["hist", "--runs", 1000 if thorough else 150, "--out", tr4], env=env)
    if rc != 0 or not s4:
        chk.tool_error("c10 hist failed", out)
    total += vlib.validate_concat(chk, "Bucket", "TraceBucket", "TraceBucket.cfg", tr4,
                                  "histogram record vs flush (bucket granularity)", {"CF05a": "CF05a", "CF05c": "CF05c"}, timeout=3000)
    chk.cov["distinct_nontrivial"] += s4["distinct"]
    chk.notes["hist"] = s4
    # black-box end to end: real exporter thread, real sockets (udp, unixgram, unix stream)
    tr3 = chk.path("e2e.ndjson")
    rc, out, s3 = vlib.harness("c10", ["e2e", "--runs", 18 if thorough else 6, "--out", tr3, "--dir", chk.work], env=env, timeout=900)
    if rc != 0 or not s3:
        chk.tool_error("c10 e2e failed", out)
    vlib.validate_concat(chk, SPEC, "TraceDsdAgg", tcfg, tr3, "end-to-end over sockets", KNOWN)
    total += s3["runs"]
    # sampled histograms through State::flush (sampling on): the identities that still hold
    tr6 = chk.path("sampled.ndjson")
    rc, out, s6 = vlib.harness("c10", ["sampled", "--runs", 1500 if thorough else 200, "--out", tr6], env=env)
    if rc != 0 or not s6:
        chk.tool_error("c10 sampled failed", out)
    vlib.validate_concat(chk, SPEC, "TraceDsdAgg", tcfg, tr6, "sampled histogram cycles", KNOWN)
    total += s6["runs"]
    # look-up / increment / drop usage (no handle kept) with idle gaps against back-to-back flushes
    tr7 = chk.path("lookup.ndjson")
    rc, out, s7 = vlib.harness("c10", ["lookup", "--runs", 20 if thorough else 6, "--out", tr7], env=env, timeout=900)
    if rc != 0 or not s7:
        chk.tool_error("c10 lookup failed", out)
    vlib.validate_concat(chk, SPEC, "TraceDsdAgg", tcfg, tr7, "look-up/increment/drop threads vs back-to-back flushes", KNOWN)
    total += s7["runs"]
    # the forwarder's reconnect / drop state machine (specs/DsdForward): real exporter thread, unix datagram and stream
    # sockets, an agent that goes away and comes back while the forwarder is idle
    r = vlib.tlc_mc("DsdForward", "DsdForward", "MC.cfg", workers=4, timeout=600, tag="fwd")
    if not chk.expect_mc_ok(r, "DsdForward"):
        return
    tr5 = chk.path("fwd.ndjson")
    rc, out, s5 = vlib.harness("c10", ["fwd", "--runs", 40 if thorough else 8, "--out", tr5, "--dir", chk.work], env=env, timeout=900)
    if rc != 0 or not s5:
        chk.tool_error("c10 fwd failed", out)
    total += vlib.validate_concat(chk, "DsdForward", "TraceDsdForward", "TraceDsdForward.cfg", tr5, "forwarder vs restarting agent")
    chk.notes["fwd"] = s5
    chk.cov["traces_validated_against_impl"] = total
    with open(chk.path("rec_aggressive.ndjson")) as f:
        chk.cov["samples"].append({"source": "recorded run", "events": [json.loads(next(f)) for _ in range(16)]})
    if chk.tier == "thorough":
        # beyond TLC's bounds: inductive invariant by Apalache (any sets of <= 8 processes) + TLAPS proof (any size); recorded, never decides
        vlib.run_unbounded(chk, "dsdagg")
    chk.cov["rule"] = ("TLC: all interleavings of 2-3 updaters (increment / absolute / gauge / histogram programs) with up to 3-4 flushes at "
                       "atomic-step granularity; implementation: scheduled random runs per aggregation mode (distinct = distinct event "
                       "sequences), TLC schedules replayed, end-to-end runs over udp / unixgram / unix-stream sockets")


def replay(chk, path):
    vlib.cargo_build("c10")
    first = json.loads(open(path).readline())
    mode = "Aggressive" if first.get("a", [1])[0] == 1 else "Conservative"
    nc = first.get("a", [1, 2])[1] if first.get("ev") == "reset" else 2
    tcfg = cfg("trace_%s_%d" % (mode.lower(), nc), spec="TraceSpec", post=True, Updaters="{1,2,3}",
               CKeys="{1,2}" if nc == 2 else "{1}", MaxFlushes=99, Mode='"%s"' % mode)
    vlib.validate_concat(chk, SPEC, "TraceDsdAgg", tcfg, path, "replay " + path, KNOWN)
