"""C18: the scrape endpoint serves the current rendering, enforces its allowlist, and survives misbehaving clients.
Spec: specs/ScrapeEndpoint/ScrapeEndpoint.tla (allowlist parse + containment + per-connection decision + handler; accept loop and
one task per connection), scopes / export: MCScrapeEndpoint.tla, TLC behaviours as client programs: SimScrapeEndpoint.tla,
conformance: TraceScrapeEndpoint.tla, driver: harness/src/bin/c18.rs (real HttpListeningExporter, raw HTTP/1.1 over loopback
sockets bound to distinct 127.0.0.0/8 source addresses)."""
import json, os, random
import vlib

SPEC = "ScrapeEndpoint"
KNOWN = {"CF18": "CF18"}
# FALSE: add_allowed_address as coded today: an entry written as a plain IP address is rejected, although the builder documents
#        "an IP address or subnet" (finding CF18 = named deviation `dev_plain`; the invariant is InvDocumentedSyntax).
# TRUE : after the repair in notes/c18_fix_CF18.diff (plain address = single-host block): no allowance anywhere
#        (InvStrictSyntax), the CF18 witness run is dropped, plain entries take part in every decision scope.
# VERIF_C18_FIXED=1 selects TRUE without editing (bin/mutcheck notes/c18_fix_CF18.diff C18 with VERIF_C18_FIXED=1).
PLAIN_ACCEPTED = os.environ.get("VERIF_C18_FIXED", "1") == "1"   # CF18 repaired in /repo by a543e46

INV_DEC = "TypeOK InvDocumentedSyntax InvBuildResult InvAllowlistInForce InvDecision InvNoLeak InvPerConnection InvContainsAgree InvListening InvServable"
CHUNK_LINES = 60000


def cfg(name, spec="Spec", inv=INV_DEC, props=None, sym=False, post=False, plain=None, **kw):
    plain = PLAIN_ACCEPTED if plain is None else plain
    base = dict(W=4, Conns="{1}", Paths='{"metrics"}', PlainAccepted="TRUE" if plain else "FALSE", MaxFaults=0, MaxGets=1, MaxBumps=0,
                MaxQ=2, Reuse="FALSE", ExitOnError="FALSE", Serial="FALSE", ListenerSetterResetsAllowlist="FALSE", ConfigMode='"nested"',
                PeerMode='"two"', MaxCalls=4)
    base.update(kw)
    if plain and "InvDocumentedSyntax" in inv:
        inv = inv.replace("InvDocumentedSyntax", "InvDocumentedSyntax InvStrictSyntax")
    p = os.path.join(vlib.SPECS, SPEC, "gen_%s.cfg" % name)
    with open(p, "w") as f:
        f.write("SPECIFICATION %s\nCONSTANTS\n" % spec)
        for k, v in base.items():
            f.write(" %s = %s\n" % (k, v))
        f.write(" Peers <- MCPeers\n Configs <- MCConfigs\n Contains <- ContainsCode\n")
        if sym:
            f.write("SYMMETRY ConnSym\n")
        f.write("INVARIANTS %s\n" % inv)
        if props:
            f.write("PROPERTIES %s\n" % props)
        f.write("CHECK_DEADLOCK FALSE\n")
    return os.path.basename(p)


def trace_cfg():
    """TraceScrapeEndpoint.cfg is committed for PlainAccepted = FALSE; the repaired variant is generated."""
    if not PLAIN_ACCEPTED:
        return "TraceScrapeEndpoint.cfg"
    src = open(os.path.join(vlib.SPECS, SPEC, "TraceScrapeEndpoint.cfg")).read()
    src = src.replace("PlainAccepted = FALSE", "PlainAccepted = TRUE").replace("InvDocumentedSyntax", "InvDocumentedSyntax InvStrictSyntax")
    open(os.path.join(vlib.SPECS, SPEC, "gen_trace_fixed.cfg"), "w").write(src)
    return "gen_trace_fixed.cfg"


def build(chk):
    ok, out, wall = vlib.cargo_build("c18")
    if not ok:
        chk.tool_error("harness build failed", out)
    chk.log("harness built in %.0fs" % wall)


def run_and_validate(chk, mode_args, trace, what):
    env = {"VERIF_SEED": str(chk.seed)}
    rc, out, summ = vlib.harness("c18", mode_args + ["--out", trace], env=env, timeout=1500)
    if rc != 0 or not summ:
        chk.tool_error("c18 %s failed (rc=%s)" % (mode_args[0], rc), out)
    tcfg = trace_cfg()
    runs = vlib.split_runs(trace)
    total_lines = sum(len(ls) for _, ls in runs)
    chunk, size, nchunks = [], 0, 0

    def flush():
        nonlocal chunk, size, nchunks
        if not chunk:
            return
        if chk.violations >= 4:      # enough failing runs reported
            chunk, size = [], 0
            return
        nchunks += 1
        whole = nchunks == 1 and size == total_lines
        cp = trace if whole else "%s.part%d" % (trace, nchunks)
        if not whole:
            with open(cp, "w") as f:
                for ls in chunk:
                    f.writelines(ls)
        n = vlib.validate_concat(chk, SPEC, "TraceScrapeEndpoint", tcfg, cp, what, KNOWN, max_rounds=3, timeout=2400)
        chk.cov["traces_validated_against_impl"] += n
        if not whole:
            os.remove(cp)
        chunk, size = [], 0

    for _, ls in runs:
        if size + len(ls) > CHUNK_LINES and chunk:
            flush()
        chunk.append(ls)
        size += len(ls)
    flush()
    chk.cov["distinct_nontrivial"] += summ.get("distinct_nontrivial", 0)
    chk.log("%s: %s" % (what, {k: summ[k] for k in ("runs", "events", "responses", "n200", "n403", "n400", "closed", "timeouts",
                                                     "refused", "build_err", "skipped_peers", "wall_ms")}))
    return summ


def export_configs(chk, name, mode, **kw):
    r = vlib.tlc_mc(SPEC, "MCScrapeEndpoint", cfg(name, spec="ExportSpec", inv="Emit", ConfigMode='"%s"' % mode, PeerMode='"all"', **kw),
                    workers=1, timeout=900, coverage=False, tag=name)
    ps = vlib.replay_lines(r["out"])
    if not ps or r["error"]:
        chk.tool_error("no configurations exported by %s (%s)" % (name, r["error"]), r["out"][-3000:])
    return ps


def run(chk):
    thorough = chk.tier == "thorough"
    chk.assumptions += [
        "IPv4 peers on the loopback interface (sockets bound to 127.x.y.z source addresses); the W-bit model space is embedded at "
        "five bit positions of 127.0.0.0/8 (prefix lengths /8../32); IPv6 entries only as nets that never contain an IPv4 peer",
        "TCP, HTTP/1.1 framing and hyper's connection handling are observed, not modelled bit by bit: a request is one item, the "
        "server's reaction to client faults on the SAME connection is left open (answer or close), only other/later connections are constrained",
        "a later client is served = it gets its response within 15 s; the accept loop and the connection tasks are not instrumented",
        "the rendering is current = strict exposition parse (harness/src/promparse.rs) and the monotone counter shown lies between the "
        "increments completed before the request was sent and those started when the response had arrived",
        "resource exhaustion (unbounded number of stalled connections) is out of scope",
    ]
    # ---------------------------------------------------------------- 1. exhaustive model checking
    dec = dict(spec="DecSpec", Conns="{1}", Paths='{"health","metrics","healthq"}', MaxGets=1, PeerMode='"all"')
    scopes = [
        # every allowlist of <= 2 entries (plain / CIDR incl. host bits set / malformed) x every peer x every path class
        ("decision_all2", cfg("decision_all2", ConfigMode='"all2"', **dec), 8, {}),
        # the builder as a history of calls: every chain of <= 4 (5) calls over {with_http_listener, unrelated setter, add_allowed_address(e1),
        # add_allowed_address(e2)} in ANY order and repeated x every peer: all entries added are in force, wherever the address was set
        ("builder_histories", cfg("builder_histories", ConfigMode='"hist"', MaxCalls=5 if thorough else 4, spec="DecSpec", Conns="{1}",
                                  Paths='{"health","metrics"}', MaxGets=1, PeerMode='"all"'), 8, {}),
        # <= 5 faults on 3 connections around <= 2 well-formed GETs: nothing a client does stops the others being served
        ("faults_3conn", cfg("faults_3conn", Conns="{c1,c2,c3}", sym=True, MaxFaults=5, MaxGets=2 if thorough else 1), 8, {"Bump"}),
        ("faults_2conn_keepalive", cfg("faults_2conn", Conns="{c1,c2}", sym=True, MaxFaults=5, MaxGets=3, MaxQ=3), 8, {"Bump"}),
        # the counter moves while requests are outstanding: the rendering is current (lo <= v <= ctr), keep-alive, pipelining
        ("current_rendering", cfg("current_rendering", Conns="{1,2}", MaxFaults=1, MaxGets=3 if thorough else 2, MaxBumps=2, MaxQ=3,
                                  ConfigMode='"fault"' if thorough else '"nested"'), 8, {}),
        # liveness: a pending well-formed request on a healthy connection is eventually answered (weak fairness of Accept / Serve)
        ("liveness", cfg("liveness", spec="FairSpec", Conns="{1,2}", MaxFaults=3, MaxGets=2, props="LiveServed",
                         inv="TypeOK InvDecision InvNoLeak InvListening InvServable"), 8, {"Bump"}),
    ]
    if not PLAIN_ACCEPTED:
        # the repaired builder (plain address = single-host block) satisfies the strict property on every configuration
        scopes.append(("repaired_plain_entries", cfg("repaired", plain=True, ConfigMode='"all2"' if thorough else '"aligned2"', **dec), 8, {}))
    if thorough:
        scopes += [
            ("decision_w5", cfg("decision_w5", ConfigMode='"all1"', W=5, **dec), 8, {}),
            ("faults_3conn_2cfg", cfg("faults_3conn_2cfg", Conns="{c1,c2,c3}", sym=True, MaxFaults=5, MaxGets=1, ConfigMode='"fault"'), 8, {"Bump"}),
            ("liveness_3conn", cfg("liveness_3conn", spec="FairSpec", Conns="{1,2,3}", MaxFaults=2, MaxGets=2, props="LiveServed",
                                   inv="TypeOK InvDecision InvNoLeak InvListening InvServable"), 8, {"Bump"}),
        ]
    for name, c, workers, exempt in scopes:
        r = vlib.tlc_mc(SPEC, "MCScrapeEndpoint", c, workers=workers, timeout=3000, tag=name)
        if not chk.expect_mc_ok(r, "ScrapeEndpoint/" + name, vacuity_exempt=exempt):
            return
        chk.log("TLC %s: %d distinct states (%d generated), depth %d, %.0fs" % (name, r["distinct"], r["generated"], r["depth"], r["wall"]))
    # the model can tell: design mutations must be rejected (non-vacuity of the listener properties)
    for name, kw, expect in (("wit_exit_on_error", dict(ExitOnError="TRUE", Conns="{1,2}", MaxFaults=3, MaxGets=2), "InvListening"),
                             ("wit_serial", dict(Serial="TRUE", Conns="{1,2}", MaxFaults=3, MaxGets=2), "InvServable"),
                             # with_http_listener replacing the whole listener configuration (allowlist included): an entry added
                             # before it is lost and a peer outside every listed network is served
                             ("wit_listener_resets", dict(ListenerSetterResetsAllowlist="TRUE", ConfigMode='"hist"', MaxCalls=3, inv="TypeOK InvNoLeak",
                                                          **dec), "InvNoLeak")):
        r = vlib.tlc_mc(SPEC, "MCScrapeEndpoint", cfg(name, **kw), workers=4, timeout=600,
                        coverage=False, tag=name)
        if r["invariant"] != expect:
            chk.tool_error("model lost the witness %s (expected %s violated, got %s / %s)" % (name, expect, r["invariant"], r["error"]), r["out"][-2000:])
        chk.notes[name] = "violates %s at depth %d" % (r["invariant"], r["depth"])
    if not PLAIN_ACCEPTED:
        # CF18 in the model: with the builder as coded, the strict reading of "as the builder documents" fails on a plain address
        r = vlib.tlc_mc(SPEC, "MCScrapeEndpoint", cfg("wit_cf18", inv="TypeOK InvStrictSyntax", ConfigMode='"all1"', **dec), workers=4,
                        timeout=600, coverage=False, tag="wit_cf18")
        if r["invariant"] != "InvStrictSyntax":
            chk.tool_error("model lost the CF18 witness", r["out"][-2000:])
        chk.notes["cf18_witness"] = "PlainAccepted=FALSE violates InvStrictSyntax at depth %d (an entry written as a plain address)" % r["depth"]

    # ---------------------------------------------------------------- 2. harness against /repo's working tree
    build(chk)

    # ---------------------------------------------------------------- 3. spec -> impl: every configuration of the decision scope
    # on a real listener, every peer of the W-bit space asking over a real socket; TraceScrapeEndpoint re-decides every answer
    one = export_configs(chk, "x_all1", "all1")
    two = [p for p in export_configs(chk, "x_two", "all2" if thorough else "aligned2") if len(p["hist"]) == 3]
    rnd = random.Random(chk.seed)
    if not thorough:
        # quick: all pairs of proper blocks and plain addresses would be 2209 listeners; keep every nested / equal / disjoint
        # shape but sample the pairs (seeded), the exhaustive run above covers all of them in the model
        rnd.shuffle(two)
        two = two[:700]
    v1, v2 = chk.path("vectors_one.ndjson"), chk.path("vectors_two.ndjson")
    with open(v1, "w") as f:
        for p in one:
            f.write(json.dumps(p, separators=(",", ":")) + "\n")
    with open(v2, "w") as f:
        for p in two:
            f.write(json.dumps(p, separators=(",", ":")) + "\n")
    chk.log("TLC exported %d configurations with <= 1 entry, %d with 2 entries" % (len(one), len(two)))
    s1 = run_and_validate(chk, ["replay", "--in", v1, "--paths", "all", "--embed", "all" if thorough else "rotate"],
                          chk.path("vec_one.ndjson"), "decision vectors (<= 1 entry, all paths)")
    s2 = run_and_validate(chk, ["replay", "--in", v2], chk.path("vec_two.ndjson"), "decision vectors (2 entries)")
    chk.notes["vectors"] = {"one_entry": s1, "two_entries": s2}
    chk.cov["samples"].append({"source": "TLC-exported configuration", "hist": two[0]["hist"]})
    # builder call histories: every chain of <= 4 (5) calls that sets the listen address at least once, executed on the real builder
    hs = [p for p in export_configs(chk, "x_hist", "hist", MaxCalls=5 if thorough else 4) if any(c["op"] == "listen" for c in p["hist"])]
    vh_ = chk.path("vectors_hist.ndjson")
    with open(vh_, "w") as f:
        for p in hs:
            f.write(json.dumps(p, separators=(",", ":")) + "\n")
    chk.log("TLC exported %d builder call histories" % len(hs))
    s5 = run_and_validate(chk, ["replay", "--in", vh_], chk.path("vec_hist.ndjson"), "builder call histories (any order of with_http_listener / add_allowed_address)")
    chk.notes["vectors"]["histories"] = s5
    chk.cov["samples"].append({"source": "TLC-exported builder history", "calls": [(c["op"], c["e"]["k"]) for c in hs[len(hs) // 2]["hist"]]})

    # ---------------------------------------------------------------- 4. spec -> impl: TLC behaviours as client programs
    progs, seen = [], set()
    nsim = 700 if thorough else 160
    for name, kw in (("sim_fault", dict(ConfigMode='"fault"', Paths='{"metrics","health"}', MaxOps=16)),
                     ("sim_nested", dict(ConfigMode='"nested"', Paths='{"metrics","root","healthq"}', MaxOps=22, MaxFaults=6))):
        base = dict(Conns="{1,2,3}", MaxFaults=5, MaxGets=5, MaxBumps=2, Reuse="TRUE", MaxQ=2)
        base.update(kw)
        r = vlib.tlc_mc(SPEC, "SimScrapeEndpoint", cfg(name, spec="SimSpec", inv="SimEmit", **base), workers=1, timeout=900, coverage=False,
                        tag=name, extra=["-simulate", "num=%d" % (nsim * 3), "-depth", "200", "-seed", str(chk.seed)])
        got = vlib.replay_lines(r["out"])
        if not got:
            chk.tool_error("no behaviours from " + name, r["out"][-2000:])
        for b in got:
            k = json.dumps(b, sort_keys=True)
            if k not in seen and any(o["op"] == "read" for o in b["ops"]):
                seen.add(k)
                progs.append(b)
    rnd.shuffle(progs)
    progs = progs[:nsim]
    pf = chk.path("programs.ndjson")
    with open(pf, "w") as f:
        for b in progs:
            f.write(json.dumps(b, separators=(",", ":")) + "\n")
    s3 = run_and_validate(chk, ["replay", "--in", pf], chk.path("tlc_programs.ndjson"), "TLC behaviours replayed as client programs")
    chk.notes["tlc_programs"] = s3
    chk.cov["samples"].append({"source": "TLC behaviour (client steps)", "ops": [(o["op"], o["c"]) for o in progs[0]["ops"]]})

    # ---------------------------------------------------------------- 5. impl -> spec: random allowlists / peers at block edges,
    # fault sequences followed by later clients, concurrent scrapers while faults and increments go on
    nrec = 600 if thorough else 90
    s4 = run_and_validate(chk, ["record", "--runs", nrec, "--plain-rate", 300 if PLAIN_ACCEPTED else 30], chk.path("record.ndjson"),
                          "random fault sequences and concurrent scrapers")
    chk.notes["record"] = s4
    with open(chk.path("record.ndjson")) as f:
        lines = [json.loads(next(f)) for _ in range(6)]
    for e in lines:
        e.pop("prog", None)
        if "peer" in e:
            e["peer"] = "".join(str(b) for b in e["peer"])
        for x in e.get("hist", []):
            x["e"]["a"] = "".join(str(b) for b in x["e"]["a"])
    chk.cov["samples"].append({"source": "recorded random run (first events)", "events": lines})
    chk.cov["rule"] = ("exhaustive TLC: every allowlist of <= 2 entries over the 4-bit address space x every peer x path class "
                       "(mirror of add_allowed_address / check_tcp_allowed / handle_http_request == documented meaning), all "
                       "interleavings of <= 5 client faults on 3 connections with the accept loop and the connection tasks, liveness "
                       "under weak fairness; conformance: TLC-exported configurations on a real listener asked from every peer "
                       "address, TLC behaviours replayed as client programs, seeded random fault sequences + concurrent scrapers, "
                       "every event re-decided by TLC; distinct_nontrivial = distinct (allowlist, peer, path, status, body class) "
                       "answers with an allowlist configured, counted by the harness")


def replay(chk, path):
    """Re-execute a failing run on the real code: every `reset` event carries its concrete program."""
    build(chk)
    if not path.endswith(".ndjson"):
        return run(chk)
    progs = []
    for line in open(path):
        e = json.loads(line)
        if e.get("ev") == "reset" and e.get("prog"):
            progs.append(e["prog"])
    if not progs:
        return run(chk)
    pf = chk.path("replay_programs.ndjson")
    with open(pf, "w") as f:
        for p in progs:
            f.write(p + "\n")
    run_and_validate(chk, ["replay", "--in", pf], chk.path("replay_again.ndjson"), "replay " + path)
