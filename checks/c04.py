"""C04: Counter / Gauge / Histogram handles over the standard atomic storage apply every update exactly once.
Spec: specs/Handles/Handles.tla (one action per handle operation = its linearization point; FineCas refines the
gauge's fetch_update into load + compare_exchange steps)."""
import json, os, re
from concurrent.futures import ThreadPoolExecutor
import vlib

SPEC = "Handles"
INV = "TypeOK IncOnlySum AbsMonotone AbsFloor NoLostUpdate SetExact ExactlyN"
COV = re.compile(r"^<(\w+) line \d+, col \d+ to line \d+, col \d+ of module Handles(?: \([\d ]+\))?>: \d+:(\d+)", re.M)
ALL_ACTIONS = {"NoopOp", "CInc", "CAbs", "GAtomic", "GLoad", "GCas", "HRec", "HMany"}


def cfg(name, threads, maxops, ht, alpha, fine=False, retry=True, inv=INV, w=16):
    p = os.path.join(vlib.SPECS, SPEC, "gen_%s.cfg" % name)
    with open(p, "w") as f:
        f.write("SPECIFICATION Spec\nCONSTANTS\n Threads = %s\n MaxOps = %d\n W = %d\n HT <- %s\n Alphabet <- %s\n"
                " FineCas = %s\n Retry = %s\nINVARIANTS %s\nCHECK_DEADLOCK FALSE\n"
                % (threads, maxops, w, ht, alpha, "TRUE" if fine else "FALSE", "TRUE" if retry else "FALSE", inv))
    return os.path.basename(p)


def sim_cfg(name, full, k):
    p = os.path.join(vlib.SPECS, SPEC, "gen_%s.cfg" % name)
    with open(p, "w") as f:
        f.write("SPECIFICATION SimSpec\nCONSTANTS\n Threads = {1}\n MaxOps = 100\n W = 16000\n HT <- WorldHT\n Alphabet = {}\n"
                " FineCas = FALSE\n Retry = TRUE\n K = %d\n Full = %s\nINVARIANTS %s Emit\nCHECK_DEADLOCK FALSE\n"
                % (k, "TRUE" if full else "FALSE", INV))
    return os.path.basename(p)


def mc_list(thorough):
    T3, T2 = "{1,2,3}", "{1,2}"
    C, G, Hh = {"NoopOp", "CInc", "CAbs"}, {"NoopOp", "GAtomic"}, {"NoopOp", "HRec", "HMany"}
    GC = {"NoopOp", "GAtomic", "GLoad", "GCas"}
    EN = INV + " NoValueDisables"
    # (name, cfg args, kwargs, actions that can fire)
    L = [
        ("counter", (T3, 3, "HTCounter", "AlphaCounter"), {}, C),
        ("gauge", (T3, 3, "HTGauge", "AlphaGauge"), {}, G),
        ("gaugecas", (T2, 2, "HTGauge", "AlphaGaugeCasZ"), {"fine": True}, GC),
        ("hist", (T3, 2, "HTHist", "AlphaHist"), {}, Hh),
        ("mixed", (T2, 3, "HTMixed", "AlphaMixed"), {}, {"NoopOp", "CInc", "CAbs", "GAtomic", "HMany"}),
        # no operation is ever disabled by its value (ENABLED is expensive: smaller scopes)
        ("en_counter", (T2, 2, "HTCounter", "AlphaCounter"), {"inv": EN}, C),
        ("en_gauge", (T2, 2, "HTGauge", "AlphaGauge"), {"inv": EN}, G),
        ("en_gaugecas", (T2, 1, "HTGauge", "AlphaGaugeCas"), {"inv": EN, "fine": True}, GC),
        ("en_hist", (T2, 2, "HTHist", "AlphaHist"), {"inv": EN}, Hh),
    ]
    if thorough:
        L += [
            ("gaugecas3", (T3, 2, "HTGauge", "AlphaGaugeCas"), {"fine": True}, GC),
            ("mixed3", (T3, 2, "HTMixed", "AlphaMixed"), {}, {"NoopOp", "CInc", "CAbs", "GAtomic", "HMany"}),
            ("hist3", (T3, 3, "HTHist", "AlphaHist"), {}, Hh),
            ("counter4", ("{1,2,3,4}", 2, "HTCounter", "AlphaCounter"), {}, C),
        ]
    return L


def programs_from_tlc(chk, r, path):
    behs = vlib.replay_lines(r["out"])
    if not behs or r.get("error") or r["invariant"]:
        chk.tool_error("no programs from SimHandles (%s / %s)" % (r.get("error"), r["invariant"]), r["out"][-3000:])
    with open(path, "w") as f:
        for b in behs:
            f.write(json.dumps(b) + "\n")
    return behs


def run(chk):
    thorough = chk.tier == "thorough"
    chk.assumptions += [
        "sequentially consistent interleavings: the memory orderings (Release / AcqRel / Relaxed) are not modelled",
        "std's AtomicU64::{fetch_add, fetch_max, swap, compare_exchange} are atomic; the gauge's fetch_update loop is modelled "
        "(FineCas) and the whole operations are checked on the real code by real-parallel runs",
        "value mapping: u64 as hi*2^60 + lo with |lo| < 500 (ring of 16000: wrap-around, 2^63, u64::MAX exact); f64 as "
        "multiples of 1/4 below 2^29 plus NaN, +Inf, -Inf; f64 overflow to infinity of finite sums, subnormals and "
        "NaN payloads are outside; i32/u32 arguments up to 100000001, Duration up to 3.75 s",
        "record_many with count usize::MAX is exercised only where the HistogramFn overrides record_many",
    ]
    # ---- 1. TLC decides the properties on the specification (configs run concurrently, <= 8 TLC workers in total)
    mcs = mc_list(thorough)

    def one(m):
        name, a, kw, _ = m
        return vlib.tlc_mc(SPEC, "MCHandles", cfg(name, *a, **kw), workers=2, timeout=3000, tag=name)

    with ThreadPoolExecutor(max_workers=4) as ex:
        fw = ex.submit(lambda: vlib.tlc_mc(SPEC, "MCHandles", cfg("wit_noretry", "{1,2}", 1, "HTGauge", "AlphaGaugeCas", fine=True, retry=False),
                                           workers=1, timeout=600, coverage=False, tag="wit"))
        results = list(ex.map(one, mcs))
        wit = fw.result()
    for (name, a, kw, fires), r in zip(mcs, results):
        if not chk.expect_mc_ok(r, "Handles/" + name, vacuity_exempt=ALL_ACTIONS - fires):
            return
        # vacuity (vlib's coverage pattern misses action lines that carry a location suffix): every action
        # this configuration is about must have been taken
        taken = {m.group(1): int(m.group(2)) for m in COV.finditer(r["out"])}
        never = sorted(a_ for a_ in fires if taken.get(a_, 0) == 0)
        if never:
            chk.tool_error("vacuous model: actions never taken in %s: %s" % (name, never), r["out"][-3000:])
        chk.log("TLC %s: %d distinct states, %d transitions, depth %d (%.0fs)" % (name, r["distinct"], r["generated"], r["depth"], r["wall"]))
    # the model distinguishes a compare_exchange that is not retried (lost update)
    if wit["invariant"] != "NoLostUpdate":
        chk.tool_error("model lost the no-retry witness (expected NoLostUpdate violated)", wit["out"][-2000:])
    chk.notes["noretry_witness"] = "Retry=FALSE violates NoLostUpdate at depth %d" % wit["depth"]

    ok, out, wall = vlib.cargo_build("c04")
    if not ok:
        chk.tool_error("harness build failed", out)
    env = {"VERIF_SEED": str(chk.seed)}
    tcfg = "TraceHandles.cfg"
    distinct = 0

    # ---- 2. spec -> impl: TLC-generated operation sequences executed on the real handles, every step compared
    sims = [("sim_small", False, 2, []),
            ("sim_full", True, 5, ["-simulate", "num=%d" % (10000 if thorough else 1500), "-depth", "20", "-seed", str(chk.seed)])]
    if thorough:
        sims.append(("sim_long", True, 12, ["-simulate", "num=3000", "-depth", "30", "-seed", str(chk.seed + 1000)]))
    for name, full, k, extra in sims:
        r = vlib.tlc_mc(SPEC, "SimHandles", sim_cfg(name, full, k), workers=1 if full else 4, timeout=1200, coverage=False, tag=name, extra=extra)
        progs = chk.path(name + ".programs.ndjson")
        behs = programs_from_tlc(chk, r, progs)
        tr = chk.path(name + ".ndjson")
        rc, out, s = vlib.harness("c04", ["replay", "--in", progs, "--out", tr], env=env)
        if rc != 0 or not s:
            chk.tool_error("c04 replay failed", out)
        n = vlib.validate_concat(chk, SPEC, "TraceHandles", tcfg, tr, "TLC sequences (%s) on the real handles" % name)
        chk.cov["traces_validated_against_impl"] += n
        distinct += s["distinct"]
        chk.notes[name] = s
        chk.log("%s: %d sequences (%d ops, %d panics) validated" % (name, s["runs"], s["ops"], s["panics"]))
        if name == "sim_full":
            chk.cov["samples"].append({"source": "TLC sequence", "ops": behs[0]["ops"]})

    # ---- 3. impl -> spec: seeded random sequential programs
    tr = chk.path("record.ndjson")
    rc, out, s1 = vlib.harness("c04", ["record", "--runs", 4000 if thorough else 500, "--out", tr], env=env)
    if rc != 0 or not s1:
        chk.tool_error("c04 record failed", out)
    n = vlib.validate_concat(chk, SPEC, "TraceHandles", tcfg, tr, "random sequential programs")
    chk.cov["traces_validated_against_impl"] += n
    distinct += s1["distinct"]
    chk.notes["record"] = s1
    with open(tr) as f:
        chk.cov["samples"].append({"source": "recorded run", "events": [json.loads(next(f)) for _ in range(4)]})

    # ---- 4. real-parallel: 8-16 threads hammer clones of one handle; what holds for EVERY schedule
    tr = chk.path("par.ndjson")
    rc, out, s2 = vlib.harness("c04", ["par", "--runs", 1500 if thorough else 200, "--out", tr], env=env, timeout=1800)
    if rc != 0 or not s2:
        chk.tool_error("c04 par failed", out)
    vlib.validate_concat(chk, SPEC, "TraceHandles", tcfg, tr, "real-parallel hammering (commutative consequences)")
    chk.cov["traces_validated_against_impl"] += s2["runs"]
    chk.notes["par"] = s2
    with open(tr) as f:
        next(f)
        chk.cov["samples"].append({"source": "parallel summary", "event": json.loads(next(f))})

    # ---- 5. real-parallel short histories with tickets: TLC searches a linearization
    tr = chk.path("lin.ndjson")
    rc, out, s3 = vlib.harness("c04", ["lin", "--runs", 40000 if thorough else 5000, "--out", tr], env=env, timeout=1800)
    if rc != 0 or not s3:
        chk.tool_error("c04 lin failed", out)
    vlib.validate_concat(chk, SPEC, "TraceHandles", tcfg, tr, "real-parallel short histories (linearizability)", timeout=1800)
    chk.cov["traces_validated_against_impl"] += s3["runs"]
    chk.notes["lin"] = s3
    distinct += s3["overlapping"] + s2["runs"]
    chk.cov["distinct_nontrivial"] = distinct
    chk.cov["rule"] = ("TLC: all interleavings of atomic handle operations of 2-3 threads x 2-3 operations per kind (and of the "
                       "load/compare_exchange steps of the gauge loop); implementation: every TLC sequence of length 2 over a reduced "
                       "alphabet + random TLC sequences of length 5 over all handles/values/IntoF64 types + seeded random programs, "
                       "each step compared (distinct = distinct operation sequences); real-parallel runs: hammer summaries and "
                       "ticketed short histories (distinct counts histories with concurrent operations)")


def replay(chk, path):
    """Sequential runs are re-executed on the current code (their operation sequence is in the trace) and the new
    trace is validated; parallel summaries / histories are schedule dependent, so the recorded event is re-validated."""
    ok, out, wall = vlib.cargo_build("c04")
    if not ok:
        chk.tool_error("harness build failed", out)
    progs, other = [], []
    for _, lines in vlib.split_runs(path):
        evs = [json.loads(l) for l in lines if l.strip()]
        ops = [e["o"] for e in evs if e.get("ev") in ("op", "panic")]
        if ops:
            progs.append({"ops": ops})
        elif any(e.get("ev") != "reset" for e in evs):
            other += lines
    if progs:
        pp, tr = chk.path("replay.programs.ndjson"), chk.path("replay.ndjson")
        with open(pp, "w") as f:
            for b in progs:
                f.write(json.dumps(b) + "\n")
        rc, out, s = vlib.harness("c04", ["replay", "--in", pp, "--out", tr], env={"VERIF_SEED": str(chk.seed)})
        if rc != 0 or not s:
            chk.tool_error("c04 replay failed", out)
        vlib.validate_concat(chk, SPEC, "TraceHandles", "TraceHandles.cfg", tr, "replay (re-executed) " + path)
    if other:
        tr = chk.path("replay.other.ndjson")
        open(tr, "w").writelines(other)
        vlib.validate_concat(chk, SPEC, "TraceHandles", "TraceHandles.cfg", tr, "replay (recorded summary) " + path)
