"""C02: the global recorder is installed at most once and seen whole by everyone.
Spec: specs/OnceCell/OnceCell.tla (one action per atomic step of RecorderOnceCell::set / try_load)."""
import json, os
import vlib

SPEC = "OnceCell"
INV = "TypeOK AtMostOneOk LoserGetsItBack ReadOnlyWhenInitialised DispatchTargetInstalled Stable WinnerKept"


def cfg(name, inst, emit, n, spec="Spec", inv=INV):
    p = os.path.join(vlib.SPECS, SPEC, "gen_%s.cfg" % name)
    with open(p, "w") as f:
        f.write("SPECIFICATION %s\nCONSTANTS\n Installers = %s\n Emitters = %s\n NEmits = %d\nINVARIANTS %s\nCHECK_DEADLOCK FALSE\n"
                % (spec, inst, emit, n, inv))
    return os.path.basename(p)


def run(chk):
    thorough = chk.tier == "thorough"
    chk.assumptions += [
        "sequentially consistent interleavings: the Acquire/Release orderings themselves are not modelled",
        "fresh cells (metrics::verif::OnceCell wrapper) are the same type as the global cell; the real global path is exercised in child processes",
    ]
    runs = [("3x2x2", "{1,2,3}", "{11,12}", 2)]
    if thorough:
        runs += [("3x2x3", "{1,2,3}", "{11,12}", 3), ("4x3x2", "{1,2,3,4}", "{11,12,13}", 2)]
    for name, i, e, n in runs:
        r = vlib.tlc_mc(SPEC, "OnceCell", cfg(name, i, e, n), workers=8, timeout=1800, tag=name)
        if not chk.expect_mc_ok(r, "OnceCell/" + name):
            return
        chk.log("TLC %s: %d distinct states, depth %d" % (name, r["distinct"], r["depth"]))
    ok, out, wall = vlib.cargo_build("c02")
    if not ok:
        chk.tool_error("harness build failed", out)
    env = {"VERIF_SEED": str(chk.seed)}
    tcfg = "TraceOnceCell.cfg"

    # impl -> spec: random schedules on fresh cells
    tr = chk.path("record.ndjson")
    rc, out, s1 = vlib.harness("c02", ["record", "--runs", 3000 if thorough else 400, "--out", tr], env=env)
    if rc != 0 or not s1:
        chk.tool_error("c02 record failed", out)
    n = vlib.validate_concat(chk, SPEC, "TraceOnceCell", tcfg, tr, "recorded random schedules (fresh cells)")
    chk.cov["traces_validated_against_impl"] += n
    chk.cov["distinct_nontrivial"] += s1["distinct_schedules"]

    # spec -> impl: TLC behaviours replayed
    progs = chk.path("programs.ndjson")
    r = vlib.tlc_mc(SPEC, "SimOnceCell", cfg("sim", "{1,2,3}", "{11,12}", 2, spec="SimSpec", inv="Emit"), workers=1,
                    timeout=600, coverage=False, tag="sim",
                    extra=["-simulate", "num=%d" % (1500 if thorough else 300), "-depth", "200", "-seed", str(chk.seed)])
    behs = vlib.replay_lines(r["out"])
    if not behs:
        chk.tool_error("no behaviours from SimOnceCell", r["out"][-2000:])
    with open(progs, "w") as f:
        for b in behs:
            f.write(json.dumps(b) + "\n")
    chk.cov["samples"].append({"source": "TLC behaviour", "schedule": behs[0]["sched"][:30]})
    tr2 = chk.path("replay.ndjson")
    rc, out, s2 = vlib.harness("c02", ["replay", "--in", progs, "--out", tr2], env=env)
    if rc != 0 or not s2:
        chk.tool_error("c02 replay failed", out)
    n2 = vlib.validate_concat(chk, SPEC, "TraceOnceCell", tcfg, tr2, "replayed TLC behaviours")
    chk.cov["traces_validated_against_impl"] += n2
    chk.notes["replay"] = s2

    # the real global recorder (set_global_recorder + counter!) in fresh child processes, scheduled
    tr3 = chk.path("global.ndjson")
    rc, out, s3 = vlib.harness("c02", ["global", "--runs", 200 if thorough else 40, "--out", tr3], env=env)
    if rc != 0 or not s3:
        chk.tool_error("c02 global failed", out)
    n3 = vlib.validate_concat(chk, SPEC, "TraceOnceCell", tcfg, tr3, "real global recorder in child processes")
    chk.cov["traces_validated_against_impl"] += n3
    chk.notes["global"] = s3

    # real-parallel races
    tr4 = chk.path("free.ndjson")
    rc, out, s4 = vlib.harness("c02", ["free", "--runs", 20000 if thorough else 3000, "--out", tr4], env=env, timeout=900)
    if rc != 0 or not s4:
        chk.tool_error("c02 free failed", out)
    vlib.validate_concat(chk, SPEC, "TraceOnceCell", tcfg, tr4, "real-parallel install/emit races", timeout=1800)
    chk.cov["traces_validated_against_impl"] += s4["runs"]
    chk.notes["free"] = s4
    with open(tr) as f:
        chk.cov["samples"].append({"source": "recorded run", "events": [json.loads(next(f)) for _ in range(14)]})
    if chk.tier == "thorough":
        # beyond TLC's bounds: inductive invariant by Apalache (any sets of <= 8 processes) + TLAPS proof (any size); recorded, never decides
        vlib.run_unbounded(chk, "oncecell")
    chk.cov["rule"] = ("TLC: all interleavings of the atomic steps of 3-4 installers and 2-3 emitters; implementation: "
                       "scheduler-driven runs (distinct = distinct event sequences), TLC behaviours replayed, child processes "
                       "through the real global, real-parallel trials")


def replay(chk, path):
    vlib.cargo_build("c02")
    vlib.validate_concat(chk, SPEC, "TraceOnceCell", "TraceOnceCell.cfg", path, "replay " + path)
