"""C08: metrics-exporter-prometheus render() is well-formed Prometheus text exposition for any input strings.
Spec: specs/PromText/PromText.tla (sanitisers, escaper, line composition as coded + recogniser of the format).

1. TLC, exhaustive: every scene of the scopes of MCPromText.tla (every string up to MaxLen over 10 character
   classes in each string slot, pairs of strings, every unit x kind x suffix on/off x histogram/summary)
   is rendered by the model with the recogniser running alongside.
2. TLC witnesses: the strict sample-name rule fails on the model of the code as it is (CF08) and holds
   on the model of the proposed repair (UnitFix).
3. spec -> impl: TLC exports every string with the model's outputs, and scenes; the harness runs them on
   the real crate (3 concrete representatives per class).
4. impl -> spec: seeded random scenes / strings on the real crate.
   3 + 4 are validated by TracePromText (model = code, recogniser on the REAL text, independent parser).
"""
import json, os
import vlib

SPEC = "PromText"
# Single switch between the model of the code as it is (unit suffix after the sample suffix, HELP/TYPE
# without it: finding CF08) and the model of the repaired code (notes/c08_fix_CF08.diff).
# (C08_UNIT_FIX=1 in the environment overrides it, to try the repair: `C08_UNIT_FIX=1 bin/mutcheck notes/c08_fix_CF08.diff C08`.)
UNIT_FIX = False
if os.environ.get("C08_UNIT_FIX") in ("0", "1"):
    UNIT_FIX = os.environ["C08_UNIT_FIX"] == "1"
KNOWN = {"CF08": "CF08"}

ALPHABET = "{97, 110, 48, 95, 58, 34, 92, 10, 32, 233}"        # a n 0 _ : " \ LF space e-acute
PAIR_ALPHABET = "{97, 110, 48, 34, 92, 10, 32}"
STRUCT_ALPHABET = "{97, 34, 92, 10, 123, 125, 44, 61, 35, 32}"  # a " \ LF { } , = # space
ALL_SCOPES = ["names", "names_dist", "keys", "keys_global", "values", "values_dist", "descs", "matrix",
              "overrides", "override_pats", "pair_name_desc", "pair_key_value", "pair_values"]
INVS = "NameGrammar LabelGrammar ValueEscaped DescEscaped NoSyntaxError Complete NameRuleOrCF08 NoForgery"


def tla_set(xs):
    return "{" + ", ".join('"%s"' % x for x in xs) + "}"


def mc_cfg(name, spec="MCSpec", inv=INVS, unit_fix=None, alphabet=ALPHABET, maxlen=4, pair_alphabet=PAIR_ALPHABET,
           pairlen=2, scopes=ALL_SCOPES, veclen=None, type_by_name=True):
    p = os.path.join(vlib.SPECS, SPEC, "gen_%s.cfg" % name)
    uf = UNIT_FIX if unit_fix is None else unit_fix
    with open(p, "w") as f:
        f.write("SPECIFICATION %s\nCONSTANTS\n" % spec)
        f.write(" UnitFix = %s\n TypeByName = %s\n Alphabet = %s\n MaxLen = %d\n PairAlphabet = %s\n PairLen = %d\n Scopes = %s\n"
                % ("TRUE" if uf else "FALSE", "TRUE" if type_by_name else "FALSE", alphabet, maxlen, pair_alphabet, pairlen,
                   tla_set(scopes)))
        if veclen is not None:
            f.write(" VecLen = %d\n" % veclen)
        if inv:
            f.write("INVARIANTS %s\n" % inv)
        f.write("CHECK_DEADLOCK FALSE\n")
    return os.path.basename(p)


def trace_cfg():
    p = os.path.join(vlib.SPECS, SPEC, "gen_trace.cfg")
    with open(p, "w") as f:
        f.write("SPECIFICATION TraceSpec\nCONSTANTS\n UnitFix = %s\n TypeByName = TRUE\n" % ("TRUE" if UNIT_FIX else "FALSE"))
        f.write("INVARIANTS %s AsModel\nPOSTCONDITION TraceAccepted\nCHECK_DEADLOCK FALSE\n" % INVS)
    return os.path.basename(p)


def run(chk):
    thorough = chk.tier == "thorough"
    chk.assumptions += [
        "number formatting (u64 / f64 Display) is not modelled: a value is any token Go's ParseFloat accepts",
        "exhaustive scope: strings up to MaxLen over 10 character classes (letter, n, digit, _, :, \", \\, LF, other ASCII, "
        "non-ASCII); longer strings and other class members are covered by conformance runs only",
        "precondition of the property (distinct sanitised metric / label names, no le / quantile label) is enforced by "
        "the scene generators",
        "HashMap iteration order of render() is not asserted (lines are compared as a bag)",
    ]
    # ---- 1. exhaustive model checking
    runs = [("all", dict(maxlen=4, pairlen=2))]
    if thorough:
        runs = [("all5", dict(maxlen=5, pairlen=2, pair_alphabet=ALPHABET)),
                ("struct", dict(maxlen=4, pairlen=2, alphabet=STRUCT_ALPHABET, pair_alphabet=STRUCT_ALPHABET,
                                scopes=[s for s in ALL_SCOPES if s not in ("matrix", "overrides")]))]
    else:
        runs.append(("struct", dict(maxlen=3, pairlen=1, alphabet=STRUCT_ALPHABET, pair_alphabet=STRUCT_ALPHABET,
                                    scopes=["values", "descs", "keys", "names", "pair_values"])))
    for name, kw in runs:
        cfg = mc_cfg(name, **kw)
        r = vlib.tlc_mc(SPEC, "MCPromText", cfg, workers=8, timeout=7200 if thorough else 900, tag=name)
        if not chk.expect_mc_ok(r, "PromText/" + name):
            return
        chk.log("TLC %s: %d distinct states, depth %d, %.0fs" % (name, r["distinct"], r["depth"], r["wall"]))
    # ---- 2. witnesses: the model tells the code as it is from the repaired code
    strict = "NoSyntaxError Complete NameRule NoForgery"
    cfg = mc_cfg("wit_cf08", inv=strict, unit_fix=False, maxlen=1, pairlen=1, scopes=["matrix"])
    r = vlib.tlc_mc(SPEC, "MCPromText", cfg, workers=2, timeout=600, tag="wit_cf08", coverage=False)
    if r["invariant"] != "NameRule":
        chk.tool_error("model of the code as it is no longer violates the strict sample-name rule (CF08 witness lost): %s"
                       % r["invariant"], r["out"][-2000:])
    chk.notes["cf08_witness"] = "UnitFix=FALSE violates NameRule at depth %d (matrix scope)" % r["depth"]
    cfg = mc_cfg("fix_cf08", inv=strict, unit_fix=True, maxlen=1, pairlen=1, scopes=["matrix"])
    r = vlib.tlc_mc(SPEC, "MCPromText", cfg, workers=2, timeout=600, tag="fix_cf08", coverage=False)
    if r["invariant"] or not r["ok"]:
        chk.tool_error("model of the repaired code violates %s" % r["invariant"], r["out"][-2000:])
    chk.notes["cf08_repair"] = "UnitFix=TRUE: strict NameRule holds on %d states of the matrix scope" % r["distinct"]
    # the recogniser rejects a TYPE line that does not fit the samples stored for the name (per-metric overrides):
    # variant "histogram as soon as any override exists" must violate NoSyntaxError
    cfg = mc_cfg("wit_type", inv="NoSyntaxError Complete", maxlen=1, pairlen=1, scopes=["overrides"], type_by_name=False)
    r = vlib.tlc_mc(SPEC, "MCPromText", cfg, workers=2, timeout=600, tag="wit_type", coverage=False)
    if r["invariant"] != "NoSyntaxError":
        chk.tool_error("recogniser accepts quantile samples under TYPE histogram (type/sample witness lost): %s"
                       % r["invariant"], r["out"][-2000:])
    chk.notes["type_witness"] = "TypeByName=FALSE (TYPE ignores the metric name) violates NoSyntaxError at depth %d" % r["depth"]

    # ---- 3. TLC exports vectors and scenes
    vec, scn = chk.path("vectors.ndjson"), chk.path("scenes.ndjson")
    for p in (vec, scn):
        if os.path.exists(p):
            os.remove(p)
    cfg = mc_cfg("export", spec="VecSpec", inv="", veclen=5 if thorough else 4, maxlen=3 if thorough else 2,
                 pairlen=2 if thorough else 1)
    r = vlib.tlc_mc(SPEC, "VecPromText", cfg, workers=1, timeout=1800, tag="export", coverage=False,
                    env={"VEC_OUT": vec, "SCENE_OUT": scn})
    if not r["ok"] or not os.path.exists(vec) or not os.path.exists(scn):
        chk.tool_error("export of vectors/scenes failed", r["out"][-3000:])
    nvec = sum(1 for _ in open(vec))
    nscn = sum(1 for _ in open(scn))
    chk.log("TLC exported %d strings with the model's outputs and %d scenes" % (nvec, nscn))

    # ---- build the harness against the repo's working tree
    ok, out, wall = vlib.cargo_build("c08")
    if not ok:
        chk.tool_error("harness build failed", out)
    chk.log("harness built in %.0fs" % wall)
    env = {"VERIF_SEED": str(chk.seed)}
    tcfg = trace_cfg()

    def stage(what, args, trace):
        rc, out, summ = vlib.harness("c08", args + ["--out", trace], env=env, timeout=1800)
        if rc != 0 or not summ:
            chk.tool_error("c08 %s failed" % args[0], out)
        n = vlib.validate_concat(chk, SPEC, "TracePromText", tcfg, trace, what, KNOWN, timeout=3000)
        chk.notes[args[0]] = summ
        return n, summ

    # spec -> impl: every exported string x 3 representatives through the four real sanitisers
    n, s1 = stage("TLC vectors on the real sanitisers", ["vectors", "--in", vec], chk.path("vectors_trace.ndjson"))
    chk.cov["traces_validated_against_impl"] += s1["abstract_strings"]
    chk.cov["distinct_nontrivial"] += s1["distinct_io_pairs"]
    # spec -> impl: TLC scenes on a real recorder
    n, s2 = stage("TLC scenes on a real recorder", ["replay", "--in", scn], chk.path("scenes_trace.ndjson"))
    chk.cov["traces_validated_against_impl"] += s2["scenes"]
    # impl -> spec: random scenes and strings
    nsc, nst = (3000, 6000) if thorough else (250, 600)
    n, s3 = stage("random scenes and strings", ["record", "--scenes", nsc, "--strings", nst], chk.path("record_trace.ndjson"))
    chk.cov["traces_validated_against_impl"] += s3["scenes"] + s3["random_strings"]
    chk.cov["distinct_nontrivial"] += s3["distinct_renderings"]
    for k, s in (("replay", s2), ("record", s3)):
        if not s.get("override_only_scenes_with_unmatched_distribution"):
            chk.tool_error("%s: no scene with per-metric overrides only and a distribution matching none (vacuous)" % k)
        if s.get("panics") or s.get("parse_errors"):
            chk.log("%s: panics=%s parse_errors=%s (reported by trace validation)" % (k, s.get("panics"), s.get("parse_errors")))

    chk.cov["rule"] = ("exhaustive TLC over every scene of the scopes (one string slot ranging over all strings up to MaxLen "
                       "over 10 character classes, pairs of slots, all units x kinds x suffix x mode); implementation runs = "
                       "every exported string x 3 class representatives through the 4 real sanitisers (distinct = distinct "
                       "(function, input, output) triples) + TLC scenes and seeded random scenes rendered by a real "
                       "PrometheusRecorder (distinct = distinct rendered texts), each validated line by line")
    with open(chk.path("record_trace.ndjson")) as f:
        head = []
        for line in f:
            e = json.loads(line)
            if e["ev"] == "line" and len(head) < 8:
                head.append("".join(chr(c) for c in e["cps"]))
    chk.cov["samples"].append({"source": "first lines of a recorded render()", "lines": head})
    with open(vec) as f:
        for i, line in enumerate(f):
            if i in (1234, 7777):
                chk.cov["samples"].append({"source": "TLC vector", "vector": json.loads(line)})


def replay(chk, path):
    """Re-execute a stored failing case on the current tree: the scenes / strings of the stored run are fed to the
    harness again and the fresh trace is validated (a TLC counterexample file re-runs the exhaustive stage)."""
    if path.endswith(".txt"):
        return run(chk)
    ok, out, wall = vlib.cargo_build("c08")
    if not ok:
        chk.tool_error("harness build failed", out)
    scenes, strings = [], []
    with open(path) as f:
        for line in f:
            line = line.strip()
            if not line:
                continue
            e = json.loads(line)
            if e.get("ev") == "scene":
                scenes.append({"cfg": e["cfg"], "fams": e["fams"]})
            elif e.get("ev") == "san":
                if e.get("abs"):
                    strings.append({"in": e["abs"]})
                else:
                    strings += [{"in": c["in"]} for c in e.get("cases", [])]
            elif e.get("ev") == "vecmismatch":
                strings.append({"in": e["in"]})
    env = {"VERIF_SEED": str(chk.seed)}
    tcfg = trace_cfg()
    n = 0
    for mode, items in (("replay", scenes), ("vectors", strings)):
        if not items:
            continue
        src, tr = chk.path("replay_%s_in.ndjson" % mode), chk.path("replay_%s_trace.ndjson" % mode)
        with open(src, "w") as f:
            for it in items:
                f.write(json.dumps(it) + "\n")
        rc, out, summ = vlib.harness("c08", [mode, "--in", src, "--out", tr], env=env)
        if rc != 0 or not summ:
            chk.tool_error("c08 %s failed" % mode, out)
        n += vlib.validate_concat(chk, SPEC, "TracePromText", tcfg, tr, "re-executed %s of %s" % (mode, os.path.basename(path)), KNOWN)
    if n == 0:
        chk.tool_error("nothing to replay in " + path)
    chk.cov["traces_validated_against_impl"] += n
    chk.cov["rule"] = "re-execution of the scenes / strings of a stored failing run on the current tree"
