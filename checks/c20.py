"""C20: a recoverable recorder is live until recovered, inert and dropped once after.
Spec: specs/Recoverable/Recoverable.tla."""
import json, os
import vlib

SPEC = "Recoverable"
INV = "NoCallAfterFinal LiveWhileHandle DroppedOnce StrongConsistent InertAfter"


def cfg(name, mode, emitters="{1,2,3}", ncalls=2, spec="Spec", inv=INV, post=False, props=None):
    p = os.path.join(vlib.SPECS, SPEC, "gen_%s.cfg" % name)
    with open(p, "w") as f:
        f.write('SPECIFICATION %s\nCONSTANTS\n Emitters = %s\n NCalls = %d\n Mode = "%s"\nINVARIANTS %s\n' % (spec, emitters, ncalls, mode, inv))
        if props:
            f.write("PROPERTIES %s\n" % props)
        if post:
            f.write("POSTCONDITION TraceAccepted\n")
        f.write("CHECK_DEADLOCK FALSE\n")
    return os.path.basename(p)


def run(chk):
    thorough = chk.tier == "thorough"
    chk.assumptions += ["Arc/Weak reference counting of std is trusted (upgrade and try_unwrap are single atomic steps)",
                        "sequentially consistent interleavings"]
    for mode in ("into_inner", "drop"):
        sizes = [("3x2", "{1,2,3}", 2)] + ([("3x3", "{1,2,3}", 3), ("4x2", "{1,2,3,4}", 2)] if thorough else [])
        for nm, em, nc in sizes:
            r = vlib.tlc_mc(SPEC, "Recoverable", cfg("%s_%s" % (mode, nm), mode, em, nc), workers=8, timeout=1800, tag=mode + nm)
            exempt = {"RDropHandle"} if mode == "into_inner" else {"RTry"}
            if not chk.expect_mc_ok(r, "Recoverable/%s/%s" % (mode, nm), vacuity_exempt=exempt):
                return
    # liveness: into_inner terminates under fairness (emitters leave the recorder)
    r = vlib.tlc_mc(SPEC, "Recoverable", cfg("live", "into_inner", "{1,2}", 2, spec="FairSpec", props="EventuallyRecovered"),
                    workers=4, timeout=900, coverage=False, tag="live")
    if not r["ok"]:
        p = chk.path("liveness.txt"); open(p, "w").write(r["out"][-20000:])
        chk.violation("TLC: into_inner does not terminate under fairness: %s" % r["error"], replay_src=p)
        return
    chk.cov["states"] += r["distinct"]; chk.cov["transitions"] += r["generated"]

    ok, out, wall = vlib.cargo_build("c20")
    if not ok:
        chk.tool_error("harness build failed", out)
    env = {"VERIF_SEED": str(chk.seed)}
    total = 0
    for mode in ("into_inner", "drop"):
        tcfg = cfg("trace_" + mode, mode, "{1,2,3}", 99, spec="TraceSpec", post=True)
        tr = chk.path("rec_%s.ndjson" % mode)
        rc, out, s1 = vlib.harness("c20", ["record", "--mode", mode, "--runs", 2000 if thorough else 300, "--out", tr], env=env)
        if rc != 0 or not s1:
            chk.tool_error("c20 record failed", out)
        total += vlib.validate_concat(chk, SPEC, "TraceRecoverable", tcfg, tr, "scheduled runs (%s)" % mode)
        chk.cov["distinct_nontrivial"] += s1["distinct"]
        # spec -> impl
        r = vlib.tlc_mc(SPEC, "SimRecoverable", cfg("sim_" + mode, mode, "{1,2,3}", 2, spec="SimSpec", inv="Emit"), workers=1,
                        timeout=600, coverage=False, tag="sim" + mode,
                        extra=["-simulate", "num=%d" % (1000 if thorough else 200), "-depth", "200", "-seed", str(chk.seed)])
        behs = vlib.replay_lines(r["out"])
        if not behs:
            chk.tool_error("no behaviours from SimRecoverable", r["out"][-2000:])
        progs = chk.path("programs_%s.ndjson" % mode)
        with open(progs, "w") as f:
            for b in behs:
                f.write(json.dumps(b) + "\n")
        if len(chk.cov["samples"]) < 2:
            chk.cov["samples"].append({"source": "TLC behaviour (%s)" % mode, "schedule": behs[0]["sched"][:30]})
        tr2 = chk.path("replay_%s.ndjson" % mode)
        rc, out, s2 = vlib.harness("c20", ["replay", "--mode", mode, "--in", progs, "--out", tr2], env=env)
        if rc != 0 or not s2:
            chk.tool_error("c20 replay failed", out)
        total += vlib.validate_concat(chk, SPEC, "TraceRecoverable", tcfg, tr2, "replayed TLC behaviours (%s)" % mode)
        chk.notes["replay_" + mode] = s2
    # install path in fresh processes + real-parallel runs (mode-independent events)
    tcfg = cfg("trace_into_inner", "into_inner", "{1,2,3}", 99, spec="TraceSpec", post=True)
    tr3 = chk.path("install.ndjson")
    rc, out, s3 = vlib.harness("c20", ["install", "--runs", 20 if thorough else 5, "--out", tr3], env=env)
    if rc != 0 or not s3:
        chk.tool_error("c20 install failed", out)
    vlib.validate_concat(chk, SPEC, "TraceRecoverable", tcfg, tr3, "install path (fresh processes)")
    total += s3["runs"]
    tr4 = chk.path("free.ndjson")
    rc, out, s4 = vlib.harness("c20", ["free", "--runs", 2000 if thorough else 300, "--out", tr4], env=env, timeout=900)
    if rc != 0 or not s4:
        chk.tool_error("c20 free failed", out)
    vlib.validate_concat(chk, SPEC, "TraceRecoverable", tcfg, tr4, "real-parallel runs")
    total += s4["runs"]
    chk.cov["traces_validated_against_impl"] = total
    with open(chk.path("rec_into_inner.ndjson")) as f:
        chk.cov["samples"].append({"source": "recorded run", "events": [json.loads(next(f)) for _ in range(16)]})
    if chk.tier == "thorough":
        # beyond TLC's bounds: inductive invariant by Apalache (any sets of <= 8 processes) + TLAPS proof (any size); recorded, never decides
        vlib.run_unbounded(chk, "recoverable")
    chk.cov["rule"] = ("TLC: all interleavings of 3-4 emitters x 2-3 calls with into_inner / handle drop at the upgrade, call, release, "
                       "try_unwrap steps (+ termination under fairness); implementation: scheduled runs (distinct = distinct event "
                       "sequences), TLC schedules replayed, install path in fresh processes, real-parallel runs")


def replay(chk, path):
    vlib.cargo_build("c20")
    first = json.loads(open(path).readline())
    mode = "drop" if first.get("a", [0])[0] == 1 and first.get("ev") == "reset" else "into_inner"
    tcfg = cfg("trace_" + mode, mode, "{1,2,3}", 99, spec="TraceSpec", post=True)
    vlib.validate_concat(chk, SPEC, "TraceRecoverable", tcfg, path, "replay " + path)
