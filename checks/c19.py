"""C19: DebuggingRecorder / Snapshotter -- a snapshot lists exactly the registered metrics, in order of first
registration, with current counter / gauge values, histogram values since the previous snapshot (each value in
exactly one snapshot), latest unit / description per (kind, name); recorders installed locally on different
threads never show each other's metrics.
Spec: specs/DebugSnapshot/DebugSnapshot.tla (one action per public call; mechanism mirrors debugging.rs, the
property is stated against reference (ghost) state, and once more over the call history in SimDebugSnapshot)."""
import json, os, re
import vlib

SPEC = "DebugSnapshot"
INVS = "TypeOK ListsExactlyRegistered FirstRegistrationOrder ValuesCurrent HistogramSinceLast DrainedOnce MetadataLatest SnapshotExact"


def write_cfg(name, spec, consts, invs, extra=""):
    p = os.path.join(vlib.SPECS, SPEC, "gen_%s.cfg" % name)
    with open(p, "w") as f:
        f.write("SPECIFICATION %s\nCONSTANTS\n" % spec)
        for k, v in consts.items():
            if isinstance(v, str) and v.startswith("<-"):
                f.write(" %s %s\n" % (k, v))
            else:
                f.write(" %s = %s\n" % (k, v))
        f.write("INVARIANTS %s\nCHECK_DEADLOCK FALSE\n%s" % (invs, extra))
    return os.path.basename(p)


def consts(**kw):
    base = dict(Recs="{1}", Kinds='{"c","h"}', Names="{1,2}", LSets="{0,1}", Units="{1,2}", Descs="{1,2}",
                COps="<- MC_COps", GOps="<- MC_GOps", HOps="<- MC_HOps", W=4, MaxOps=5)
    base.update(kw)
    return base


def exempt_for(kinds):
    ex = set()
    if '"c"' not in kinds: ex.add("CounterAny")
    if '"g"' not in kinds: ex.add("GaugeAny")
    if '"h"' not in kinds: ex.add("RecordAny")
    return ex


_COV = re.compile(r"^<(\w+) line \d+, col \d+ to line \d+, col \d+ of module (\w+)(?: \([\d ]+\))?>: (\d+):(\d+)")
ACTIONS = ("DescribeAny", "RegisterAny", "CounterAny", "GaugeAny", "RecordAny", "SnapshotAny")


def action_coverage(r):
    """TLC prints the sub-actions of Next as `<Name line .. of module M (l c l c)>: distinct:generated`; add them
    to the parsed coverage so that expect_mc_ok's vacuity check sees every action (an action that never produced a
    transition fails the check)."""
    cov = {a: 0 for a in ACTIONS}
    for line in r["out"].splitlines():
        m = _COV.match(line)
        if m and m.group(1) in cov:
            cov[m.group(1)] += int(m.group(4))
    r["coverage"].update(cov)


def programs_from(out):
    return vlib.replay_lines(out)


def run_harness_programs(chk, progs_path, trace_path, what, env):
    rc, out, summ = vlib.harness("c19", ["replay", "--in", progs_path, "--out", trace_path], env=env, timeout=1200)
    if rc != 0 or not summ:
        chk.tool_error("c19 replay failed (%s)" % what, out)
    if summ.get("mismatches", 0) or summ.get("panics", 0):
        # the real recorder returned a snapshot different from the one the specification computed
        lines = open(progs_path).read().splitlines()
        for m in summ.get("mismatch_at", [])[:3]:
            rp = chk.path("mismatch_prog_%d.ndjson" % chk.violations)
            open(rp, "w").write(lines[m["prog"]] + "\n")
            chk.violation("%s: snapshot differs from the specification's at op %d: expected %s actual %s"
                          % (what, m["op"], json.dumps(m["expected"]), json.dumps(m["actual"])), replay_src=rp)
        if not summ.get("mismatch_at"):
            chk.violation("%s: %d panics in the code under test" % (what, summ.get("panics", 0)),
                          payload={"summary": summ})
    return summ


def run(chk):
    thorough = chk.tier == "thorough"
    chk.assumptions += [
        "histories (describe/register/update/snapshot sequences) are issued in lock-step (one call at a time); concurrent "
        "use of one recorder is covered by SharedRegister.tla + real-parallel rounds for registration of an equal key "
        "and one update per handle, with the snapshot taken at quiescence; concurrent snapshots of one histogram "
        "(with and without a concurrent writer) by SnapshotDrain.tla + the `drains` stage",
        "concurrent describe_* calls: one call per thread per name, all released together (no real-time order between "
        "them is assumed, so any sequential order is accepted); interleavings of the witness model are not replayable on the "
        "real code (describe_metric has no verification points), detection relies on many fresh names per run",
        "a record() that overlaps a snapshot in a real-parallel run may be lost by the inherited bucket deviation CF05a; "
        "without a total order it cannot be told apart from another loss, so such rounds assert no duplicates, nothing "
        "invented and the deviation's bound (one value per writer per snapshot) only; losses are asserted exactly in the "
        "rounds where no push overlaps a drain (A, B-gated)",
        "gauge and histogram values are integer valued f64 (exact arithmetic); counters use x*2^64/w so that "
        "wrap-around is arithmetic modulo w",
        "histogram values within one snapshot are compared as a bag (the property does not fix their order)",
        "keys: <= 3 labels with distinct label names (Key equality for duplicate label names is C03)",
    ]
    d = 1 if thorough else 0
    # ---- 1. exhaustive model checking: every history of <= MaxOps calls
    mcs = [("meta", consts(COps="<- MC_COps1", HOps="<- MC_HOps1", MaxOps=4 + 2 * d)),
           ("values_c", consts(Kinds='{"c","h"}', Units="{1}", Descs="{1}", MaxOps=5 + d)),
           ("values_g", consts(Kinds='{"g","h"}', Units="{1}", Descs="{1}", MaxOps=5 + d)),
           ("three_kinds", consts(Kinds='{"c","g","h"}', LSets="{0}", Units="{1}", COps="<- MC_COps1",
                                  GOps="<- MC_GOps1", HOps="<- MC_HOps1", MaxOps=4 + 2 * d)),
           ("one_name_deep", consts(Kinds='{"c","h"}', Names="{1}", Units="{1}", COps="<- MC_COps1",
                                    HOps="<- MC_HOps1", MaxOps=6 + 2 * d)),
           ("two_recorders", consts(Recs="{1,2}", Kinds='{"g","h"}', Names="{1}", Units="{1}", Descs="{1}",
                                    GOps="<- MC_GOps1", HOps="<- MC_HOps1", MaxOps=5 + 2 * d))]
    for name, c in mcs:
        cfg = write_cfg(name, "Spec", c, INVS)
        r = vlib.tlc_mc(SPEC, "MCDebugSnapshot", cfg, workers=8, timeout=3000 if thorough else 900, tag=name)
        action_coverage(r)
        if not chk.expect_mc_ok(r, "DebugSnapshot/" + name, vacuity_exempt=exempt_for(c["Kinds"])):
            return
        chk.log("TLC %s: %d distinct states, %d generated, depth %d, %.0fs" % (name, r["distinct"], r["generated"], r["depth"], r["wall"]))

    # ---- 1b. concurrent use of ONE recorder: lock-level protocol of register_* / get_or_create_* for 2-3 threads
    #          racing on an equal key (all interleavings), and the witness that the model rejects the variant
    #          without the second look-up under the write guard
    sr_inv = "SameStorage NoLostUpdate AllListed QuiescentExact"
    for name, threads in [("shared_2", "{1,2}"), ("shared_3", "{1,2,3}")] + ([("shared_4", "{1,2,3,4}")] if thorough else []):
        cfg = write_cfg(name, "Spec", dict(Threads=threads, Recheck="TRUE"), sr_inv)
        r = vlib.tlc_mc(SPEC, "SharedRegister", cfg, workers=8, timeout=3000, tag=name)
        if not chk.expect_mc_ok(r, "SharedRegister/" + name):
            return
        chk.log("TLC %s: %d distinct states, %d generated, depth %d, %.0fs" % (name, r["distinct"], r["generated"], r["depth"], r["wall"]))
    cfg = write_cfg("shared_norecheck", "Spec", dict(Threads="{1,2}", Recheck="FALSE"), sr_inv)
    r = vlib.tlc_mc(SPEC, "SharedRegister", cfg, workers=4, timeout=600, tag="shared_norecheck", coverage=False)
    if r["invariant"] is None:
        chk.tool_error("SharedRegister no longer rejects insert-without-recheck (witness lost)", r["out"][-2000:])
    chk.notes["insert_without_recheck_witness"] = "Recheck=FALSE violates %s at depth %d" % (r["invariant"], r["depth"])

    # ---- 1c. histogram drain under concurrency (SnapshotDrain.tla): writers record while several threads snapshot
    #          through clones of one Snapshotter; hand-over of the bucket's chain by one CAS as clear_with does
    sd_inv = "NoDuplicate NoInvention Conservation LateLostBound QuiescentExact"
    sc_exempt = {"SCopy", "SCDetach", "SCRead"}
    sds = [("drain_writers", dict(Writers="{1,2}", NVals=2 + d, Prefill=2, Snappers="{1,2}", NSnaps=2, CopyThenClear="FALSE"), sd_inv, sc_exempt),
           ("drain_quiet", dict(Writers="{}", NVals=0, Prefill=3, Snappers="{1,2,3}", NSnaps=2, CopyThenClear="FALSE"),
            sd_inv + " StrictConservation", sc_exempt | {"WLoad", "WStore"})]
    for name, c, inv, ex in sds:
        cfg = write_cfg(name, "Spec", c, inv)
        r = vlib.tlc_mc(SPEC, "SnapshotDrain", cfg, workers=8, timeout=3000, tag=name)
        if not chk.expect_mc_ok(r, "SnapshotDrain/" + name, vacuity_exempt=ex):
            return
        chk.log("TLC %s: %d distinct states, %d generated, depth %d, %.0fs" % (name, r["distinct"], r["generated"], r["depth"], r["wall"]))
    # witnesses: the inherited bucket deviation is reachable (strict conservation fails as coded), and the
    # copy-then-clear variant is rejected both ways (a value in two snapshots; a value lost without that deviation)
    wits = [("drain_wit_cf05a", dict(Writers="{1}", NVals=2, Prefill=1, Snappers="{1}", NSnaps=2, CopyThenClear="FALSE"), "StrictConservation"),
            ("drain_wit_ctc_dup", dict(Writers="{}", NVals=0, Prefill=2, Snappers="{1,2}", NSnaps=1, CopyThenClear="TRUE"), "NoDuplicate"),
            ("drain_wit_ctc_loss", dict(Writers="{1}", NVals=1, Prefill=1, Snappers="{1}", NSnaps=1, CopyThenClear="TRUE"), "Conservation")]
    for name, c, inv in wits:
        cfg = write_cfg(name, "Spec", c, inv)
        r = vlib.tlc_mc(SPEC, "SnapshotDrain", cfg, workers=2, timeout=600, tag=name, coverage=False)
        if r["invariant"] != inv:
            chk.tool_error("SnapshotDrain witness %s lost: expected %s violated, got %s" % (name, inv, r["invariant"]), r["out"][-2000:])
        chk.notes.setdefault("drain_witnesses", []).append("%s: %s violated at depth %d" % (name, inv, r["depth"]))

    # ---- 1d. concurrent describe_* calls for one (kind, name) (DescribeRace.tla): as coded (one hold of the metadata
    #          lock) the entry is linearizable in every state; the lookup / release / insert variant must be rejected
    dr_inv = "Linearizable UnitKept DescGiven"
    for sc in (1, 2, 3, 4):
        name = "describe_scen%d" % sc
        cfg = write_cfg(name, "Spec", dict(Scen=sc, TwoPhase="FALSE"), dr_inv)
        r = vlib.tlc_mc(SPEC, "DescribeRace", cfg, workers=4, timeout=900, tag=name)
        if not chk.expect_mc_ok(r, "DescribeRace/" + name, vacuity_exempt={"Lookup", "Insert"}):
            return
    chk.log("TLC DescribeRace: 4 scenarios as coded: linearizable in every state")
    for sc in (1, 2, 3):
        name = "describe_wit%d" % sc
        cfg = write_cfg(name, "Spec", dict(Scen=sc, TwoPhase="TRUE"), dr_inv)
        r = vlib.tlc_mc(SPEC, "DescribeRace", cfg, workers=2, timeout=600, tag=name, coverage=False)
        if r["invariant"] != "Linearizable":
            chk.tool_error("DescribeRace witness %s lost: lookup-then-insert no longer rejected (%s)" % (name, r["invariant"]), r["out"][-2000:])
        chk.notes.setdefault("describe_witnesses", []).append("scenario %d two-phase: Linearizable violated at depth %d" % (sc, r["depth"]))

    # ---- 2. harness against the repository's working tree
    ok, out, wall = vlib.cargo_build("c19")
    if not ok:
        chk.tool_error("harness build failed", out)
    chk.log("harness built in %.0fs" % wall)
    env = {"VERIF_SEED": str(chk.seed)}
    tcfg = "TraceDebugSnapshot.cfg"

    # ---- 3. impl -> spec: seeded random histories (1 or 2 recorders on their own threads) validated by TLC
    nrec = 3000 if thorough else 500
    tr = chk.path("record.ndjson")
    rc, out, summ = vlib.harness("c19", ["record", "--runs", nrec, "--out", tr], env=env)
    if rc != 0 or not summ:
        chk.tool_error("c19 record failed", out)
    n = vlib.validate_concat(chk, SPEC, "TraceDebugSnapshot", tcfg, tr, "recorded random histories", max_rounds=3, timeout=3000)
    chk.cov["traces_validated_against_impl"] += n
    chk.cov["distinct_nontrivial"] += summ.get("distinct_programs", 0)
    chk.notes["record"] = summ
    chk.log("recorded %d random histories (%d with two recorders), %d events, %d snapshots: validated"
            % (summ["runs"], summ["two_recorder_runs"], summ["events"], summ["snapshots"]))

    # ---- 4. spec -> impl: histories generated by TLC with every snapshot's expected content
    # 4a random long histories (-simulate), also trace-validated
    sims = [("sim_long", consts(Kinds='{"c","g","h"}', Names="{1,2}", LSets="{0,2}", Units="{1,2}", Descs="{1,2}",
                                COps="<- MC_COpsL", GOps="<- MC_GOpsL", HOps="<- MC_HOpsL", W=16, MaxOps=30,
                                Enumerate="FALSE"), 400 if thorough else 50),
            ("sim_wide", consts(Kinds='{"c","g","h"}', Names="{1,2,3}", LSets="{0,1,2,3,4}", Units="{1,2,3}",
                                Descs="{1,2,3}", W=4, MaxOps=16, Enumerate="FALSE"), 600 if thorough else 80),
            ("sim_two", consts(Recs="{1,2}", Kinds='{"c","g","h"}', Names="{1,2}", LSets="{1,2}", W=4, MaxOps=20,
                               Enumerate="FALSE"), 600 if thorough else 80)]
    progs = chk.path("programs_sim.ndjson")
    nsim = 0
    with open(progs, "w") as f:
        for name, c, num in sims:
            cfg = write_cfg(name, "SimSpec", c, "HistoryExact SnapshotExact Emit")
            r = vlib.tlc_mc(SPEC, "MCSimDebugSnapshot", cfg, workers=1, timeout=900, coverage=False, tag=name,
                            extra=["-simulate", "num=%d" % num, "-depth", "100", "-seed", str(chk.seed)])
            if r["invariant"]:
                p = chk.path("tlc_sim_%s.txt" % name)
                open(p, "w").write(r["out"][-200000:])
                chk.violation("TLC simulation %s: invariant %s violated on the specification" % (name, r["invariant"]), replay_src=p)
                return
            behs = programs_from(r["out"])
            if len(behs) < num // 2:
                chk.tool_error("too few histories generated by %s: %d" % (name, len(behs)), r["out"][-2000:])
            for b in behs:
                f.write(json.dumps(b) + "\n")
            nsim += len(behs)
            if len(chk.cov["samples"]) < 2:
                chk.cov["samples"].append({"source": "TLC history " + name, "first_calls": behs[0]["ops"][:6]})
    tr2 = chk.path("replay_sim.ndjson")
    s2 = run_harness_programs(chk, progs, tr2, "TLC-generated random histories", env)
    n2 = vlib.validate_concat(chk, SPEC, "TraceDebugSnapshot", tcfg, tr2, "replayed TLC histories", max_rounds=3, timeout=3000)
    chk.cov["traces_validated_against_impl"] += n2
    chk.notes["replay_sim"] = {k: v for k, v in s2.items() if k != "mismatch_at"}
    chk.log("replayed %d TLC random histories: %d snapshots compared, %d mismatches" % (nsim, s2["snapshots_compared_with_tlc"], s2["mismatches"]))

    # 4b every history of a small scope (breadth-first enumeration), each executed on the real recorder and
    #    every snapshot compared with the specification's
    enums = [("enum_c_h", consts(Kinds='{"c","h"}', Names="{1,2}", LSets="{0}", Units="{1}", Descs="{1}",
                                 COps="<- MC_COps1", HOps="<- MC_HOps1", MaxOps=4 + d, Enumerate="TRUE")),
             ("enum_meta", consts(Kinds='{"c"}', Names="{1}", LSets="{0,1}", Units="{1,2}", Descs="{1,2}",
                                  COps="<- MC_COps1", MaxOps=4 + d, Enumerate="TRUE")),
             ("enum_g_keys", consts(Kinds='{"g","h"}', Names="{1}", LSets="{1,2}", Units="{1}", Descs="{1}",
                                    GOps="<- MC_GOps1", HOps="<- MC_HOps1", MaxOps=4 + d, Enumerate="TRUE"))]
    progs3 = chk.path("programs_enum.ndjson")
    nen = 0
    with open(progs3, "w") as f:
        for name, c in enums:
            cfg = write_cfg(name, "SimSpec", c, "HistoryExact SnapshotExact Emit")
            r = vlib.tlc_mc(SPEC, "MCSimDebugSnapshot", cfg, workers=4, timeout=3000, coverage=False, tag=name)
            if r["invariant"] or not r["ok"]:
                p = chk.path("tlc_enum_%s.txt" % name)
                open(p, "w").write(r["out"][-200000:])
                if r["invariant"]:
                    chk.violation("TLC enumeration %s: invariant %s violated on the specification" % (name, r["invariant"]), replay_src=p)
                    return
                chk.tool_error("TLC enumeration %s failed: %s" % (name, r["error"]), r["out"][-3000:])
            behs = programs_from(r["out"])
            if not behs:
                chk.tool_error("no histories enumerated by " + name, r["out"][-2000:])
            for b in behs:
                f.write(json.dumps(b) + "\n")
            nen += len(behs)
            chk.notes.setdefault("enumerations", []).append({"what": name, "histories": len(behs), "states": r["distinct"]})
    tr3 = chk.path("replay_enum.ndjson")
    s3 = run_harness_programs(chk, progs3, tr3, "enumerated small histories", env)
    chk.notes["replay_enum"] = {k: v for k, v in s3.items() if k != "mismatch_at"}
    chk.log("executed all %d enumerated histories on the real recorder: %d snapshots compared, %d mismatches"
            % (nen, s3["snapshots_compared_with_tlc"], s3["mismatches"]))
    chk.cov["traces_validated_against_impl"] += nen          # every snapshot compared with TLC's expected content
    chk.cov["distinct_nontrivial"] += s2.get("distinct_programs", 0) + s3.get("distinct_programs", 0)
    chk.cov["evaluations"] += s2["snapshots_compared_with_tlc"] + s3["snapshots_compared_with_tlc"]

    # ---- 5. concurrent use of ONE recorder on the real code: real-parallel rounds (N threads register an equal key
    #         as counter, gauge, histogram at the same moment and update once; snapshot at quiescence), free-running
    #         and gated at the registry's read->write lock gap; every round's snapshot is checked by TLC against
    #         RoundSnapshot (counter = n, gauge = n, histogram = every tid once, order c, g, h)
    tr5 = chk.path("rounds.ndjson")
    nfree, ngated = (12000, 1000) if thorough else (2000, 200)
    rc, out, s5 = vlib.harness("c19", ["rounds", "--rounds", nfree, "--gated", ngated, "--threads", 8, "--out", tr5],
                               env=env, timeout=1200)
    if rc != 0 or not s5:
        chk.tool_error("c19 rounds failed", out)
    n5 = vlib.validate_concat(chk, SPEC, "TraceDebugSnapshot", tcfg, tr5, "parallel rounds on one recorder",
                              max_rounds=3, timeout=3000)
    chk.cov["traces_validated_against_impl"] += n5
    chk.notes["rounds"] = s5
    chk.log("parallel rounds: %d free (8 threads) + %d gated (4 threads): harness tally %d + %d bad, gate timeouts %d"
            % (s5["free_rounds"], s5["gated_rounds"], s5["bad_free_rounds"], s5["bad_gated_rounds"], s5["gate_timeouts"]))

    # ---- 6. concurrent snapshots of one histogram on the real recorder (clones of one Snapshotter, real threads):
    #         A  recording stopped, K threads snapshot at once (free / gated at clear_with's entry), then a final one;
    #         B-gated  writer and snapshotter in hand-shake at clear_with's entry (no push overlaps the drain);
    #         B-free  a writer records while another thread keeps snapshotting;  B-cf05a  directed witness of the
    #         inherited bucket finding.  TLC (DrainOK): never a value twice, none invented, strict rounds exactly once,
    #         otherwise missing values bounded by the deviation and reported as KNOWN only if CF05a is listed for C19.
    tr6 = chk.path("drains.ndjson")
    listed = "CF05a" in chk.listed
    sizes = dict(af=2500, ag=600, bg=600, bf=300, wit=50) if thorough else dict(af=500, ag=150, bg=150, bf=60, wit=20)
    rc, out, s6 = vlib.harness("c19", ["drains", "--a-free", sizes["af"], "--a-gated", sizes["ag"], "--b-gated", sizes["bg"],
                                       "--b-free", sizes["bf"], "--cf05a", sizes["wit"], "--listed", 1 if listed else 0,
                                       "--out", tr6], env=env, timeout=1200)
    if rc != 0 or not s6:
        chk.tool_error("c19 drains failed", out)
    n6 = vlib.validate_concat(chk, SPEC, "TraceDebugSnapshot", tcfg, tr6, "concurrent snapshots of one histogram",
                              known_map={"CF05a": "CF05a"}, max_rounds=3, timeout=3000)
    chk.cov["traces_validated_against_impl"] += n6
    chk.notes["drains"] = s6
    chk.notes["cf05a_listed_for_c19"] = listed
    chk.log("concurrent drains: A %d free + %d gated, B %d gated + %d free, witness %d: rounds with duplicates %d, missing in "
            "strict rounds %d, in B-free %d, in the CF05a witness %d (CF05a %s for C19)"
            % (s6["a_free"], s6["a_gated"], s6["b_gated"], s6["b_free"], s6["cf05a_witness_rounds"], s6["rounds_with_duplicates"],
               s6["missing_in_strict_rounds"], s6["missing_in_b_free"], s6["missing_in_cf05a_witness"],
               "listed" if listed else "not listed"))

    # ---- 7. concurrent describe_* calls on one real recorder: per fresh name 4 threads released together describe it
    #         once each (one / two / no unit carriers, same or different descriptions); quiescent snapshot; TLC (DescrOK)
    #         decides per name that the (unit, description) shown is the outcome of some sequential order of the calls
    tr7 = chk.path("describes.ndjson")
    nnames = 30000 if thorough else 6000
    rc, out, s7 = vlib.harness("c19", ["describes", "--names", nnames, "--threads", 4, "--out", tr7], env=env, timeout=1200)
    if rc != 0 or not s7:
        chk.tool_error("c19 describes failed", out)
    n7 = vlib.validate_concat(chk, SPEC, "TraceDebugSnapshot", tcfg, tr7, "concurrent describes of one name",
                              max_rounds=3, timeout=3000)
    chk.cov["traces_validated_against_impl"] += n7
    chk.notes["describes"] = s7
    chk.log("concurrent describes: %d names x %d threads: harness tally %d names with a wrong unit"
            % (s7["names"], s7["threads"], s7["names_with_wrong_unit"]))

    with open(tr) as f:
        head = [json.loads(next(f)) for _ in range(8)]
    chk.cov["samples"].append({"source": "recorded history (first events)", "events": head})
    chk.cov["rule"] = ("exhaustive TLC over every history of <= MaxOps describe/register/update/snapshot calls within the "
                       "listed constants; implementation runs = seeded random histories (distinct = distinct call "
                       "sequences, ignoring how keys were built) validated by TLC + TLC-generated histories (random long "
                       "and all histories of a small scope) executed on the real recorder with every snapshot compared "
                       "+ real-parallel rounds (free and gated at the registry lock gap) on one shared recorder, each "
                       "round's quiescent snapshot checked by TLC")


def replay(chk, path):
    """path: a programs file (lines with "ops") or a recorded run (trace lines): the calls are executed again on the
    real recorder, compared / validated."""
    ok, out, wall = vlib.cargo_build("c19")
    if not ok:
        chk.tool_error("harness build failed", out)
    lines = [l for l in open(path).read().splitlines() if l.strip()]
    first = json.loads(lines[0])
    progs = chk.path("replay_programs.ndjson")
    if any('"ev":"descr"' in l for l in lines):
        # the interleaving of a real-parallel describe race is not recorded (no hook points in describe_metric): run the stage again
        tr7 = chk.path("replay_describes.ndjson")
        rc, out, s7 = vlib.harness("c19", ["describes", "--names", 6000, "--threads", 4, "--out", tr7],
                                   env={"VERIF_SEED": str(chk.seed)}, timeout=1200)
        if rc != 0 or not s7:
            chk.tool_error("c19 describes failed", out)
        vlib.validate_concat(chk, SPEC, "TraceDebugSnapshot", "TraceDebugSnapshot.cfg", tr7, "replay: concurrent describes", max_rounds=3)
        return
    if any('"ev":"drain"' in l for l in lines):
        tr6 = chk.path("replay_drains.ndjson")
        rc, out, s6 = vlib.harness("c19", ["drains", "--listed", 1 if "CF05a" in chk.listed else 0, "--out", tr6],
                                   env={"VERIF_SEED": str(chk.seed)}, timeout=1200)
        if rc != 0 or not s6:
            chk.tool_error("c19 drains failed", out)
        vlib.validate_concat(chk, SPEC, "TraceDebugSnapshot", "TraceDebugSnapshot.cfg", tr6, "replay: concurrent drains",
                             known_map={"CF05a": "CF05a"}, max_rounds=3)
        return
    if any('"ev":"round"' in l for l in lines):
        # a failed parallel round: the schedule is not recorded (real parallel threads); run the stage again
        tr5 = chk.path("replay_rounds.ndjson")
        rc, out, s5 = vlib.harness("c19", ["rounds", "--rounds", 3000, "--gated", 300, "--threads", 8, "--out", tr5],
                                   env={"VERIF_SEED": str(chk.seed)}, timeout=1200)
        if rc != 0 or not s5:
            chk.tool_error("c19 rounds failed", out)
        vlib.validate_concat(chk, SPEC, "TraceDebugSnapshot", "TraceDebugSnapshot.cfg", tr5, "replay: parallel rounds", max_rounds=3)
        return
    if "ops" in first:
        open(progs, "w").write("\n".join(lines) + "\n")
    else:
        # a recorded trace: rebuild the programs (the recorded choices -- via, disp, who, h -- are kept; the
        # logged snapshot contents are dropped, the model decides)
        ps, cur = [], None
        for l in lines:
            e = json.loads(l)
            if e["ev"] == "reset":
                cur = {"recs": e["recs"], "w": e["w"], "ops": []}
                ps.append(cur)
            elif cur is not None and e["ev"] in ("describe", "register", "update", "snapshot"):
                e.pop("snap", None)
                cur["ops"].append(e)
            elif cur is not None and e["ev"] == "panic":
                cur["ops"].append(e["op"])
        open(progs, "w").write("\n".join(json.dumps(p) for p in ps) + "\n")
    tr = chk.path("replay_trace.ndjson")
    run_harness_programs(chk, progs, tr, "replay " + path, {"VERIF_SEED": str(chk.seed)})
    vlib.validate_concat(chk, SPEC, "TraceDebugSnapshot", "TraceDebugSnapshot.cfg", tr, "replay " + path)
