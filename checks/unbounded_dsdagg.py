"""Unbounded safety argument for the COUNTER part of specs/DsdAgg/DsdAgg.tla (C10) under increment-only
traffic: an inductive invariant, checked by Apalache for every constant assignment within a size bound and
proved by TLAPS without a size bound, on a typed copy that TLC binds to the original by refinement.

    specs/DsdAgg/DsdAggApa.tla        typed COPY of the counter part (DsdAgg.tla itself is not typable for
                                      Apalache: heterogeneous message tuples) + IndInv + Safety + ConstInit<n>
    specs/DsdAgg/DsdAggProof.tla      TLAPS proof of DsdAggApa!Spec => []Safety through the same IndInv
    specs/DsdAgg/MCDsdAggApaRef.tla   refinement: MCDsdAgg (original, GKeys = HKeys = {}, increment-only
                                      program) => DsdAggApa!Spec, checked by TLC

`unbounded(chk)` runs
    (r) TLC: every step of the original is a step of the copy (ProgInc; thorough: + ProgInc3, 4 flushes)
    (a) Init => IndInv              apalache-mc check --cinit=ConstInit<n> --init=Init   --inv=IndInv --length=0
    (b) IndInv /\\ Next => IndInv'   apalache-mc check --cinit=ConstInit<n> --init=IndInv --inv=IndInv --length=1
    (c) IndInv => Safety            apalache-mc check --cinit=ConstInit<n> --init=IndInv --inv=Safety --length=0
    (d) tlapm DsdAggProof.tla       (all proof obligations re-checked from scratch)
and RETURNS a dict; it never calls chk.violation / chk.tool_error and never exits.  An "Error" outcome of
(b) is a counterexample to inductiveness of IndInv (a state that need not be reachable), an "Error" of (r)
means the copy drifted from DsdAgg.tla: both are defects of these files, reported as data only.

Scope (stated in the evidence by `constants` / `scope`): counters only; the environment issues increment(v)
of any key with any v >= 0 at any time; absolute() is NOT covered (its laws rest on an assumption about the
caller, see checks/c10.py); IdleByDelta = TRUE (repaired code; with the pre-fix rule obligation (b) fails,
as it must: CF10a).  Safety = TypeOK, IncConservation, AbsConservation (vacuous here), NoOvershoot, ZeroOnce;
HistConservation is about the part not modelled.

n (bound on |Updaters| and |CKeys| for Apalache): 4 quick, 8 thorough (~10 s per obligation either way;
measured up to n = 12, see notes/unbounded.md); env VERIF_UNBOUNDED_N overrides.
"""
import os, sys

sys.path.insert(0, os.path.join(os.path.dirname(os.path.dirname(os.path.abspath(__file__))), "lib"))
import apalache

MODULE = "DsdAgg"
SPEC_DIR = "DsdAgg"
SIZES = (2, 3, 4, 6, 8, 12)    # the ConstInit<n> operators that exist in DsdAggApa.tla
SAFETY = "TypeOK IncConservation AbsConservation NoOvershoot ZeroOnce"
SCOPE = ("counter part only (AtomicCounter + State::flush for counters), increment-only traffic; absolute(), gauges, "
         "histograms not covered; the unbounded argument is about DsdAggApa.tla, bound to DsdAgg.tla by a TLC-checked refinement")


def constants(n):
    return {"Updaters": "any subset of 1..%d (ids are only compared: every set of that size up to renaming)" % n,
            "CKeys": "any subset of 1..%d" % n, "MaxFlushes": "any integer >= 0", "IdleByDelta": "TRUE",
            "increment values": "any integer >= 0"}


PROOF_CONSTANTS = {"Updaters": "any set (no size bound)", "CKeys": "any set (no size bound)",
                   "MaxFlushes": "any natural number", "IdleByDelta": "TRUE", "increment values": "any natural number"}


def _ref_cfg(name, prog, updaters, flushes):
    p = os.path.join(apalache.SPECS, SPEC_DIR, "gen_apa_ref_%s.cfg" % name)
    with open(p, "w") as f:
        f.write("SPECIFICATION MCSpec\nCONSTANTS\n Updaters = %s\n CKeys = {1,2}\n GKeys = {}\n HKeys = {}\n MaxFlushes = %d\n"
                " IdleByDelta = TRUE\n TsWhenAggressive = TRUE\n Mode = \"Aggressive\"\n Prog <- %s\n"
                " Vals <- [DsdAggApa] RefVals\nPROPERTIES CopySpec\nINVARIANTS CopySafety SameVerdicts\nCHECK_DEADLOCK FALSE\n"
                % (updaters, flushes, prog))
    return os.path.basename(p)


def refinement(thorough, timeout=1800):
    """TLC: MCDsdAgg (the original) refines DsdAggApa!Spec.  Returns obligation dicts."""
    obs = []
    try:
        import vlib
    except Exception as ex:                      # pragma: no cover
        return [{"name": "TLC refinement", "cmd": "", "outcome": "ToolError", "wall_s": 0.0, "tail": str(ex)}]
    runs = [("inc", "ProgInc", "{1,2}", 3)]
    if thorough:
        runs += [("inc3", "ProgInc3", "{1,2,3}", 3), ("inc4f", "ProgInc", "{1,2}", 4)]
    for name, prog, upd, fl in runs:
        cfg = _ref_cfg(name, prog, upd, fl)
        r = vlib.tlc_mc(SPEC_DIR, "MCDsdAggApaRef", cfg, workers=apalache.CORES, timeout=timeout, coverage=False,
                        tag="apa_ref_" + name)
        if r.get("error") == "timeout":
            outcome = "Timeout"
        elif r["ok"]:
            outcome = "NoError"
        elif r.get("invariant") or "is violated" in r["out"]:
            outcome = "Error"
        else:
            outcome = "ToolError"
        obs.append({"name": "TLC refinement: MCDsdAgg(%s, %d flushes) => DsdAggApa!Spec" % (prog, fl),
                    "cmd": "tlc -config %s MCDsdAggApaRef.tla" % cfg, "outcome": outcome, "wall_s": round(r["wall"], 1),
                    "states": r["distinct"], "transitions": r["generated"],
                    "tail": "" if outcome == "NoError" else r["out"][-2000:]})
    return obs


def unbounded(chk=None, n=None, timeout=1800, tlaps=True):
    tier = getattr(chk, "tier", "quick")
    if n is None:
        n = int(os.environ.get("VERIF_UNBOUNDED_N", "8" if tier == "thorough" else "4"))
    if n not in SIZES:
        n = max([k for k in SIZES if k <= n] or [SIZES[0]])
    out_dir = os.path.join(chk.work, "unbounded") if chk is not None and hasattr(chk, "work") else None
    ref = refinement(tier == "thorough", timeout=timeout)
    r = apalache.inductive(MODULE, SPEC_DIR, MODULE + "Apa.tla", cinit="ConstInit%d" % n, timeout=timeout,
                           constants=constants(n), tag="n%d" % n, out_dir=out_dir,
                           proof_file=(MODULE + "Proof.tla") if tlaps else None, proof_constants=PROOF_CONSTANTS)
    r["obligations"] = ref + r["obligations"]
    r["refinement_ok"] = all(o["outcome"] == "NoError" for o in ref)
    # the argument is about the copy: it carries over to DsdAgg.tla only together with the refinement check
    r["proved"] = r["proved"] and r["refinement_ok"]
    r["proved_unbounded"] = r["proved_unbounded"] and r["refinement_ok"]
    r["scope"] = SCOPE
    r["safety"] = SAFETY.split()
    # Safety of the Apa module is a subset of the invariant list checks/c10.py gives to TLC (data only)
    d = apalache.safety_drift("c10.py", "INV", "DsdAgg/DsdAggApa.tla")
    if d.get("tlc_invariants") is not None and d.get("apalache_safety") is not None:
        d["same"] = set(d["apalache_safety"]) == set(d["tlc_invariants"]) - {"HistConservation"}
        d["not_covered"] = ["HistConservation"]
    r["safety_vs_tlc"] = d
    if chk is not None and hasattr(chk, "log"):
        for o in r["obligations"]:
            chk.log("unbounded %s: %s -> %s (%.1f s)" % (MODULE, o["name"], o["outcome"], o["wall_s"]))
    return r


if __name__ == "__main__":
    import json
    res = unbounded(n=int(sys.argv[1]) if len(sys.argv) > 1 else None)
    for o in res["obligations"]:
        o.pop("tail", None)
    print(json.dumps(res, indent=1))
