"""C15: histogram buckets and summary windows mean what Prometheus says they mean.
Concurrent drains: specs/PromHist/PromDrain.tla (render / run_upkeep overlapping at the first drain of a series).
Spec: specs/PromHist/PromHist.tla (H: Histogram::record/record_many, M: Matcher order / DistributionBuilder, S: RollingSummary,
R: recorder drain + render), scopes and export: MCPromHist.tla, conformance: TracePromHist.tla,
driver: harness/src/bin/c15.rs (real Histogram, PrometheusBuilder/recorder, Distribution::Summary on a quanta mock clock)."""
import json, os
import vlib

SPEC = "PromHist"
CHUNK_LINES = 60000
INVS = ("TypeOK InvHistCounts InvHistMonotone InvHistTotal InvHistBatch InvHistTime InvChoiceLast InvChoiceAll InvRawMatch "
        "InvSummTotals InvSummStruct InvSummSnap InvRecDists InvRecChoice InvRecView InvRecTime")
KNOWN_MAP = {"CF15a": "CF15a"}
# code points: a . _ 9 b
A, DOT, US, NINE, B = 97, 46, 95, 57, 98

BASE = dict(BlockSize=2, DefaultN=3, DefaultD=2,
            NBoundVals=5, MaxBounds=3, NSampleVals=7, MaxSamples=3,
            PatAlpha=[A, DOT, NINE], MaxPat=2, NameAlpha=[A, DOT, US, NINE], MaxName=3, MaxMatchers=2,
            MaxN=3, MaxDur=2, MaxAdds=4, MaxDt=3, Back=0,
            MaxObs=2, MaxNow=2,
            XMaxSamples=3, XMaxMatchers=2, XSummLen=4, XRecLen=3)


def gen_cfg(name, spec, invs=INVS, **kw):
    c = dict(BASE)
    c.update(kw)
    p = os.path.join(vlib.SPECS, SPEC, "gen_%s.cfg" % name)
    with open(p, "w") as f:
        f.write("SPECIFICATION %s\nCONSTANTS\n" % spec)
        for k, v in c.items():
            if isinstance(v, list):
                v = "{" + ", ".join(str(x) for x in v) + "}"
            f.write(" %s = %s\n" % (k, v))
        f.write(" Names <- MCNames\n")
        if invs:
            f.write("INVARIANTS %s\n" % invs)
        f.write("CHECK_DEADLOCK FALSE\n")
    return os.path.basename(p)


def mc_scopes(thorough):
    """(name, specification, constants): one exhaustive run per part and scope."""
    s = [
        # all lists of <= 3 bounds from {-1, 0, 2, +Inf, NaN} (ascending or not) x all sequences of <= 3 samples from
        # {-1, 0, 1, 3, +Inf, -Inf, NaN} x all batchings (record / record_many of every split)
        ("hist3", "HistSpec", dict(NBoundVals=5, MaxBounds=3, NSampleVals=7, MaxSamples=3)),
        # <= 2 bounds from {-1, 0, 2, +Inf} x <= 4 samples
        ("hist4", "HistSpec", dict(NBoundVals=4, MaxBounds=2, NSampleVals=7, MaxSamples=4)),
        # every set of <= 2 overrides (Full/Prefix/Suffix x patterns <= 2 over {a . 9}) x global buckets or not,
        # the choice for all 85 names <= 3 over {a . _ 9}
        ("match2", "MatchSpec", dict(MaxMatchers=2)),
        # rolling summary: 1..3 buckets x duration 1..2, <= 5 adds with time steps 0..3, snapshots at every later instant
        ("summ", "SummSpec", dict(MaxAdds=5)),
        # the same with timestamps that may go back by up to 2 ticks (only the structural part of the property applies)
        ("summ_back", "SummSpec", dict(MaxAdds=4, Back=2)),
        # recorder: builder calls, observe / tick / upkeep / render of two names, blocks of 2 samples
        ("rec", "RecSpec", dict(MaxObs=2, MaxNow=1)),
    ]
    if thorough:
        s += [
            ("hist4_full", "HistSpec", dict(NBoundVals=6, MaxBounds=3, NSampleVals=8, MaxSamples=4)),
            ("hist5", "HistSpec", dict(NBoundVals=4, MaxBounds=2, NSampleVals=7, MaxSamples=5)),
            ("match3", "MatchSpec", dict(MaxMatchers=3)),
            ("match2_wide", "MatchSpec", dict(MaxMatchers=2, PatAlpha=[A, DOT, US, NINE], MaxPat=2)),
            ("summ_deep", "SummSpec", dict(MaxAdds=6, MaxDur=3, MaxDt=4)),
            ("summ_back_deep", "SummSpec", dict(MaxAdds=5, Back=3)),
            ("rec2", "RecSpec", dict(MaxObs=2, MaxNow=2)),
            ("rec_deep", "RecSpec", dict(MaxObs=3, MaxNow=2)),
        ]
    return s


def build(chk):
    ok, out, wall = vlib.cargo_build("c15")
    if not ok:
        chk.tool_error("harness build failed", out)
    chk.log("harness built in %.0fs" % wall)


def validate(chk, trace, what, timeout=3000):
    """validate a concatenated trace in chunks of whole runs"""
    runs = vlib.split_runs(trace)
    total_lines = sum(len(ls) for _, ls in runs)
    chunk, size, nchunks = [], 0, 0

    def flush():
        nonlocal chunk, size, nchunks
        if not chunk:
            return
        if chk.violations >= 4:
            chunk, size = [], 0
            return
        nchunks += 1
        cp = trace if (nchunks == 1 and size == total_lines) else "%s.part%d" % (trace, nchunks)
        if cp != trace:
            with open(cp, "w") as f:
                for ls in chunk:
                    f.writelines(ls)
        n = vlib.validate_concat(chk, SPEC, "TracePromHist", "TracePromHist.cfg", cp, what, KNOWN_MAP, max_rounds=3, timeout=timeout)
        chk.cov["traces_validated_against_impl"] += n
        if cp != trace:
            os.remove(cp)
        chunk, size = [], 0

    for _, ls in runs:
        if size + len(ls) > CHUNK_LINES and chunk:
            flush()
        chunk.append(ls)
        size += len(ls)
    flush()


def run_harness(chk, args, trace, what):
    env = {"VERIF_SEED": str(chk.seed)}
    rc, out, summ = vlib.harness("c15", args + ["--out", trace], env=env, timeout=1800)
    if rc != 0 or not summ:
        chk.tool_error("c15 %s failed (rc=%s)" % (args[0], rc), out)
    if summ.get("panics", 0):
        chk.log("%s: %d panics in the code under test (logged as events)" % (what, summ["panics"]))
    if summ.get("mismatches", 0):
        chk.log("%s: %d results differ from the ones the specification computed (logged as vecmismatch events)" % (what, summ["mismatches"]))
    chk.cov["distinct_nontrivial"] += summ.get("distinct_nontrivial", 0)
    chk.cov["evaluations"] += summ.get("compared", 0)
    return summ


def run(chk):
    thorough = chk.tier == "thorough"
    chk.assumptions += [
        "sample and bound values are eighths (exact in f64, sums order-independent) plus NaN/+Inf/-Inf with the IEEE tables for <= and +; "
        "u64/f64 overflow is not modelled",
        "metric names and matcher patterns are sequences of code points; String order = code point order (true for UTF-8)",
        "time is whole ticks of 1 ms on a quanta mock clock (all window edges are equalities between whole ticks)",
        "summary samples are finite with magnitudes 0 or 1/8..64 (Summary::add ignores infinities; the sketch does not collapse bins "
        "in that range); rendered quantiles are only required to lie within 1e-4 relative error of [min, max] of the window",
        "the window property is asserted for non-decreasing sample timestamps as the property states; timestamps going back "
        "(and the recorder's newest-block-first drain of > 64 pending samples) are modelled and conformance-checked, but only the "
        "structural part (young samples only, totals) is asserted for them",
        "recorder model: one label-free series per family, distinct registered names have distinct sanitised names; single-threaded calls "
        "except the parallel-drain stage (two threads, no recording during the drains, schedule not controlled: PromDrain.tla covers every "
        "interleaving of the per-series critical sections, the real runs sample them)",
    ]
    # 1. exhaustive model checking, one run per part and scope (two runs at a time, 4 workers each)
    scopes = [(name, spec, gen_cfg(name, spec, **kw)) for name, spec, kw in mc_scopes(thorough)]
    from concurrent.futures import ThreadPoolExecutor
    with ThreadPoolExecutor(max_workers=2) as ex:
        futs = [(name, ex.submit(vlib.tlc_mc, SPEC, "MCPromHist", cfg, 4, 6000 if thorough else 900, None, True, None, name))
                for name, spec, cfg in scopes]
        results = [(name, f.result()) for name, f in futs]
    for name, r in results:
        if not chk.expect_mc_ok(r, "PromHist/" + name):
            return
        chk.log("TLC %s: %d distinct states (%d generated), depth %d, %.0fs" % (name, r["distinct"], r["generated"], r["depth"], r["wall"]))
    # concurrent drains (PromDrain.tla): render + run_upkeep, render + render, then a quiescent render, all interleavings of
    # the per-series critical sections; the check-then-insert variant must be rejected (witness)
    for cfgname in ("MC_drain_ru", "MC_drain_rr"):
        r = vlib.tlc_mc(SPEC, "PromDrain", cfgname + ".cfg", workers=4, timeout=900, tag=cfgname)
        if not chk.expect_mc_ok(r, "PromDrain/" + cfgname, vacuity_exempt={"Check", "Insert"}):
            return
        chk.log("TLC %s: %d distinct states (%d generated), depth %d, %.0fs" % (cfgname, r["distinct"], r["generated"], r["depth"], r["wall"]))
    r = vlib.tlc_mc(SPEC, "PromDrain", "WIT_drain.cfg", workers=4, timeout=900, tag="wit_drain", coverage=False)
    if r["invariant"] not in ("InvConservation", "InvViewsMonotone", "InvViewsExact", "InvQuiescentExact"):
        chk.tool_error("witness run: CreateCheckThenInsert = TRUE must violate the drain invariants", r["out"][-3000:])
    chk.notes["witness_check_then_insert"] = "%s violated after %d states (CreateCheckThenInsert = TRUE)" % (r["invariant"], r["generated"])

    # the named deviation is a real violation of the strict property on the model of today's code (witness)
    cfg = gen_cfg("wit_cf15a", "MatchSpec", invs="InvRawMatchStrict", MaxMatchers=1)
    r = vlib.tlc_mc(SPEC, "MCPromHist", cfg, workers=4, timeout=600, tag="wit", coverage=False)
    if r["invariant"] != "InvRawMatchStrict":
        chk.tool_error("witness run: strict raw-match invariant expected to fail on the model of the current code (CF15a)", r["out"][-3000:])
    chk.notes["witness_cf15a"] = "InvRawMatchStrict violated after %d states (model of the current code)" % r["generated"]

    # 2. harness against /repo's working tree
    build(chk)

    # 3. spec -> impl: TLC exports every case of the conformance scopes with the result the specification computes
    xs = {k: chk.path("x_%s.ndjson" % k) for k in ("hist", "match", "summ", "rec")}
    xkw = dict(XMaxSamples=4, XMaxMatchers=2, XSummLen=5, XRecLen=4, MaxName=3) if thorough else \
          dict(XMaxSamples=3, XMaxMatchers=2, XSummLen=4, XRecLen=3, MaxName=2)
    cfg = gen_cfg("export", "ExportSpec", invs="", **xkw)
    env = {"X_" + k.upper(): p for k, p in xs.items()}
    r = vlib.tlc_mc(SPEC, "MCPromHist", cfg, workers=1, timeout=3000, tag="export", coverage=False, env=env)
    if r["error"] or not all(os.path.exists(p) for p in xs.values()):
        chk.tool_error("export of cases failed (%s)" % r["error"], r["out"][-3000:])
    counts = {k: sum(1 for _ in open(p)) for k, p in xs.items()}
    chk.log("TLC exported cases: %s (%.0fs)" % (counts, r["wall"]))
    chk.notes["export"] = counts
    # every case is executed and compared with the exported result by the harness; every K-th is logged and re-evaluated by TLC
    target = {"hist": 14000, "match": 10000, "summ": 8000, "rec": 60000}
    if thorough:
        target = {"hist": 60000, "match": 50000, "summ": 40000, "rec": 300000}
    per_case = {"hist": 48 if not thorough else 130, "match": 30 if not thorough else 95, "summ": 6, "rec": 11}
    for k in ("hist", "match", "summ", "rec"):
        every = max(1, (counts[k] * per_case[k]) // target[k])
        tr = chk.path("replay_%s.ndjson" % k)
        summ = run_harness(chk, ["replay", "--in", xs[k], "--log-every", every, "--log-offset", chk.seed], tr,
                           "TLC-exported %s cases" % k)
        chk.notes["replay_" + k] = summ
        chk.log("%s: %d cases executed, %d results compared with the specification's, %d mismatches; %d cases / %d events logged"
                % (k, summ["cases"], summ["compared"], summ["mismatches"], summ["logged_cases"], summ["lines"]))
        validate(chk, tr, "TLC-exported %s cases on the real code" % k)
        if k == "hist":
            with open(xs[k]) as f:
                lines = f.readlines()
            chk.cov["samples"].append({"source": "TLC-exported histogram case", "case": json.loads(lines[len(lines) // 2])})

    # 4. impl -> spec: seeded random cases of all four kinds (more bounds, longer sequences, random matcher sets and names,
    #    random time steps incl. steps back and bursts longer than one AtomicBucket block)
    nrec = 8000 if thorough else 1200
    tr = chk.path("record.ndjson")
    summ = run_harness(chk, ["record", "--runs", nrec], tr, "random cases")
    chk.notes["record"] = summ
    chk.log("random: %d cases, %d events" % (summ["cases"], summ["lines"]))
    validate(chk, tr, "random cases on the real code")
    with open(tr) as f:
        head = [json.loads(next(f)) for _ in range(14)]
    chk.cov["samples"].append({"source": "recorded run (fixed cases at the head of every record trace)", "events": head[6:14]})
    # 5. real-parallel drains of brand-new series: render() || run_upkeep() and render() || render(), then a quiescent render();
    #    every render must be exact and nothing may decrease (what PromDrain.tla proves for every schedule)
    par_stage(chk, 2000 if thorough else 300)
    chk.cov["rule"] = ("exhaustive TLC per part: every bound list x sample sequence x batching (H), every override set x name (M), every "
                       "add/snapshot history (S), recorder composition (R); conformance: every TLC-exported case executed on the real code and "
                       "compared with the specification's result by the harness (evaluations = results compared + trace states), a "
                       "seed-rotated subset plus all seeded random cases re-evaluated step by step by TLC (TracePromHist); "
                       "distinct_nontrivial = distinct cases with a non-default outcome counted by the harness (a bucket count strictly "
                       "between 0 and the total; a name not getting the default distribution; a snapshot holding some but not all samples; "
                       "a render with data)")


def par_stage(chk, iters):
    tr = chk.path("par.ndjson")
    summ = run_harness(chk, ["par", "--iters", iters, "--series", 24, "--samples", 8], tr, "parallel drains")
    chk.notes["par"] = summ
    chk.log("parallel drains: %d iterations x 24 new series, %d renders parsed" % (summ["cases"], summ["renders"]))
    validate(chk, tr, "concurrent render/upkeep at the first drain of new series")


def _cases_from_trace(path):
    """Rebuild executable cases from the events of a (failing) run."""
    cases, cur = [], None
    for line in open(path):
        e = json.loads(line)
        ev = e.get("ev")
        if ev == "reset":
            cur = {"kind": e["kind"], "calls": [], "global": [], "n": 0, "d": 0, "qs": [], "names": [], "ops": [], "bounds": []}
            cases.append(cur)
        elif cur is None:
            continue
        elif ev == "h_new":
            cur["bounds"] = e["bounds"]
        elif ev == "h_rec":
            cur["ops"].append({"o": "r", "s": e["s"]})
        elif ev == "h_many":
            cur["ops"].append({"o": "m", "batch": e["batch"]})
        elif ev == "pb_ovr":
            cur["calls"].append({"kind": e["kind"], "pat": e["pat"], "b": e["b"]})
        elif ev == "pb_global":
            cur["global"] = e["b"]
        elif ev == "pb_summ":
            cur["n"], cur["d"] = e["n"], e["d"]
        elif ev == "pb_qs":
            cur["qs"] = e["qs"]
        elif ev == "dist":
            cur["names"].append(e["name"])
        elif ev == "s_new":
            cur["n"], cur["d"] = e["n"], e["d"]
        elif ev == "s_add":
            cur["ops"].append({"o": "add", "xs": e["xs"]})
        elif ev == "s_snap":
            cur["ops"].append({"o": "snap", "t": e["t"]})
        elif ev == "tick":
            cur["ops"].append({"o": "tick", "d": e["d"]})
        elif ev == "obs":
            cur["ops"].append({"o": "obs", "name": e["name"], "v": e["v"]})
        elif ev in ("render", "upkeep"):
            cur["ops"].append({"o": ev})
        elif ev == "parse_error" and cur["kind"] == "rec":
            cur["ops"].append({"o": "render"})
        elif ev == "parse_error" and "name" in e:
            cur["names"].append(e["name"])
        elif ev == "vecmismatch" and e.get("kind") == "hist" and not cur["ops"]:
            cur["ops"] = e.get("ops", [])
        elif ev == "vecmismatch" and e.get("kind") == "match":
            pass
    return cases


def replay(chk, path):
    """Re-execute a stored failing run on the current tree and validate the fresh trace."""
    if not path.endswith(".ndjson"):
        return run(chk)          # a TLC counterexample of the exhaustive stage: re-run the check
    build(chk)
    cases = _cases_from_trace(path)
    if any(c["kind"] == "par" for c in cases):
        par_stage(chk, 600)      # the schedule of a real-parallel run cannot be replayed: run the stage again
        cases = [c for c in cases if c["kind"] != "par"]
        if not cases:
            return
    pf = chk.path("replay_cases.ndjson")
    with open(pf, "w") as f:
        for c in cases:
            f.write(json.dumps(c) + "\n")
    tr = chk.path("replay_again.ndjson")
    run_harness(chk, ["replay", "--in", pf], tr, "replay " + path)
    validate(chk, tr, "replay " + path)
