"""C17: metrics-tracing-context — span fields become labels, metric > inner span > outer span.
Spec: specs/TracingLabels/TracingLabels.tla (one action per public call: span!/record/enter/exit/emit).

1. TLC exhaustive (MCTracingLabels): every op sequence within small constants; in every state every possible
   emission is checked against the property (AllEmitsOK) — directly in the small configurations, through the
   decomposition PreMergeOK (state invariant) + EnhanceOK (ASSUME over all stored maps) in the larger ones.
2. spec -> impl: TLC-generated programs (SimTracingLabels: scripted exhaustive enumerations + random
   simulation) executed by harness c17 on the real MetricsLayer / TracingContextLayer, keys compared.
1b. TLC exhaustive (TracingLabelsConc): emission vs record() on one shared span at atomic-step granularity;
   the late-stamped per-thread cache witness must be rejected.
3. impl -> spec: seeded random programs (1..3 threads, all filters, all value types) recorded as ndjson and
   validated by TraceTracingLabels (property invariants evaluated on every delivered key)."""
import json, os
import vlib

SPEC = "TracingLabels"
INV_DIRECT = "AllEmitsOK ThreadIndep PreMergeOK StructOK"
INV_DECOMP = "PreMergeOK StructOK"


def _set(xs):
    return "{" + ",".join(str(x) for x in xs) + "}"


def mc_cfg(name, inv, **kw):
    base = dict(Threads=[1], MaxSpans=3, MaxDepth=2, MaxOps=5, Names=[1, 2], Vals=[1, 2], Metrics=[1, 2], AllOrders="FALSE")
    base.update(kw)
    p = os.path.join(vlib.SPECS, SPEC, "gen_mc_%s.cfg" % name)
    with open(p, "w") as f:
        f.write("SPECIFICATION MCSpec\nCONSTANTS\n")
        for k, v in base.items():
            f.write(" %s = %s\n" % (k, _set(v) if isinstance(v, list) else v))
        f.write("VIEW MCView\nINVARIANTS %s\nCHECK_DEADLOCK FALSE\n" % inv)
    return os.path.basename(p)


def sim_cfg(name, spec, inv, **kw):
    base = dict(Threads=[1], MaxSpans=6, MaxDepth=6, MaxOps=1000, Names=[1], Vals=[1, 2], Metrics=[1],
                ScriptId=1, FilterId=1, SimLen=0)
    base.update(kw)
    p = os.path.join(vlib.SPECS, SPEC, "gen_sim_%s.cfg" % name)
    with open(p, "w") as f:
        f.write("SPECIFICATION %s\nCONSTANTS\n" % spec)
        for k, v in base.items():
            f.write(" %s = %s\n" % (k, _set(v) if isinstance(v, list) else v))
        f.write("INVARIANTS %s\nCHECK_DEADLOCK FALSE\n" % inv)
    return os.path.basename(p)


def conc_cfg(name, **kw):
    p = os.path.join(vlib.SPECS, SPEC, "gen_%s.cfg" % name)
    with open(p, "w") as f:
        f.write("SPECIFICATION Spec\nCONSTANTS\n")
        for k, v in kw.items():
            f.write(" %s = %s\n" % (k, _set(v) if isinstance(v, list) else v))
        f.write("INVARIANTS TypeOK RecordVisible NoFuture\nCHECK_DEADLOCK FALSE\n")
    return os.path.basename(p)


def mc_configs(thorough):
    """(name, invariants, constants).  'direct' configurations check AllEmitsOK itself in every state."""
    cfgs = [
        ("direct_2names", INV_DIRECT, dict(MaxSpans=2, MaxOps=4, AllOrders="TRUE")),
        ("direct_2threads", INV_DIRECT, dict(Threads=[1, 2], Names=[1], Metrics=[1, 2], MaxSpans=3, MaxOps=5)),
        ("chain3", INV_DECOMP, dict(MaxSpans=3, MaxOps=5)),
        ("names3", INV_DECOMP, dict(Names=[1, 2, 3], MaxSpans=2, MaxOps=3, AllOrders="TRUE")),
    ]
    if thorough:
        cfgs += [
            ("direct_chain3", INV_DIRECT, dict(MaxSpans=3, MaxOps=5)),
            ("chain3_deep", INV_DECOMP, dict(MaxSpans=3, MaxDepth=3, MaxOps=6)),
            ("names3_chain3", INV_DECOMP, dict(Names=[1, 2, 3], MaxSpans=3, MaxOps=4)),
            ("threads2_2names", INV_DIRECT, dict(Threads=[1, 2], MaxSpans=2, MaxOps=5)),
        ]
    return cfgs


def run(chk):
    thorough = chk.tier == "thorough"
    chk.assumptions += [
        "tracing-subscriber's Registry is trusted for what the spec takes from it: per-thread span stack "
        "(duplicate entries, exit removes the last occurrence), parent = explicit / none / creating thread's current span",
        "spans stay open for the whole program (closing a span and span-id reuse are outside the model)",
        "a metric's own label names are distinct (precondition stated by the property)",
        "delivered labels are compared as a bag of (name, value); exact order only where the key must be untouched",
        "concurrent histories: one recorder thread per shared span (records totally ordered); emissions are checked "
        "against regular-register semantics only (returned-before-start must be visible, overlapping may be either)",
        "field values are identified by the label string they must turn into (Rust's own Display/Debug formatting)",
    ]
    # ---- 1. exhaustive model checking
    for name, inv, kw in mc_configs(thorough):
        cfg = mc_cfg(name, inv, **kw)
        r = vlib.tlc_mc(SPEC, "MCTracingLabels", cfg, workers=8, timeout=3000 if thorough else 420, tag=name)
        if not chk.expect_mc_ok(r, "TracingLabels/" + name):
            return
        chk.log("TLC %s: %d distinct states, %d generated, depth %d, %.0fs [%s]"
                % (name, r["distinct"], r["generated"], r["depth"], r["wall"], inv))

    # ---- 1b. two threads sharing one span (TracingLabelsConc): emission vs record at atomic-step granularity
    conc = [("conc_as_written", dict(Cache="FALSE", CacheStampedLate="FALSE"), {"EStore", "RBump"}),
            ("conc_cache_stamped_early", dict(Cache="TRUE", CacheStampedLate="FALSE"), set())]
    big = dict(Emitters=[1, 2], NEmits=3, NRecs=3) if thorough else dict(Emitters=[1, 2], NEmits=2, NRecs=2)
    for name, kw, exempt in conc:
        kw = dict(kw, **big)
        cfg = conc_cfg(name, **kw)
        r = vlib.tlc_mc(SPEC, "TracingLabelsConc", cfg, workers=4, timeout=900, tag=name)
        if not chk.expect_mc_ok(r, "TracingLabelsConc/" + name, vacuity_exempt=exempt):
            return
        chk.log("TLC %s: %d distinct states, depth %d, %.0fs" % (name, r["distinct"], r["depth"], r["wall"]))
    # witness: a per-thread cache stamped with the epoch read at STORE time must be rejected by the model
    cfg = conc_cfg("conc_wit_stamped_late", Cache="TRUE", CacheStampedLate="TRUE", Emitters=[1], NEmits=2, NRecs=1)
    r = vlib.tlc_mc(SPEC, "TracingLabelsConc", cfg, workers=4, timeout=600, tag="conc_wit", coverage=False)
    if r["invariant"] != "RecordVisible":
        chk.tool_error("model no longer rejects the late-stamped label cache (witness lost)", r["out"][-2000:])
    chk.notes["cache_stamped_late_witness"] = "CacheStampedLate=TRUE violates RecordVisible at depth %d" % r["depth"]

    # ---- 2. harness
    ok, out, wall = vlib.cargo_build("c17")
    if not ok:
        chk.tool_error("harness build failed", out)
    chk.log("harness built in %.0fs" % wall)
    env = {"VERIF_SEED": str(chk.seed)}
    tcfg = "TraceTracingLabels.cfg"

    # ---- 3. impl -> spec: random programs on the real layers, validated by TraceTracingLabels
    nrec = 6000 if thorough else 1200
    tr = chk.path("record.ndjson")
    rc, out, summ = vlib.harness("c17", ["record", "--runs", nrec, "--out", tr], env=env)
    if rc != 0 or not summ:
        chk.tool_error("c17 record failed", out)
    n = vlib.validate_concat(chk, SPEC, "TraceTracingLabels", tcfg, tr, "recorded random programs", timeout=1800)
    chk.cov["traces_validated_against_impl"] += n
    chk.cov["distinct_nontrivial"] += summ.get("distinct_emissions", 0)
    chk.notes["record"] = summ
    if summ.get("panics", 0):
        chk.log("panics in the code under test:", summ["panics"])
    chk.log("recorded %d random programs (%d emissions, %d with span labels), validated"
            % (summ["programs"], summ["emits"], summ["emits_enhanced"]))

    # ---- 3b. threads sharing one span: ticketed histories (deterministic linger scenarios + free-running rounds)
    tr3 = chk.path("conc.ndjson")
    cargs = ["conc", "--linger", 40 if thorough else 12, "--free", 24 if thorough else 6, "--rounds", 1000 if thorough else 500,
             "--out", tr3]
    rc, out, summ3 = vlib.harness("c17", cargs, env=env, timeout=900)
    if rc != 0 or not summ3:
        chk.tool_error("c17 conc failed", out)
    chk.notes["conc"] = summ3
    if summ3.get("hangs", 0):
        chk.tool_error("c17 conc: a scenario did not finish (barrier deadline)", out)
    n3 = vlib.validate_concat(chk, SPEC, "TraceTracingLabels", tcfg, tr3, "concurrent record/emit histories", timeout=1800)
    chk.cov["traces_validated_against_impl"] += n3
    chk.cov["distinct_nontrivial"] += summ3.get("emissions_overlapping_a_record", 0)
    chk.log("concurrent histories: %d (%d emissions, %d overlapping a record, %d after a record returned), validated"
            % (summ3["histories"], summ3["emissions"], summ3["emissions_overlapping_a_record"], summ3["emissions_after_record_returned"]))

    # ---- 4. spec -> impl: programs generated by TLC
    progs = chk.path("programs.ndjson")
    nb = 0
    gen = {}
    with open(progs, "w") as f:
        # scripted exhaustive enumerations (every parameter choice of a fixed op-kind sequence)
        scripts = [("script1_all", dict(ScriptId=1, FilterId=1)),
                   ("script2_all", dict(ScriptId=2, FilterId=1)),
                   ("script3_custom", dict(ScriptId=3, FilterId=6))]
        if thorough:
            scripts += [("script1_custom", dict(ScriptId=1, FilterId=5)), ("script1_allow_none", dict(ScriptId=1, FilterId=3)),
                        ("script2_custom", dict(ScriptId=2, FilterId=6)), ("script3_all", dict(ScriptId=3, FilterId=1)),
                        ("script3_2threads", dict(ScriptId=3, FilterId=1, Threads=[1, 2], Vals=[1]))]
        for name, kw in scripts:
            cfg = sim_cfg(name, "ScriptSpec", "PrintScript", **kw)
            r = vlib.tlc_mc(SPEC, "SimTracingLabels", cfg, workers=1, timeout=900, coverage=False, tag=name)
            behs = vlib.replay_lines(r["out"])
            if not behs or not r["ok"]:
                chk.tool_error("no programs generated by " + name, r["out"][-2000:])
            for b in behs:
                f.write(json.dumps(b) + "\n")
            nb += len(behs)
            gen[name] = len(behs)
        # random programs by simulation
        sims = [("random_2threads", dict(Threads=[1, 2], Names=[1, 2, 3], Metrics=[1, 2], MaxSpans=4, MaxDepth=3, FilterId=0, SimLen=14)),
                ("random_deep", dict(Threads=[1], Names=[1, 2, 3], Metrics=[1, 2], MaxSpans=5, MaxDepth=4, FilterId=0, SimLen=18))]
        for name, kw in sims:
            cfg = sim_cfg(name, "RandomSpec", "PrintRandom", **kw)
            num = 2000 if thorough else 400
            r = vlib.tlc_mc(SPEC, "SimTracingLabels", cfg, workers=1, timeout=900, coverage=False, tag=name,
                            extra=["-simulate", "num=%d" % num, "-depth", "40", "-seed", str(chk.seed)])
            behs = vlib.replay_lines(r["out"])
            if not behs:
                chk.tool_error("no programs generated by " + name, r["out"][-2000:])
            for b in behs:
                f.write(json.dumps(b) + "\n")
            nb += len(behs)
            gen[name] = len(behs)
            if len(chk.cov["samples"]) < 2:
                chk.cov["samples"].append({"source": "TLC program " + name, "program": behs[0]})
    chk.notes["tlc_programs"] = gen
    tr2 = chk.path("replay.ndjson")
    rc, out, summ2 = vlib.harness("c17", ["replay", "--in", progs, "--out", tr2], env=env)
    if rc != 0 or not summ2:
        chk.tool_error("c17 replay failed", out)
    chk.notes["replay"] = summ2
    if summ2.get("mismatch", 0):
        # the real code delivered a different key than TLC computed for the same program
        bad = chk.path("replay_mismatch.ndjson")
        with open(tr2) as f, open(bad, "w") as g:
            run_lines, hit = [], False
            for line in f:
                if '"ev":"reset"' in line:
                    if hit:
                        break
                    run_lines = []
                run_lines.append(line)
                if '"same":false' in line:
                    hit = True
            g.writelines(run_lines)
        chk.violation("replay of TLC programs: %d emission(s) delivered a key different from the specification's"
                      % summ2["mismatch"], replay_src=bad)
    n2 = vlib.validate_concat(chk, SPEC, "TraceTracingLabels", tcfg, tr2, "replayed TLC programs", timeout=1800)
    chk.cov["traces_validated_against_impl"] += n2
    chk.cov["distinct_nontrivial"] += summ2.get("distinct_emissions", 0)
    chk.log("replayed %d TLC programs (%d emissions), %d mismatches" % (summ2["programs"], summ2["emits"], summ2["mismatch"]))

    with open(tr) as f:
        head = []
        for line in f:
            head.append(json.loads(line))
            if len(head) >= 14:
                break
    chk.cov["samples"].append({"source": "recorded run (first events)", "events": head})
    chk.cov["rule"] = ("exhaustive TLC over all op sequences within the listed constants, every emission possible in every "
                       "state checked; implementation runs = seeded random programs + TLC-generated programs (scripted "
                       "exhaustive + simulation); distinct_nontrivial = distinct (filter, own labels, delivered key) triples "
                       "observed on the real code")


def replay(chk, path):
    """Re-execute the programs of a stored trace on the current code, then validate the new recording
    (a TLC counterexample text file is only reported)."""
    if not path.endswith(".ndjson"):
        chk.log("replay file is not an ndjson trace (TLC counterexample?): re-run the check instead")
        return
    ok, out, wall = vlib.cargo_build("c17")
    if not ok:
        chk.tool_error("harness build failed", out)
    if '"ev":"hist"' in open(path).read():
        # a concurrent history cannot be re-executed step by step: run the concurrent stage again on the current
        # code (the linger scenarios are deterministic for a seed) and let TLC decide on the new recording
        tr = chk.path("rerun_conc.ndjson")
        rc, out, summ = vlib.harness("c17", ["conc", "--linger", 24, "--free", 8, "--rounds", 500, "--out", tr],
                                     env={"VERIF_SEED": str(chk.seed)}, timeout=900)
        if rc != 0 or not summ:
            chk.tool_error("c17 conc failed", out)
        n = vlib.validate_concat(chk, SPEC, "TraceTracingLabels", "TraceTracingLabels.cfg", tr, "concurrent histories (re-run)")
        chk.cov["traces_validated_against_impl"] += n
        chk.notes["rerun_conc"] = summ
        return
    tr = chk.path("rerun.ndjson")
    rc, out, summ = vlib.harness("c17", ["rerun", "--in", path, "--out", tr], env={"VERIF_SEED": str(chk.seed)})
    if rc != 0 or not summ:
        chk.tool_error("c17 rerun failed", out)
    n = vlib.validate_concat(chk, SPEC, "TraceTracingLabels", "TraceTracingLabels.cfg", tr, "re-executed " + path)
    chk.cov["traces_validated_against_impl"] += n
    chk.notes["rerun"] = summ
