"""C11: TCP exporter streams whole frames to every connected client, whatever others do.
Spec: specs/TcpExporter/TcpExporter.tla (recorder gate + channel + the single-threaded transport loop, one action per
transport step incl. every write() call)."""
import json, os
import vlib

SPEC = "TcpExporter"
INV = "TypeOK NoStrandedMetric Framing NoDuplicateFrame MetadataFirstAndOrder CountConsistent QueueConservation NoTornFrame StartsUp"
TINV = "TypeOK CountConsistent NoTornFrame StartsUp"


def cfg(name, spec="Spec", inv=INV, post=False, **kw):
    base = dict(Clients="{2,3}", Limit=2, Unbounded="FALSE", NEmit=2, NMeta=1, FrameLen=2, SockCap=3,
                FixDoubleDec="TRUE", FixUnbounded="TRUE", FixWouldBlock="TRUE", CoalesceWake="FALSE")
    base.update(kw)
    p = os.path.join(vlib.SPECS, SPEC, "gen_%s.cfg" % name)
    with open(p, "w") as f:
        f.write("SPECIFICATION %s\nCONSTANTS\n" % spec)
        for k, v in base.items():
            f.write(" %s = %s\n" % (k, v))
        f.write("INVARIANTS %s\n" % inv)
        if post:
            f.write("POSTCONDITION TraceAccepted\n")
        f.write("CHECK_DEADLOCK FALSE\n")
    return os.path.basename(p)


def run(chk):
    thorough = chk.tier == "thorough"
    chk.assumptions += [
        "a socket is a byte pipe: write() takes min(remaining, free) bytes or reports WouldBlock; mio / the kernel are trusted",
        "what the recorder side did (gate read, try_send) is not observable: in trace validation an emission may or may not have "
        "reached the channel; FIFO order and the identity of every frame the transport received are checked",
        "delivery is asserted for reading clients under pacing (each batch <= the buffer is emitted after the readers caught up), "
        "with a 5 s deadline per batch",
        "wake-up stage: a quarter of the pairs use a controlled schedule (the transport is held at the hook after its receive loop until "
        "the second emission has been pushed), the rest run freely 0-80 us apart; every window of emission pairs is screened by the harness (10 s delivery deadline per pair); only the first "
        "window and windows that missed a deadline are written out and validated by TLC",
    ]
    mcs = [("two_clients", dict(NEmit=2)), ("unbounded", dict(Unbounded="TRUE", NEmit=2, Clients="{2}", NMeta=0)),
           ("one_client_3", dict(Clients="{2}", NEmit=3, Limit=1))]
    if thorough:
        mcs += [("two_clients_3", dict(NEmit=3)), ("limit1_two", dict(Limit=1, NEmit=3, NMeta=0))]
    for name, kw in mcs:
        r = vlib.tlc_mc(SPEC, "TcpExporter", cfg(name, **kw), workers=8, timeout=3600, tag=name)
        if not chk.expect_mc_ok(r, "TcpExporter/" + name, vacuity_exempt={"Emit", "EmitAny", "WakeAny", "RxMetricId", "RxEndAny", "DriveWriteO"}):
            return
        chk.log("TLC %s: %d distinct states, depth %d" % (name, r["distinct"], r["depth"]))
    # liveness: under fairness of the transport and of reading clients every queued frame is eventually written
    for name, clients in ([("live1", "{2}")] + ([("live2", "{2,3}")] if thorough else [])):
        c = cfg(name, spec="FairSpec", inv="TypeOK", Clients=clients, NEmit=2)
        pth = os.path.join(vlib.SPECS, SPEC, c)
        open(pth, "a").write("PROPERTIES Delivery ChannelDrains\n")
        r = vlib.tlc_mc(SPEC, "TcpExporter", c, workers=8, timeout=3600, coverage=False, tag=name)
        if not r["ok"]:
            p2 = chk.path("liveness.txt"); open(p2, "w").write(r["out"][-20000:])
            chk.violation("TLC: Delivery (liveness) fails on the model: %s" % r["error"], replay_src=p2)
            return
        chk.cov["states"] += r["distinct"]; chk.cov["transitions"] += r["generated"]
    r = vlib.tlc_mc(SPEC, "TcpExporter", "MC_live_wb.cfg", workers=8, timeout=900, coverage=False, tag="livewb")
    if r["ok"]:
        chk.tool_error("the liveness property is vacuous: the WouldBlock-dropping variant satisfies Delivery", r["out"][-2000:])
    # the model still separates the three repaired defects
    for nm, kw in (("wb", dict(FixWouldBlock="FALSE", NEmit=3)), ("dd", dict(FixDoubleDec="FALSE")),
                   ("unb", dict(FixUnbounded="FALSE", Unbounded="TRUE", Clients="{2}")),
                   ("coalesce", dict(CoalesceWake="TRUE", Clients="{2}", NEmit=2, NMeta=0))):
        r = vlib.tlc_mc(SPEC, "TcpExporter", cfg("old_" + nm, **kw), workers=8, timeout=900, coverage=False, tag="old" + nm)
        if r["invariant"] is None:
            chk.tool_error("model lost the witness " + nm, r["out"][-2000:])
        chk.notes["witness_" + nm] = "violates %s at depth %d" % (r["invariant"], r["depth"])

    ok, out, wall = vlib.cargo_build("c11")
    if not ok:
        chk.tool_error("harness build failed", out)
    env = {"VERIF_SEED": str(chk.seed)}
    total = 0
    runs = [("8", 40, 0), ("2", 40, 0), ("1", 20, 0), ("none", 20, 0), ("1024", 10, 0), ("8", 2, 1), ("1024", 2, 2)]
    if thorough:
        runs = [(b, n * (5 if f < 2 else 2), f) for b, n, f in runs] + [("3", 100, 0), ("64", 50, 0), ("none", 3, 1), ("none", 2, 2)]
    for buf, n, fat in runs:
        tr = chk.path("rec_%s_%d.ndjson" % (buf, fat))
        rc, out, s1 = vlib.harness("c11", ["record", "--buffer", buf, "--runs", n, "--fat", fat, "--out", tr], env=env, timeout=900)
        if rc != 0 or not s1:
            chk.tool_error("c11 record failed", out)
        kw = dict(Clients="{2,3,4,5,6,7}", NMeta=2, NEmit=max(10, s1["max_id"]))
        if buf == "none":
            kw.update(Unbounded="TRUE", Limit=8)
        else:
            kw.update(Limit=int(buf))
        tcfg = cfg("trace_%s" % buf, spec="TraceSpec", inv=TINV, post=True, **kw)
        total += vlib.validate_concat(chk, SPEC, "TraceTcpExporter", tcfg, tr,
                                      "exporter runs buffer=%s%s" % (buf, {0: "", 1: " (slow clients, 16 KiB frames)", 2: " (6 MiB frames, each emitted alone)"}[fat]), timeout=1800)
        chk.cov["distinct_nontrivial"] += s1["distinct"]
        chk.notes["record_%s_%d" % (buf, fat)] = s1
        if fat == 1 and s1.get("would_block_writes", 0) == 0:
            chk.log("note: the slow-client scenario did not reach WouldBlock in this run")
    # wake-up stress: many windows of closely spaced emission pairs, each screened by its own 10 s delivery deadline; the
    # first window and every window that missed the deadline are validated by TLC (a lost wake-up leaves the emission in
    # the model's channel at `final`)
    tr = chk.path("wake.ndjson")
    nwin, ntr = (150, 1000) if thorough else (12, 500)
    rc, out, s1 = vlib.harness("c11", ["wake", "--runs", nwin, "--trials", ntr, "--out", tr], env=env, timeout=1800)
    if rc != 0 or not s1:
        chk.tool_error("c11 wake failed", out)
    tcfg = cfg("trace_wake", spec="TraceSpec", inv=TINV, post=True, Clients="{2,3,4,5,6,7}", NMeta=2, NEmit=max(10, s1["max_id"]), Limit=1024)
    total += vlib.validate_concat(chk, SPEC, "TraceTcpExporter", tcfg, tr, "wake-up stress windows", timeout=1800)
    chk.notes["wake_stress"] = s1
    if s1.get("controlled_trials_held", 0) == 0:
        chk.tool_error("wake-up stage: the controlled schedule (emission while the transport is held after its receive loop) never happened", out)
    chk.cov["traces_validated_against_impl"] = total
    with open(chk.path("rec_8_0.ndjson")) as f:
        chk.cov["samples"].append({"source": "recorded exporter run", "events": [json.loads(next(f)) for _ in range(25)]})
    chk.cov["rule"] = ("TLC: all interleavings of emissions, connects, client reads/closes and transport steps (every write outcome) for "
                       "1-2 clients, 2-3 frames, limits 1-2 / unbounded; implementation: seeded scenarios (1-4 clients: readers, stallers, "
                       "closers; paced emission) per buffer configuration incl. None and a slow-client scenario that drives write() into "
                       "WouldBlock; every transport event and every client's decoded stream validated against the spec")


def replay(chk, path):
    vlib.cargo_build("c11")
    first = json.loads(open(path).readline())
    buf = first["a"][0]
    kw = dict(Clients="{2,3,4,5,6,7}", NMeta=2, NEmit=5000)
    if buf < 0:
        kw.update(Unbounded="TRUE", Limit=8)
    else:
        kw.update(Limit=buf)
    tcfg = cfg("trace_replay", spec="TraceSpec", inv=TINV, post=True, **kw)
    vlib.validate_concat(chk, SPEC, "TraceTcpExporter", tcfg, path, "replay " + path)
