"""C14: metrics::Cow (SharedString, Key labels) owns its memory correctly on every path.
Spec: specs/CowOwnership/CowOwnership.tla -- explicit heap (Vec buffers, ArcInner with strong count),
one action per public call, each doing to the heap what the `Cowable::*_parts` functions of cow.rs do.
Conformance: harness/src/bin/c14.rs runs TLC-generated and random programs on the real code under a
counting allocator and logs allocator calls, Arc strong counts, element clone/drop counters and the
content read back after every call; TraceCowOwnership.tla compares every one of them with the spec."""
import json, os, re, shutil
import vlib

SPEC = "CowOwnership"
INVS = "TypeOK NoUB WellFormed RefCountExact UniqueOwner ContentOK ElemBalance AllReleased BoundOK"


def _set(xs):
    return "{" + ",".join(str(x) for x in xs) + "}"


def mc_cfg(name, spec="Spec", inv=INVS, view="View", **kw):
    base = dict(NSlots=3, NOwned=1, MaxObj=8, MaxArcs=2, Lens=_set([0, 1]), Caps=_set([0, 1, 2]),
                Threads=_set([0]), AllowShared="TRUE", MaxOps=0, FmtCaps=_set([0]), Bug='"none"')
    base.update(kw)
    # written to the work directory under a per-process name: concurrent runs of this check (bin/mutcheck in
    # parallel, several seeds at once) must not overwrite each other's configuration files
    d = os.path.join(vlib.WORKROOT, "C14", "cfg")
    os.makedirs(d, exist_ok=True)
    p = os.path.join(d, "gen_%s_%d.cfg" % (name, os.getpid()))
    with open(p, "w") as f:
        f.write("SPECIFICATION %s\nCONSTANTS\n" % spec)
        for k, v in base.items():
            f.write(" %s = %s\n" % (k, v))
        f.write("INVARIANTS %s\n" % inv)
        if view:
            f.write("VIEW %s\n" % view)
        f.write("CHECK_DEADLOCK FALSE\n")
    return p


DOMS = {  # constants of the Sim spec per harness domain
    "slice": dict(AllowShared="TRUE", HasCmp="TRUE", FmtCaps=_set([0])),
    "str": dict(AllowShared="TRUE", HasCmp="TRUE", FmtCaps=_set([8])),
    "key": dict(AllowShared="FALSE", HasCmp="FALSE", FmtCaps=_set([0])),
}


def sim_cfg(name, dom, proglen, bfs, **kw):
    d = dict(NSlots=3 if bfs else 4, NOwned=2, MaxObj=14, MaxArcs=2 if bfs else 3,
             Lens=_set([0, 1, 2]) if bfs else _set([0, 1, 3]), Caps=_set([0, 1, 2, 4]) if bfs else _set([0, 1, 3, 5]),
             Threads=_set([0, 1]), NewThreads=_set([0, 1]) if bfs else _set([0]),
             ProgLen=proglen, SimDom='"%s"' % dom, AnySlot="FALSE" if bfs else "TRUE",
             PickKind="FALSE" if bfs else "TRUE")
    d.update(DOMS[dom])
    d.update(kw)
    return mc_cfg(name, spec="SimSpec", inv="Emit NoUB WellFormed", view=None, **d)


def build(chk):
    # the slice domain compiles the real cow.rs into the harness (metrics::Cow is not exported):
    # c14.rs does include!(concat!(env!("VERIF_REPO_DIR"), "/metrics/src/cow.rs"))
    os.environ["VERIF_REPO_DIR"] = vlib.REPO
    ok, out, wall = vlib.cargo_build("c14")
    if not ok:
        chk.tool_error("harness build failed", out)
    chk.log("harness built in %.0fs" % wall)


def chunks(chk, tr, max_lines=120000):
    """Split a concatenated trace at run boundaries into files of at most ~max_lines events (TLC reads a
    whole trace into memory)."""
    with open(tr) as f:
        total = sum(1 for _ in f)
    if total <= max_lines:
        return [tr]
    parts, cur, k = [], None, 0
    n = 0
    with open(tr) as f:
        for line in f:
            if cur is None or (n >= max_lines and '"ev":"reset"' in line):
                if cur:
                    cur.close()
                k += 1
                parts.append("%s.part%d" % (tr, k))
                cur = open(parts[-1], "w")
                n = 0
            cur.write(line)
            n += 1
    if cur:
        cur.close()
    return parts


def run_and_validate(chk, mode_args, what, env):
    tr = mode_args[mode_args.index("--out") + 1]
    rc, out, summ = vlib.harness("c14", mode_args, env=env, timeout=1800)
    if rc != 0 or not summ:
        chk.tool_error("c14 %s failed" % mode_args[0], out)
    if summ.get("crashes") or summ.get("hangs"):
        chk.log("%s: child processes ended abnormally: crashes=%s hangs=%s" % (what, summ.get("crashes"), summ.get("hangs")))
    n = 0
    for part in chunks(chk, tr):
        n += vlib.validate_concat(chk, SPEC, "TraceCowOwnership", "TraceCowOwnership.cfg", part, what, None, timeout=3000)
    chk.cov["traces_validated_against_impl"] += n
    chk.cov["distinct_nontrivial"] += summ.get("distinct_programs", 0)
    return summ


NEG_PROGRAMS = {
    "const_str_local": """
fn main() {
    let s = String::from("local string, dropped before use");
    let c: metrics::SharedString = metrics::SharedString::const_str(&s);
    drop(s);
    println!("{}", &*c);
}
""",
    "keyname_from_const_str_local": """
fn main() {
    let s = String::from("local name");
    let n = metrics::KeyName::from_const_str(&s);
    drop(s);
    println!("{}", n.as_str());
}
""",
    "label_from_static_parts_local": """
fn main() {
    let k = String::from("k");
    let v = String::from("v");
    let l = metrics::Label::from_static_parts(&k, &v);
    drop(k);
    drop(v);
    println!("{} {}", l.key(), l.value());
}
""",
    "key_from_static_name_local": """
fn main() {
    let s = String::from("local key name");
    let k = metrics::Key::from_static_name(&s);
    drop(s);
    println!("{}", k.name());
}
""",
}


def negative_compile(chk):
    """Programs in which a borrowed value outlives a local String: every one must be rejected by the borrow checker.
    Compiled with rustc against the `metrics` rlib the harness build just produced from the repo's working tree (path taken
    from cargo's own build messages). Returns (programs, rejected) or raises ToolError."""
    rc, out, _ = vlib.sh(["cargo", "build", "--offline", "--bin", "c14", "--message-format=json"], timeout=1200, cwd=vlib.HARNESS,
                         env={"CARGO_NET_OFFLINE": "true"})
    rlib = None
    for line in out.splitlines():
        if not line.startswith("{"):
            continue
        try:
            m = json.loads(line)
        except Exception:
            continue
        if m.get("reason") == "compiler-artifact" and m.get("target", {}).get("name") == "metrics" and "lib" in m["target"].get("kind", []):
            for f in m.get("filenames", []):
                if f.endswith(".rlib"):
                    rlib = f
    if rc != 0 or not rlib:
        raise vlib.ToolError("cannot locate the metrics rlib of the harness build: " + out[-800:])
    deps = os.path.dirname(rlib)
    d = chk.path("negc14")
    os.makedirs(d, exist_ok=True)

    def rustc(name, src):
        f = os.path.join(d, name + ".rs")
        open(f, "w").write(src)
        return vlib.sh(["rustc", "--edition", "2021", "--crate-type", "bin", "--cfg", "metrics_verif", "-L", "dependency=" + deps,
                        "--extern", "metrics=" + rlib, "-o", os.path.join(d, name + ".bin"), f], timeout=600, cwd=vlib.HARNESS)

    # the control must compile: the toolchain and the rlib fit together
    rc, out, _ = rustc("control", 'fn main() { let c = metrics::SharedString::const_str("static"); println!("{}", &*c); }\n')
    if rc != 0:
        raise vlib.ToolError("negative-compile control does not build: " + out[-1500:])
    rejected = 0
    for name, src in NEG_PROGRAMS.items():
        rc, out, _ = rustc(name, src)
        if rc != 0 and re.search(r"error\[E0(597|505|716|521)\]", out):
            rejected += 1
        elif rc != 0:
            raise vlib.ToolError("negative-compile program %s fails for another reason: %s" % (name, out[-1500:]))
        else:
            chk.log("negative-compile program %s was ACCEPTED by the compiler" % name)
    return len(NEG_PROGRAMS), rejected


def run(chk):
    thorough = chk.tier == "thorough"
    chk.assumptions += [
        "the specification decides the ownership protocol (which call allocates, frees, increments / decrements a strong count, "
        "clones / drops elements, and through which pointer content is read); a read of freed memory that happens to return the "
        "right bytes is outside it (freed blocks are poisoned and quarantined by the harness allocator to make that unlikely)",
        "std's Vec / String / Arc are trusted: exact-capacity to_vec()/to_owned(), String growth floor of 8 bytes for the "
        "Display-based copy made by into_owned of a shared str (toolchain 1.74), atomic strong-count updates",
        "metrics::Cow is not exported: Cow<[Tracked]> runs the real file metrics/src/cow.rs compiled into the harness as a module; "
        "SharedString and Key/Label run through the public API of the metrics crate",
        "std::borrow::Cow: From<metrics::Cow<T>> requires T: Sized and no Sized type implements Cowable: not instantiable, not exercised",
        "64-bit layout: ArcInner header = 2 words, 8-byte alignment (logged by the harness, used for byte counts)",
    ]
    # ---- 1. exhaustive model checking
    rich = dict(NOwned=2, Lens=_set([0, 1, 2]), Caps=_set([0, 1, 2, 4]))
    cfgs = [
        # every operation sequence of ANY length over 3 cows, 1 returned value, 2 Arcs
        ("unbounded_3cows", dict(Caps=_set([0, 2])), {"AMoveToThread"}),
        # two threads, two returned values, the string domain's fmt capacity floor; bounded length
        ("ops4_threads", dict(NOwned=2, Lens=_set([0, 2]), Caps=_set([0, 2, 3]), Threads=_set([0, 1]), MaxOps=4,
                              FmtCaps=_set([0, 8])), set()),
        # the Key / [Label] domain: no Arc-backed values
        ("noshared_unbounded", dict(AllowShared="FALSE"), {"AMoveToThread", "ANewShared", "AShareAgain", "ADropHolder"}),
    ]
    if thorough:
        cfgs += [
            ("unbounded_3cows_caps012", dict(), {"AMoveToThread"}),
            ("noshared_unbounded_rich", dict(AllowShared="FALSE", **rich), {"AMoveToThread", "ANewShared", "AShareAgain", "ADropHolder"}),
            ("ops5_rich", dict(Threads=_set([0, 1]), MaxOps=5, FmtCaps=_set([0, 8]), **rich), set()),
        ]
    if os.environ.get("C14_SKIP_MC"):   # builder's debugging knob (never set by bin/check or bin/mutcheck)
        cfgs = []
    for name, kw, exempt in cfgs:
        cfg = mc_cfg(name, **kw)
        r = vlib.tlc_mc(SPEC, SPEC, cfg, workers=8, timeout=5400 if thorough else 900, tag=name)
        if not chk.expect_mc_ok(r, "CowOwnership/" + name, vacuity_exempt=exempt):
            return
        chk.log("TLC %s: %d distinct states, %d generated, depth %d, %.0fs" % (name, r["distinct"], r["generated"], r["depth"], r["wall"]))
    # the invariants tell a broken algorithm from cow.rs's: three deliberately broken variants must be rejected
    for bug in ("io_drop", "cl_noinc", "drop_len0") if not os.environ.get("C14_SKIP_MC") else ():
        cfg = mc_cfg("bug_" + bug, Bug='"%s"' % bug)
        r = vlib.tlc_mc(SPEC, SPEC, cfg, workers=4, timeout=600, coverage=False, tag="bug_" + bug)
        if r["invariant"] is None:
            chk.tool_error("model does not reject the broken variant %s" % bug, r["out"][-2000:])
        chk.notes.setdefault("broken_variants_rejected", {})[bug] = "%s at depth %d" % (r["invariant"], r["depth"])

    # ---- 2. harness
    build(chk)
    env = {"VERIF_SEED": str(chk.seed)}

    # ---- 3. spec -> impl: TLC-generated programs executed on the real code, then trace-validated
    progs = chk.path("programs.ndjson")
    nprog = 0
    gen = {}
    with open(progs, "w") as f:
        for dom in ("slice", "str", "key"):
            # (a) EVERY program of length k (breadth-first)
            k = 3 if (thorough and dom == "slice") else 2
            name = "sim_all%d_%s" % (k, dom)
            cfg = sim_cfg(name, dom, k, True)
            r = vlib.tlc_mc(SPEC, "SimCowOwnership", cfg, workers=4, timeout=1800, coverage=False, tag=name)
            if r["invariant"] or r["rc"] == 124:
                chk.tool_error("program enumeration failed: " + name, r["out"][-2000:])
            behs = vlib.replay_lines(r["out"])
            if not behs:
                chk.tool_error("no programs generated by " + name, r["out"][-2000:])
            for b in behs:
                f.write(json.dumps(b) + "\n")
            gen[name] = len(behs)
            # (b) random longer programs (-simulate)
            name = "sim_rand_" + dom
            num = 1500 if thorough else 150
            cfg = sim_cfg(name, dom, 20, False)
            r = vlib.tlc_mc(SPEC, "SimCowOwnership", cfg, workers=1, timeout=1800, coverage=False, tag=name,
                            extra=["-simulate", "num=%d" % num, "-depth", "80", "-seed", str(chk.seed)])
            behs2 = vlib.replay_lines(r["out"])
            if len(behs2) < num // 2:
                chk.tool_error("too few simulated programs from " + name, r["out"][-2000:])
            for b in behs2:
                f.write(json.dumps(b) + "\n")
            gen[name] = len(behs2)
            if len(chk.cov["samples"]) < 3:
                chk.cov["samples"].append({"source": "TLC program " + name, "ops": [o["op"] for o in behs2[0]["ops"]]})
            nprog += len(behs) + len(behs2)
    chk.notes["tlc_programs"] = gen
    chk.log("TLC generated %d programs: %s" % (nprog, gen))
    tr = chk.path("replay.ndjson")
    summ = run_and_validate(chk, ["replay", "--in", progs, "--out", tr], "TLC-generated programs on the real code", env)
    chk.notes["replay"] = summ

    # ---- 4. impl -> spec: seeded random programs (all domains, any slot, longer, larger values) + real-parallel runs
    tr2 = chk.path("record.ndjson")
    summ2 = run_and_validate(chk, ["record", "--runs", 6000 if thorough else 450, "--par", 12 if thorough else 3, "--out", tr2],
                             "random programs on the real code", env)
    chk.notes["record"] = summ2
    try:
        with open(tr2) as f:
            head = [json.loads(next(f)) for _ in range(6)]
        chk.cov["samples"].append({"source": "recorded run (first events)", "events": head})
    except Exception:
        pass
    # the lifetime contract behind the model's Borrowed values (compile-time observation, judged by the trace spec)
    programs, rejected = negative_compile(chk)
    api = chk.path("api.ndjson")
    open(api, "w").write(json.dumps({"ev": "reset", "fcap": 0, "esz": 1, "hdr": 16, "al": 8, "cnt": 0, "hel": 0}) + "\n" + json.dumps({"ev": "api", "programs": programs, "rejected": rejected}) + "\n")
    chk.cov["traces_validated_against_impl"] += vlib.validate_concat(chk, SPEC, "TraceCowOwnership", "TraceCowOwnership.cfg", api, "borrowed values cannot outlive their referent (negative compile)", None, timeout=600)
    chk.notes["negative_compile"] = {"programs": programs, "rejected": rejected}
    chk.cov["rule"] = ("exhaustive TLC over every operation sequence (unbounded length for <= 3 cows / lengths {0,1}; bounded length "
                       "for richer constants); implementation runs = every TLC program of length 2 per domain (length 3 for the slice domain in thorough) + "
                       "TLC -simulate programs of 20 operations + seeded random programs of 8..28 operations + real-parallel runs; "
                       "distinct = distinct programs executed; evaluations = trace states in which all observables and invariants were checked")


def replay(chk, path):
    """path = an ndjson trace (a bad_run file reported earlier): validate it again; or a programs file
    (lines with "ops"): execute it on the current tree first."""
    build(chk)
    with open(path) as f:
        first = f.readline()
    if '"ops"' in first or '"mode"' in first:
        tr = chk.path("replay_again.ndjson")
        run_and_validate(chk, ["replay", "--in", path, "--out", tr], "replay " + path, {"VERIF_SEED": str(chk.seed)})
    else:
        vlib.validate_concat(chk, SPEC, "TraceCowOwnership", "TraceCowOwnership.cfg", path, "replay " + path, None)
