"""C01: metrics facade -- an emission reaches exactly the recorder in scope (innermost local recorder of the
thread, else global, else no-op), exactly once, with the payload the macro call site spelled; a recorder is never
visible to another thread; ending a scope (normally or by unwinding) restores the previous recorder; nothing is
dispatched to a recorder whose borrow has ended.
Spec: specs/LocalRecorder/LocalRecorder.tla (mirror of metrics/src/recorder/mod.rs + macros.rs),
MCLocalRecorder.tla + MC_*.cfg (exhaustive), TraceLocalRecorder.tla (impl -> spec), SimLocalRecorder.tla
(spec -> impl); driver harness/src/bin/c01.rs (recorder doubles that are never freed, real guards / closures /
mem::forget / panics / macro invocations, set_global_recorder in fresh child processes)."""
import json, os
import vlib

SPEC = "LocalRecorder"
KINV = ("TypeOK NoStaleDispatch NoDangling InnermostWins TlsInnermost ThreadIsolation ExactlyOnce PayloadFidelity "
        "FallThroughOrder SavedIsPrevious")
SINV = ("TypeOK NoStaleDispatchStrict NoDanglingStrict InnermostWinsStrict TlsInnermostStrict ThreadIsolation ExactlyOnce "
        "PayloadFidelity FallThroughOrder SavedIsPrevious NeverDev")
NFORMS = 117
KNOWN = {"CF01": "CF01"}


def _set(xs):
    return "{" + ",".join(str(x) for x in xs) + "}"


def mc_cfg(name, threads, recs, opsa, opsb, depth, forms, disc="any", forget=True, invs=KINV, props=True, catch=1):
    p = os.path.join(vlib.SPECS, SPEC, "gen_%s.cfg" % name)
    with open(p, "w") as f:
        f.write("SPECIFICATION Spec\nCONSTANTS\n Threads = %s\n Recs = %s\n OpsA = %d\n OpsB = %d\n MaxOps <- MC_Ops\n"
                " MaxDepth = %d\n MaxCatch = %d\n FormIds = %s\n Discipline = \"%s\"\n Forgetting = %s\nINVARIANTS %s\n%s"
                "CHECK_DEADLOCK FALSE\n" % (_set(threads), _set(recs), opsa, opsb, depth, catch, _set(forms), disc,
                                            "TRUE" if forget else "FALSE", invs,
                                            "PROPERTIES RestoreOnScopeEnd\n" if props else ""))
    return os.path.basename(p)


def sim_cfg(name, threads, recs, depth, forms, steps, enumerate_, glob, disc="any", forget=True, catch=1):
    p = os.path.join(vlib.SPECS, SPEC, "gen_%s.cfg" % name)
    with open(p, "w") as f:
        f.write("SPECIFICATION SimSpec\nCONSTANTS\n Threads = %s\n Recs = %s\n MaxOps <- SimOps\n MaxDepth = %d\n MaxCatch = %d\n"
                " FormIds = %s\n Discipline = \"%s\"\n Forgetting = %s\n Enumerate = %s\n Steps = %d\n WithGlobal = %s\n"
                "INVARIANTS PrintReplay %s\nCHECK_DEADLOCK FALSE\n"
                % (_set(threads), _set(recs), depth, catch, _set(forms), disc, "TRUE" if forget else "FALSE",
                   "TRUE" if enumerate_ else "FALSE", steps, "TRUE" if glob else "FALSE", KINV))
    return os.path.basename(p)


def witness(chk, name, cfg, inv):
    """The code-mirroring model WITHOUT the deviation escape must violate the strict property: the finding is
    still there (and the strict invariants are not vacuous)."""
    r = vlib.tlc_mc(SPEC, "MCLocalRecorder", cfg, workers=4, timeout=600, coverage=False, tag=name)
    if r["invariant"] != inv:
        chk.tool_error("witness %s: expected TLC to violate %s on the code-mirroring model, got invariant=%s error=%s"
                       % (name, inv, r["invariant"], r["error"]), r["out"][-3000:])
    acts = [l.split("<", 1)[1].split(" line")[0] for l in r["out"].splitlines() if l.startswith("State ") and "<" in l]
    chk.notes.setdefault("witnesses", []).append({"config": name, "violates": inv, "counterexample": acts, "states": r["distinct"]})
    chk.log("witness %s: strict %s violated by %s" % (name, inv, " -> ".join(acts[1:])))


def run_harness_replay(chk, progs_path, trace_path, what, env):
    rc, out, summ = vlib.harness("c01", ["replay", "--in", progs_path, "--out", trace_path], env=env, timeout=1200)
    if rc != 0 or not summ:
        chk.tool_error("c01 replay failed (%s)" % what, out)
    if summ.get("mismatches", 0) or summ.get("crashes", 0) or summ.get("bad_steps", 0):
        lines = open(progs_path).read().splitlines()
        for m in summ.get("mismatch_at", [])[:3]:
            rp = chk.path("mismatch_prog_%d.ndjson" % chk.violations)
            open(rp, "w").write(lines[m["prog"]] + "\n")
            chk.violation("%s: delivery differs from the specification's at step %s: expected %s actual %s"
                          % (what, m["step"], json.dumps(m["expected"]), json.dumps(m["actual"])), replay_src=rp)
        if not summ.get("mismatch_at"):
            chk.violation("%s: %d crashes / %d unexecutable steps in the harness run"
                          % (what, summ.get("crashes", 0), summ.get("bad_steps", 0)), payload={"summary": summ})
    return summ


def run(chk):
    thorough = chk.tier == "thorough"
    chk.assumptions += [
        "a recorder's borrow can end (the recorder can be freed) exactly when no guard created from it is alive -- "
        "dropped and mem::forget-ten guards do not keep it borrowed (what the borrow checker enforces)",
        "guards returned by set_default_local_recorder are owned by the thread's top-level scope (they survive "
        "closure returns and unwinding until the program drops or forgets them); guards of with_local_recorder end "
        "when the call returns or unwinds",
        "recorder doubles are never freed: the stale DISPATCH is observed, not the memory error it causes",
        "threads run in lock-step (total order) or, in free-running programs, on disjoint recorders (logged thread "
        "by thread); set_global_recorder racing is C02's subject",
    ]
    all_forms = list(range(1, NFORMS + 1))
    # ---- 1. exhaustive model checking
    # scoping is per thread; threads interact only through the borrow states and the global recorder, so the deep
    # configuration has one thread and the product configuration is smaller
    mcs = [("one_thread", "MC_one_thread.cfg", ()),
           ("two_threads", "MC_two_threads.cfg", ()),
           ("lifo", "MC_lifo.cfg", ("Forget",)),
           ("forms", mc_cfg("forms", [1], [1], 2, 0, 1, all_forms, invs=KINV + " AllFormsFaithful"), ())]
    if thorough:
        mcs += [("one_thread_deep", mc_cfg("one_thread_deep", [1], [1, 2, 3], 7, 0, 4, [1], catch=2), ()),
                ("two_threads_4", mc_cfg("two_threads_4", [1, 2], [1, 2], 4, 4, 2, [1]), ()),
                ("two_threads_d3", mc_cfg("two_threads_d3", [1, 2], [1, 2], 3, 3, 3, [1]), ()),
                ("two_threads_3recs", mc_cfg("two_threads_3recs", [1, 2], [1, 2, 3], 5, 2, 3, [1]), ()),
                ("three_threads", mc_cfg("three_threads", [1, 2, 3], [1, 2], 2, 2, 2, [1]), ("Panic",)),
                ("lifo_deep", mc_cfg("lifo_deep", [1], [1, 2, 3], 8, 0, 4, [1], disc="lifo", forget=False, invs=SINV, catch=2), ("Forget",))]
    for name, cfg, exempt in mcs:
        r = vlib.tlc_mc(SPEC, "MCLocalRecorder", cfg, workers=8, timeout=3000 if thorough else 900, tag=name)
        if not chk.expect_mc_ok(r, "LocalRecorder/" + name, vacuity_exempt=set(exempt)):
            return
        chk.log("TLC %s: %d distinct states, %d generated, depth %d, %.0fs" % (name, r["distinct"], r["generated"], r["depth"], r["wall"]))
    # the deviation is real on the model: without the escape the strict property fails
    witness(chk, "fifo", "MC_witness_fifo.cfg", "NoStaleDispatchStrict")
    witness(chk, "forget", "MC_witness_forget.cfg", "NoStaleDispatchStrict")
    witness(chk, "innermost", "MC_witness_innermost.cfg", "InnermostWinsStrict")

    # ---- 2. harness against the repository's working tree
    ok, out, wall = vlib.cargo_build("c01")
    if not ok:
        chk.tool_error("harness build failed", out)
    chk.log("harness built in %.0fs" % wall)
    env = {"VERIF_SEED": str(chk.seed)}
    tcfg = "TraceLocalRecorder.cfg"
    rc, out, fs = vlib.harness("c01", ["forms"], env=env)
    if rc != 0 or not fs or fs.get("forms") != NFORMS:
        chk.tool_error("harness form table has %s rows, the specification %d" % (fs and fs.get("forms"), NFORMS), out)

    # ---- 3. impl -> spec: fixed scenarios (every macro form under every kind of receiver, canonical histories)
    #         + seeded random programs; set_global_recorder programs in fresh child processes
    nrec = 3000 if thorough else 600
    tr = chk.path("record.ndjson")
    rc, out, summ = vlib.harness("c01", ["record", "--runs", nrec, "--children", 200 if thorough else 48, "--out", tr], env=env, timeout=1800)
    if rc != 0 or not summ:
        chk.tool_error("c01 record failed", out)
    if summ.get("bad_steps", 0):
        chk.tool_error("c01 record: the generator produced %d unexecutable steps" % summ["bad_steps"], out)
    if summ.get("forms_exercised") != NFORMS:
        chk.tool_error("c01 record: only %s of %d macro forms exercised" % (summ.get("forms_exercised"), NFORMS), out)
    n = vlib.validate_concat(chk, SPEC, "TraceLocalRecorder", tcfg, tr, "recorded programs", known_map=KNOWN, max_rounds=4, timeout=3000)
    chk.cov["traces_validated_against_impl"] += n
    chk.cov["distinct_nontrivial"] += summ.get("distinct_nontrivial", 0)
    chk.notes["record"] = summ
    chk.log("recorded %d programs (%d in child processes), %d events, %d emissions, %d deliveries (%d to a recorder whose "
            "borrow had ended), %d panics: validated" % (summ["runs"], summ["child_runs"], summ["events"], summ["emits"],
                                                        summ["deliveries"], summ["stale_deliveries_observed"], summ["panics"]))

    # ---- 4. spec -> impl: programs generated by TLC with the delivery the specification computes for every emission
    d = 1 if thorough else 0
    gens = [  # (name, cfg, extra TLC args, minimum number of programs)
        ("enum_1t", sim_cfg("enum_1t", [1], [1, 2], 3, [1, 5, 100, 20, 62], 4 + d, True, False), None, 1000),
        ("enum_2t", sim_cfg("enum_2t", [1, 2], [1, 2], 2, [4, 103, 50], 3, True, False), None, 500),
        ("enum_global", sim_cfg("enum_global", [1], [1, 2], 2, [9, 110], 3, True, True), None, 100),
        ("sim_rand", sim_cfg("sim_rand", [1, 2, 3], [1, 2, 3, 4], 4, all_forms, 40, False, False, catch=2),
         ["-simulate", "num=%d" % (400 if thorough else 60), "-depth", "100", "-seed", str(chk.seed)], 100),
        ("sim_global", sim_cfg("sim_global", [1, 2], [1, 2, 3], 3, all_forms, 24, False, True),
         ["-simulate", "num=%d" % (60 if thorough else 16), "-depth", "100", "-seed", str(chk.seed)], 8),
    ]
    progs = chk.path("programs.ndjson")
    counts = {}
    seen = set()
    with open(progs, "w") as f:
        for name, cfg, extra, minimum in gens:
            r = vlib.tlc_mc(SPEC, "SimLocalRecorder", cfg, workers=1 if extra else 4, timeout=1800, coverage=False, tag=name, extra=extra)
            if r["invariant"]:
                p = chk.path("tlc_sim_%s.txt" % name)
                open(p, "w").write(r["out"][-200000:])
                chk.violation("TLC generation %s: invariant %s violated on the specification" % (name, r["invariant"]), replay_src=p)
                return
            behs = vlib.replay_lines(r["out"])
            if len(behs) < minimum:
                chk.tool_error("too few programs generated by %s: %d" % (name, len(behs)), r["out"][-3000:])
            # the global-recorder enumeration only needs the programs that do install one (children are slow)
            if name == "enum_global":
                behs = [b for b in behs if any(s["ev"] == "set_global" for s in b["steps"])]
            for b in behs:
                b["style"] = "tlc-" + name
                f.write(json.dumps(b) + "\n")
                seen.add(json.dumps([[s.get("ev"), s.get("t"), s.get("r"), s.get("kind"), s.get("p")] for s in b["steps"]]))
            counts[name] = len(behs)
            if len(chk.cov["samples"]) < 2 and behs:
                chk.cov["samples"].append({"source": "TLC program " + name, "steps": behs[len(behs) // 2]["steps"][:8]})
    tr2 = chk.path("replay.ndjson")
    s2 = run_harness_replay(chk, progs, tr2, "TLC-generated programs", env)
    n2 = vlib.validate_concat(chk, SPEC, "TraceLocalRecorder", tcfg, tr2, "replayed TLC programs", known_map=KNOWN, max_rounds=4, timeout=3000)
    chk.cov["traces_validated_against_impl"] += n2
    chk.cov["distinct_nontrivial"] += len(seen)
    chk.cov["evaluations"] += s2["deliveries_compared_with_tlc"]
    chk.notes["replay"] = {k: v for k, v in s2.items() if k != "mismatch_at"}
    chk.notes["tlc_programs"] = counts
    chk.log("executed %d TLC programs (%s) on the real crate: %d deliveries compared with TLC's, %d mismatches; trace validated"
            % (s2["runs"], counts, s2["deliveries_compared_with_tlc"], s2["mismatches"]))

    with open(tr) as f:
        lines = f.read().splitlines()
    start = next((i for i, l in enumerate(lines) if '"cf01-fifo"' in l), 0)
    chk.cov["samples"].append({"source": "recorded run (cf01-fifo scenario)", "events": [json.loads(l) for l in lines[start:start + 11]]})
    chk.cov["rule"] = ("TLC exhaustive over all interleavings of scope operations (install guard/closure, drop any guard, "
                       "forget, catch, close, panic, end of borrow, set global, emit) within the listed constants; "
                       "implementation runs = fixed scenarios + seeded random programs (distinct = distinct scope-operation "
                       "sequences ignoring the macro form) validated by TLC + TLC-generated programs (all programs of a small "
                       "scope and random long ones) executed on the real crate with every delivery compared")


def replay(chk, path):
    """path: a programs file (lines with "steps"), or a recorded run (trace lines starting with a reset event): the
    program is executed again on the real crate and the new trace validated."""
    ok, out, wall = vlib.cargo_build("c01")
    if not ok:
        chk.tool_error("harness build failed", out)
    lines = [l for l in open(path).read().splitlines() if l.strip().startswith("{")]
    if not lines:
        chk.tool_error("nothing to replay in " + path)
    first = json.loads(lines[0])
    progs = chk.path("replay_programs.ndjson")
    if "steps" in first:
        open(progs, "w").write("\n".join(lines) + "\n")
    else:
        ps, cur = [], None
        for l in lines:
            e = json.loads(l)
            if e["ev"] == "reset":
                cur = {"threads": e.get("threads", 3), "free": e.get("free", False), "style": e.get("style", "replay"), "steps": []}
                ps.append(cur)
            elif cur is not None and e["ev"] in ("install", "drop", "forget", "catch", "close", "panic", "emit", "end_borrow", "set_global"):
                s = {k: e[k] for k in ("ev", "t", "r", "kind", "p", "form") if k in e}
                if e["ev"] in ("end_borrow", "set_global") and not cur["free"]:
                    s["t"] = 0
                cur["steps"].append(s)
        open(progs, "w").write("\n".join(json.dumps(p) for p in ps) + "\n")
    tr = chk.path("replay_trace.ndjson")
    run_harness_replay(chk, progs, tr, "replay " + path, {"VERIF_SEED": str(chk.seed)})
    vlib.validate_concat(chk, SPEC, "TraceLocalRecorder", "TraceLocalRecorder.cfg", tr, "replay " + path, known_map=KNOWN)
