"""C06: metrics_util::registry::Registry keeps exactly one storage per metric kind and key.
Spec: specs/Registry/Registry.tla -- per kind a vector of shards (hash maps) looked up by `hash & mask` then `==`;
get_or_create_* as two critical sections around the unlocked gap; get / delete; visit / handles / retain / clear
walking the shards one lock at a time.
Binding: harness c06 (ProbeStorage numbers every storage it constructs; the id seen inside `op`, in returned handles
and in listings says which storage a call operated on) under the deterministic scheduler (yield points: start of a
call, `reg.gap.pre`), validated by TraceRegistry; TLC-generated behaviours (SimRegistry) replayed; real-parallel trials."""
import json, os, random, re
import vlib

SPEC = "Registry"
INVS = "TypeOK AtMostOne SameStorage NoSharing LookupComplete DeleteTruthful ListingExact RemovalExact"
TRACE_INVS = INVS


def write(name, text):
    p = os.path.join(vlib.SPECS, SPEC, "gen_%s.cfg" % name)
    with open(p, "w") as f:
        f.write(text)
    return os.path.basename(p)


def mc_cfg(name, threads, nkinds, classes, variants, nshards, maxops, keeps, ops, recheck="TRUE", skipbusy="FALSE",
           shardfns="MC_ShardFns", invs=INVS + " Placement", sym=True):
    return write(name, """SPECIFICATION Spec
CONSTANTS
 Threads = %s
 NKinds = %d
 Classes = %s
 Variants = %s
 NShards = %d
 ShardFns <- %s
 MaxOps = %d
 KeepSets <- %s
 OpKinds <- %s
 Recheck = %s
 ClearSkipsBusy = %s
INVARIANTS %s
VIEW MC_View
%sCHECK_DEADLOCK FALSE
""" % (threads, nkinds, classes, variants, nshards, shardfns, maxops, keeps, ops, recheck, skipbusy, invs,
       "SYMMETRY MC_Sym\n" if sym else ""))


def sim_cfg(name, threads, nkinds, classes, variants, nshards, maxops, keeps, ops, weighted, enum):
    return write(name, """SPECIFICATION SimSpec
CONSTANTS
 Threads = %s
 NKinds = %d
 Classes = %s
 Variants = %s
 NShards = %d
 ShardFns <- MC_ShardFns
 MaxOps = %d
 KeepSets <- %s
 OpKinds <- %s
 Recheck = TRUE
 ClearSkipsBusy = FALSE
 Weighted <- %s
 Enumerate = %s
INVARIANTS AtMostOne SameStorage NoSharing LookupComplete DeleteTruthful ListingExact RemovalExact Emit
CHECK_DEADLOCK FALSE
""" % (threads, nkinds, classes, variants, nshards, maxops, keeps, ops, weighted, enum))


def keymemo_cfg(name, witness, invs, threads="{1,2,3}", cloners="{2,3}", maxops=2):
    """Registry composed with the hash memo of one shared lazily hashed key (RegistryKeyMemo.tla)."""
    return write(name, """SPECIFICATION KSpec
CONSTANTS
 Threads = %s
 NKinds = 1
 Classes = {1}
 Variants = {0}
 NShards = 2
 ShardFns <- MC_ShardFnsLast
 MaxOps = %d
 KeepSets <- MC_NoSets
 OpKinds <- MC_NoOps
 Recheck = TRUE
 ClearSkipsBusy = FALSE
 CloneMayMemoiseZero = %s
 SharedClass = 1
 SharedKind = 0
 Users = {1}
 Cloners = %s
INVARIANTS %s
VIEW MC_KView
CHECK_DEADLOCK FALSE
""" % (threads, maxops, witness, cloners, invs))


def trace_cfg(nshards):
    return write("trace_%d" % nshards, """SPECIFICATION TraceSpec
CONSTANTS
 Threads = {1,2,3,4,5,6,7,8}
 NKinds = 3
 Classes = {1,2,3,4,5,6,7,8,9,10,11,12}
 Variants = {0,1,2,3,4,5,6,7}
 NShards = %d
 ShardFns <- MC_TraceShardFns
 MaxOps = 1000000
 KeepSets <- MC_NoSets
 OpKinds <- MC_NoOps
 Recheck = TRUE
 ClearSkipsBusy = FALSE
INVARIANTS %s
POSTCONDITION TraceAccepted
CHECK_DEADLOCK FALSE
""" % (nshards, TRACE_INVS))


def pinnings():
    """cpu lists for `taskset -c`: Registry::new derives the shard count from the available parallelism."""
    try:
        cpus = sorted(os.sched_getaffinity(0))
    except Exception:
        cpus = list(range(os.cpu_count() or 1))
    out = [("1cpu", ",".join(map(str, cpus[:1])))]
    if len(cpus) >= 2:
        out.append(("2cpu", ",".join(map(str, cpus[:2]))))
    if len(cpus) >= 4:
        out.append(("4cpu", ",".join(map(str, cpus[:4]))))
    out.append(("all", None))
    return out


def run_harness(chk, args, cpus, what, timeout=900):
    a = list(args) + (["--cpus", cpus] if cpus else [])
    rc, out, summ = vlib.harness("c06", a, env={"VERIF_SEED": str(chk.seed)}, timeout=timeout)
    if rc != 0 or not summ:
        chk.tool_error("c06 %s failed" % what, out)
    if not summ.get("keys_ok", False):
        # a construction path yields a key that is not == / does not hash like its canonical form: the classes of
        # the key alphabet are wrong (that is C03's matter first) -- nothing can be concluded
        chk.tool_error("c06 %s: key alphabet broken (keys_ok = false)" % what, out)
    return summ


def validate(chk, trace, summ, what):
    cfg = trace_cfg(summ["nshards"])
    return vlib.validate_concat(chk, SPEC, "MCTraceRegistry", cfg, trace, what, timeout=1800)


def negative_control(chk, name, cfg, expect, module="MCRegistry"):
    """The invariants must fail on the specification with the mechanism switched off (not vacuous)."""
    r = vlib.tlc_mc(SPEC, module, cfg, workers=2, timeout=600, coverage=False, tag=name)
    if r.get("error") == "timeout":
        chk.tool_error("TLC timeout: negative control " + name, r["out"])
    if r["invariant"] not in expect:
        chk.tool_error("negative control %s: expected a violation of %s, got invariant=%s error=%s"
                       % (name, expect, r["invariant"], r["error"]), r["out"][-3000:])
    chk.notes.setdefault("negative_controls", []).append({"what": name, "violated": r["invariant"], "states": r["distinct"]})
    chk.log("negative control %s: TLC finds %s violated (as it must)" % (name, r["invariant"]))


def sample(chk, behs, n, salt):
    """TLC's simulator prints one behaviour per AllDone successor: deduplicate, then take a seeded sample."""
    seen, uniq = set(), []
    for b in behs:
        k = json.dumps(b, sort_keys=True)
        if k not in seen:
            seen.add(k)
            uniq.append(b)
    rnd = random.Random(chk.seed * 1000 + salt)
    if len(uniq) > n:
        uniq = rnd.sample(uniq, n)
    return uniq


def run(chk):
    thorough = chk.tier == "thorough"
    chk.assumptions += [
        "std::sync::RwLock and hashbrown's HashMap are trusted: a shard's critical section is one atomic step, a hash map "
        "keeps one entry per key as long as Hash/Eq of the key are consistent (the harness measures on every call that "
        "the key hashes like the canonical key of its class)",
        "sequentially consistent interleavings of the critical sections; the only unlocked window inside one call is the "
        "read->write gap of get_or_create_* (hook point reg.gap.pre); visit/retain/clear are not interleaved shard by shard "
        "in scheduled runs (the code has no yield point there): TLC explores those interleavings with explicit shard locks, "
        "the held-lock runs park a callback inside one shard, the real-parallel trials sample the rest with "
        "schedule-independent checks",
        "the registry locates a key by the hash the key instance memoises: equal keys must memoise the same hash, also copies "
        "taken during the first hashing of a shared key (RegistryKeyMemo.tla checks that on the composition; every call of "
        "the harness logs whether its key instance hashes like the canonical key; Key's own memo protocol is C03)",
        "key alphabet: labels with pairwise distinct names (duplicate label names: C03 CF03); key equality itself is C03",
        "lock poisoning (a panicking `op` closure) is not modelled",
    ]
    # ---- 1. exhaustive model checking
    V2, C3 = "{0,1}", "{1,2,3}"
    mcs = [("all_2x2", mc_cfg("all_2x2", "{t1,t2}", 2, "{1,2}", V2, 2, 2, "MC_KeepSome", "MC_OpsAll"), {}),
           ("race_3x2", mc_cfg("race_3x2", "{t1,t2,t3}", 2, C3, V2, 1, 2, "MC_KeepSome", "MC_OpsRace"),
            {"DoGet", "DoVisit", "DoRetain", "DoClear", "ScanStep", "ScanRelease"})]
    if thorough:
        mcs += [("all_2x2_c3", mc_cfg("all_2x2_c3", "{t1,t2}", 2, C3, V2, 2, 2, "MC_KeepSome", "MC_OpsAll"), {}),
                ("scan_3x2", mc_cfg("scan_3x2", "{t1,t2,t3}", 1, "{1,2}", V2, 2, 2, "MC_KeepSome", "MC_OpsScan"), {"DoGet"}),
                ("all_2x3", mc_cfg("all_2x3", "{t1,t2}", 1, C3, V2, 2, 3, "MC_KeepSome", "MC_OpsAll"), {}),
                ("race_4x2", mc_cfg("race_4x2", "{t1,t2,t3,t4}", 1, "{1,2}", V2, 2, 2, "MC_KeepSome", "MC_OpsRace"),
                 {"DoGet", "DoVisit", "DoRetain", "DoClear", "ScanStep", "ScanRelease"}),
                ("shards_3", mc_cfg("shards_3", "{t1,t2}", 1, C3, V2, 3, 2, "MC_KeepAll", "MC_OpsAll"), {})]
    for name, cfg, exempt in mcs:
        r = vlib.tlc_mc(SPEC, "MCRegistry", cfg, workers=8, timeout=3000 if thorough else 900, tag=name)
        if not chk.expect_mc_ok(r, "Registry/" + name, vacuity_exempt=exempt):
            return
        chk.log("TLC %s: %d distinct states, %d generated, depth %d, %.0fs" % (name, r["distinct"], r["generated"], r["depth"], r["wall"]))
    negative_control(chk, "no_recheck", mc_cfg("neg_no_recheck", "{t1,t2}", 1, "{1,2}", V2, 1, 1, "MC_KeepSome", "MC_OpsGoc",
                                               recheck="FALSE"), {"SameStorage", "AtMostOne"})
    negative_control(chk, "hash_contract_broken", mc_cfg("neg_hash", "{t1,t2}", 1, "{1,2}", V2, 2, 1, "MC_KeepSome", "MC_OpsGoc",
                                                         shardfns="MC_ShardFnsBroken", invs=INVS), {"LookupComplete", "AtMostOne", "SameStorage"})
    # witness of the try_write variant of clear(): a shard whose lock is held (a visitor inside its callback) is skipped
    negative_control(chk, "clear_skips_busy_shard", mc_cfg("neg_clear_skips_busy", "{t1,t2}", 1, "{1,2}", V2, 2, 2, "MC_KeepSome",
                                                           "MC_OpsWitness", skipbusy="TRUE"), {"RemovalExact"})

    # the assumption the registry model rests on (equal keys memoise the same hash), checked on the composition with the
    # key's hash memo: users of a shared lazily hashed key + cloners taking copies at any moment of its first hashing
    kinv = "TypeOK AtMostOne SameStorage NoSharing LookupComplete DeleteTruthful MemoContract MemoOK"
    kcfgs = [("keymemo_1u2c", keymemo_cfg("keymemo_1u2c", "FALSE", kinv))]
    if thorough:
        kcfgs.append(("keymemo_1u3c", keymemo_cfg("keymemo_1u3c", "FALSE", kinv, threads="{1,2,3,4}", cloners="{2,3,4}", maxops=2)))
    for name, cfg in kcfgs:
        r = vlib.tlc_mc(SPEC, "MCRegistryKeyMemo", cfg, workers=4, timeout=1800, tag=name)
        if not chk.expect_mc_ok(r, "RegistryKeyMemo/" + name):
            return
        chk.log("TLC %s: %d distinct states, %d generated, depth %d" % (name, r["distinct"], r["generated"], r["depth"]))
    negative_control(chk, "clone_may_memoise_zero", keymemo_cfg("neg_clone_zero", "TRUE", "AtMostOne"), {"AtMostOne"},
                     module="MCRegistryKeyMemo")

    # ---- 2. harness against the repository's working tree
    ok, out, wall = vlib.cargo_build("c06")
    if not ok:
        chk.tool_error("harness build failed", out)
    chk.log("harness built in %.0fs" % wall)
    pins = pinnings()
    total = 0

    # ---- 3. impl -> spec: seeded random programs under the scheduler, at several shard counts
    nrec = 1500 if thorough else 130
    shard_counts = set()
    for pname, cpus in pins:
        if pname == "4cpu" and not thorough:
            continue
        tr = chk.path("record_%s.ndjson" % pname)
        s = run_harness(chk, ["record", "--runs", nrec, "--out", tr], cpus, "record " + pname)
        if s.get("not_done"):
            chk.log("note: %d scheduled runs did not finish (stuck/livelock events are rejected by the trace spec)" % s["not_done"])
        n = validate(chk, tr, s, "recorded scheduled runs (%d shards)" % s["nshards"])
        total += n
        shard_counts.add(s["nshards"])
        chk.cov["distinct_nontrivial"] += s["distinct"]
        chk.notes.setdefault("record", []).append({k: s[k] for k in ("nshards", "pinned", "runs", "distinct", "gap_steps",
                                                                      "runs_with_interleaved_gap", "flavours", "lines", "same_shard_groups",
                                                                      "same_shard_and_tag")})
        chk.log("recorded %d scheduled runs at %d shards (%d with another thread inside a gap), %d events: validated"
                % (s["runs"], s["nshards"], s["runs_with_interleaved_gap"], s["lines"]))
        if pname == "all":
            with open(tr) as f:
                chk.cov["samples"].append({"source": "recorded run (first events)", "events": [json.loads(next(f)) for _ in range(10)]})
    if len(shard_counts) < 2:
        chk.assumptions.append("taskset unavailable or a single cpu: only shard count(s) %s exercised" % sorted(shard_counts))

    # ---- 4. spec -> impl: behaviours generated by TLC, replayed under the scheduler, validated again
    VALL = "{0,1,2,3,4,5,6,7}"
    sims = [("sim_seq", sim_cfg("sim_seq", "{1}", 3, "{1,2,3,4}", VALL, 2, 14, "MC_KeepAll", "MC_OpsAll", "MC_WSeq", "FALSE"),
             40 if thorough else 8, 600 if thorough else 60, False),
            ("sim_race3", sim_cfg("sim_race3", "{1,2,3}", 2, "{1,2}", VALL, 2, 3, "MC_KeepAll", "MC_OpsAll", "MC_WRace", "FALSE"),
             200 if thorough else 40, 1500 if thorough else 150, False),
            ("sim_race2", sim_cfg("sim_race2", "{1,2}", 1, "{1,2,3}", VALL, 2, 5, "MC_KeepAll", "MC_OpsAll", "MC_WRace", "FALSE"),
             200 if thorough else 30, 1000 if thorough else 90, False)]
    enums = [("enum_race_2x2", sim_cfg("enum_race_2x2", "{1,2}", 1, "{1}", "{0}", 1, 2, "MC_KeepAll", "MC_OpsRace", "MC_WNone", "TRUE"))]
    if thorough:
        enums.append(("enum_race_3x1", sim_cfg("enum_race_3x1", "{1,2,3}", 1, "{1}", "{0,1}", 1, 1, "MC_KeepAll", "MC_OpsRace", "MC_WNone", "TRUE")))
        enums.append(("enum_two_keys", sim_cfg("enum_two_keys", "{1,2}", 1, "{1,2}", "{0}", 2, 2, "MC_KeepAll", "MC_OpsRace", "MC_WNone", "TRUE")))
    batches = []
    for i, (name, cfg, num, take, _) in enumerate(sims):
        r = vlib.tlc_mc(SPEC, "MCSimRegistry", cfg, workers=1, timeout=900, coverage=False, tag=name,
                        extra=["-simulate", "num=%d" % num, "-depth", "200", "-seed", str(chk.seed)])
        if r["invariant"]:
            p = chk.path("tlc_sim_%s.txt" % name)
            open(p, "w").write(r["out"][-200000:])
            chk.violation("TLC simulation %s: invariant %s violated on the specification" % (name, r["invariant"]), replay_src=p)
            return
        behs = sample(chk, vlib.replay_lines(r["out"]), take, i)
        if len(behs) < min(take, num) // 2:
            chk.tool_error("too few behaviours generated by %s: %d" % (name, len(behs)), r["out"][-2000:])
        batches.append((name, behs, False))
    for name, cfg in enums:
        r = vlib.tlc_mc(SPEC, "MCSimRegistry", cfg, workers=2, timeout=1800, coverage=False, tag=name)
        if r["invariant"] or not r["ok"]:
            p = chk.path("tlc_enum_%s.txt" % name)
            open(p, "w").write(r["out"][-200000:])
            if r["invariant"]:
                chk.violation("TLC enumeration %s: invariant %s violated on the specification" % (name, r["invariant"]), replay_src=p)
                return
            chk.tool_error("TLC enumeration %s failed: %s" % (name, r["error"]), r["out"][-3000:])
        behs = vlib.replay_lines(r["out"])
        if not behs:
            chk.tool_error("no behaviours enumerated by " + name, r["out"][-2000:])
        chk.notes.setdefault("enumerations", []).append({"what": name, "behaviours": len(behs), "states": r["distinct"]})
        batches.append((name, behs, True))
    if batches and batches[1][1]:
        chk.cov["samples"].append({"source": "TLC behaviour (sim_race3)", "schedule": batches[1][1][0]["sched"][:8]})
    # enumerated behaviours carry one abstract construction variant: the harness draws the concrete one (--randv);
    # the simulated ones name the construction path themselves. Each batch is replayed at two shard counts.
    for randv in (False, True):
        sel = [b for (_, bs, rv) in batches if rv == randv for b in bs]
        if not sel:
            continue
        progs = chk.path("programs_%s.ndjson" % ("enum" if randv else "sim"))
        with open(progs, "w") as f:
            for b in sel:
                f.write(json.dumps(b) + "\n")
        for pname, cpus in pins:
            if pname in ("1cpu", "4cpu") and not (thorough or randv):
                continue
            if pname in ("2cpu", "4cpu") and randv and not thorough:
                continue
            tr = chk.path("replay_%s_%s.ndjson" % ("enum" if randv else "sim", pname))
            s = run_harness(chk, ["replay", "--in", progs, "--out", tr] + (["--randv"] if randv else []), cpus, "replay " + pname)
            n = validate(chk, tr, s, "replayed TLC behaviours (%s, %d shards)" % ("enumerated" if randv else "simulated", s["nshards"]))
            total += n
            chk.cov["distinct_nontrivial"] += s["distinct"]
            chk.notes.setdefault("replay", []).append({"what": "enum" if randv else "sim", "nshards": s["nshards"], "runs": s["runs"],
                                                        "diverged": s["diverged"], "distinct": s["distinct"], "lines": s["lines"]})
            chk.log("replayed %d TLC behaviours (%s) at %d shards: %d diverged from the schedule, %d events validated"
                    % (s["runs"], "enumerated races" if randv else "simulated", s["nshards"], s["diverged"], s["lines"]))

    # ---- 5. held-lock runs: a visit_* callback / retain_* predicate parks inside a shard while another thread calls
    #         clear / retain / delete / get_or_create / get / listings; a call that needs the held lock must not have
    #         returned before the parked thread was let go (TLC decides: such a call is not enabled in the model)
    nheld = 400 if thorough else 48
    for pname, cpus in pins:
        if pname in ("2cpu", "4cpu") and not thorough:
            continue
        tr = chk.path("held_%s.ndjson" % pname)
        s = run_harness(chk, ["held", "--runs", nheld, "--out", tr], cpus, "held " + pname, timeout=1800)
        n = validate(chk, tr, s, "held-lock runs (%d shards)" % s["nshards"])
        total += n
        chk.cov["distinct_nontrivial"] += s["distinct"]
        chk.notes.setdefault("held", []).append({k: s.get(k) for k in ("nshards", "runs", "distinct", "lines", "hangs",
                                                                        "calls_returned_while_lock_held", "calls_returned_after_release")})
        chk.log("held-lock runs: %d at %d shards, %d calls returned while the lock was held, %d after the release: validated"
                % (s["runs"], s["nshards"], s["calls_returned_while_lock_held"], s["calls_returned_after_release"]))

    # ---- 6. clone runs: a shared lazily hashed key is hashed for the first time inside get_or_create while other threads
    #         clone it and use their copies (scheduled: yields inside Key::get_hash, a copy at every point; real-parallel:
    #         fresh keys placed across a cache-line boundary, 1 registrar + 3 cloners)
    nclone = 600 if thorough else 60
    for pname, cpus in pins:
        if pname in ("2cpu", "4cpu") and not thorough:
            continue
        tr = chk.path("clone_%s.ndjson" % pname)
        s = run_harness(chk, ["clone", "--runs", nclone, "--out", tr], cpus, "clone " + pname)
        n = validate(chk, tr, s, "clone runs (%d shards)" % s["nshards"])
        total += n
        chk.cov["distinct_nontrivial"] += s["distinct"]
        chk.notes.setdefault("clone", []).append({k: s.get(k) for k in ("nshards", "runs", "distinct", "lines", "not_done")})
        chk.log("clone runs: %d scheduled at %d shards, %d events: validated" % (s["runs"], s["nshards"], s["lines"]))
    tr = chk.path("clonefree.ndjson")
    s = run_harness(chk, ["clonefree", "--runs", 200 if thorough else 12, "--keys", 2048, "--out", tr], None, "clonefree", timeout=1800)
    validate(chk, tr, s, "real-parallel clone trials")
    total += s["runs"]
    chk.notes["clonefree"] = {k: s.get(k) for k in ("runs", "keys_per_run", "copies_checked", "registry_calls", "memo_layout", "nshards")}
    if not s.get("memo_layout"):
        chk.assumptions.append("the layout of Key's memo fields could not be determined: real-parallel clone trials ran with keys in an "
                               "ordinary Vec (far less sensitive to the order of the two loads of Key::clone)")
    chk.log("real-parallel clone trials: %d runs x %d fresh keys, %d registry calls, %d copies checked: validated"
            % (s["runs"], s["keys_per_run"], s["registry_calls"], s["copies_checked"]))

    # ---- 7. real-parallel trials (8 creators of one fresh key behind a barrier; mixed creators/deleters/retain/visits)
    nfree = 20000 if thorough else 1000
    for pname, cpus in pins:
        if pname in ("1cpu", "2cpu"):
            continue
        tr = chk.path("free_%s.ndjson" % pname)
        s = run_harness(chk, ["free", "--runs", nfree, "--out", tr], cpus, "free " + pname, timeout=1800)
        validate(chk, tr, s, "real-parallel trials (%d shards)" % s["nshards"])
        total += s["runs"]
        chk.notes.setdefault("free", []).append({k: s.get(k) for k in ("nshards", "runs", "constructions", "distinct",
                                                                        "trials_with_several_storages_seen", "trials_with_race_through_gap", "hang")})
        chk.log("real-parallel: %d trials at %d shards, %d storages constructed: validated" % (s["runs"], s["nshards"], s["constructions"]))
    chk.cov["traces_validated_against_impl"] = total
    chk.cov["rule"] = ("TLC: every interleaving of 2-4 threads x 2-3 public calls (get_or_create split at the read->write gap, "
                       "visit/retain/clear shard by shard) over 2 kinds x 3 key classes x 2 construction variants and every "
                       "assignment of classes to 1-3 shards; implementation: scheduler-driven runs at 1 / 2 / n shards "
                       "(distinct = distinct call + grant sequences, ignoring the construction path), TLC behaviours "
                       "(simulated sequential histories and races, every behaviour of the 2-thread x 2-call creator/deleter scope) "
                       "replayed, clone runs (copies of a shared lazily hashed key taken during its first hashing), held-lock runs (a callback parked inside a shard while another thread calls the registry), "
                       "real-parallel trials; evaluations = trace states in which TLC evaluated every invariant")


def trace_to_programs(lines):
    """A recorded scheduled run -> the program format of `c06 replay` (calls per thread + grant order)."""
    progs, cur = [], None
    for l in lines:
        e = json.loads(l)
        if e["ev"] == "reset":
            cur = {"nthreads": max(1, e["d"].get("nthreads", 1)), "nshards": e["d"]["nshards"], "shard": [], "sched": []}
            progs.append(cur)
        elif cur is not None and e["ev"] == "op.begin.pre":
            d = e["d"]
            cur["sched"].append({"t": e["p"], "st": "begin", "op": d["op"], "k": d["k"], "c": d["c"], "v": d["v"], "keep": d["keep"]})
        elif cur is not None and e["ev"] == "reg.gap.pre":
            cur["sched"].append({"t": e["p"], "st": "gap", "op": "goc", "k": 0, "c": 0, "v": 0, "keep": []})
    return [p for p in progs if p["sched"]]


def replay(chk, path):
    """path: a recorded scheduled run (ndjson trace): its calls and grant order are executed again on the real registry
    at the same shard count and the new run is validated. A real-parallel trial cannot be re-executed exactly: the stored
    observation is validated again. A TLC counterexample (.txt): the whole check is run again."""
    if path.endswith(".txt"):
        return run(chk)
    ok, out, wall = vlib.cargo_build("c06")
    if not ok:
        chk.tool_error("harness build failed", out)
    lines = [l for l in open(path).read().splitlines() if l.strip()]
    first = json.loads(lines[0])
    nshards = first.get("d", {}).get("nshards", 1)
    if any('"ev":"free"' in l or '"ev":"clonefree"' in l or '"ev":"hang"' in l for l in lines):
        vlib.validate_concat(chk, SPEC, "MCTraceRegistry", trace_cfg(nshards), path, "stored real-parallel trial " + path)
        return
    staged = "clone" if any('"ev":"op.clone.pre"' in l for l in lines) else "held" if any('"ev":"hold.enter"' in l for l in lines) else None
    if staged:
        # controlled schedules generated by the driver from the seed (not a call list): the whole stage is run again at
        # the same shard count
        cpus = None
        for pname, c in pinnings():
            if {"1cpu": 1, "2cpu": 2, "4cpu": 4}.get(pname) == nshards:
                cpus = c
        tr = chk.path("replay_%s.ndjson" % staged)
        s = run_harness(chk, [staged, "--runs", 60 if staged == "clone" else 48, "--out", tr], cpus, "replay of stage " + staged)
        validate(chk, tr, s, "re-executed %s stage (%s)" % (staged, path))
        return
    # a scheduled run: the stored lines say what the code did then; what counts is what it does now
    progs = chk.path("replay_programs.ndjson")
    with open(progs, "w") as f:
        for p in trace_to_programs(lines):
            f.write(json.dumps(p) + "\n")
    cpus = None
    for pname, c in pinnings():
        want = {"1cpu": 1, "2cpu": 2, "4cpu": 4}.get(pname)
        if want == nshards:
            cpus = c
    tr = chk.path("replay_trace.ndjson")
    s = run_harness(chk, ["replay", "--in", progs, "--out", tr], cpus, "replay of " + path)
    validate(chk, tr, s, "re-executed " + path)
