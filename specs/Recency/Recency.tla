------------------------------- MODULE Recency -------------------------------
(***************************************************************************)
(* metrics-util/src/registry/recency.rs (Generational, Recency) on top of  *)
(* metrics-util/src/registry/mod.rs (Registry), as used by                 *)
(* metrics-exporter-prometheus/src/recorder.rs (get_recent_metrics).       *)
(*                                                                         *)
(*   one action = one public call:                                         *)
(*     Register(s)   registry.get_or_create_<kind>(key, |_| ())            *)
(*     Update(s, d)  registry.get_or_create_<kind>(key, |h| h.<op>(..))    *)
(*                   every op goes through Generational::with_increment:   *)
(*                   the generation is bumped even if the value is not     *)
(*                   changed (d = 0)                                       *)
(*     Tick(d)       mock.increment(d)                                     *)
(*     Observe(s)    gen = handle.get_generation();                        *)
(*                   recency.should_store_<kind>(key, gen, registry)       *)
(*     Render        the sweep of get_recent_metrics: Observe of every     *)
(*                   registered series, counters, then gauges, then        *)
(*                   histograms                                            *)
(*                                                                         *)
(* A series s is a pair <<kind, key>>.  The registry has one map per kind; *)
(* the recency map of the code is keyed BY KEY ONLY (HashMap<K, (Generation*)
(* , Instant)>), so the series <<"c",k>> and <<"g",k>> share one entry.    *)
(*   KeyByKind = FALSE : as coded today (finding CF12, kept as the named   *)
(*                       deviation `interf`)                               *)
(*   KeyByKind = TRUE  : entry per (kind, key) (the proposed repair)       *)
(*                                                                         *)
(* Time is an integer number of ticks (harness: 1 tick = 1 ms on a         *)
(* quanta::Clock::mock()).  timeout = None (-1) means idle_timeout = None. *)
(***************************************************************************)
EXTENDS Integers, Sequences, FiniteSets, TLC, SequencesExt

CONSTANTS Kinds,      \* subset of {"c","g","h"}
          Keys,       \* small integers
          KeyByKind,  \* see above
          Masks,      \* set of masks (subsets of Kinds) Init chooses from
          Timeouts,   \* set of timeouts Init chooses from (-1 = None)
          MaxDelta,   \* counters/gauges are updated by 0..MaxDelta, histograms by exactly one sample
          MaxSteps,   \* bounds for exhaustive runs (guards of the actions; huge for trace validation):
          MaxNow,     \*   timeline length, clock value, generation of a series
          MaxGen

None == -1
Series == Kinds \X Keys
KindOrder == <<"c", "g", "h">>          \* sweep order of get_recent_metrics
Absent == [present |-> FALSE, gen |-> 0, val |-> 0]
NoEntry == [gen |-> None, last |-> None]
RKeys == IF KeyByKind THEN Series ELSE Keys
RK(s) == IF KeyByKind THEN s ELSE s[2]   \* the key under which the recency map files series s

VARIABLES
  now,       \* mock clock
  mask,      \* MetricKindMask as a set of kinds
  timeout,   \* idle_timeout in ticks or None
  reg,       \* registry: series -> [present, gen, val]   (Generational handle: gen = #updates, val = value)
  rec,       \* Recency.inner map: RKeys -> [gen, last] or NoEntry
  \* ---- history (never read by the code-mirroring part) ----
  firstObs,  \* series -> time of the earliest observation that saw the series at its current generation
             \*           (None: current generation not yet observed).  The property is stated over this.
  everObs,   \* series whose observation has consulted the recency map so far
  obs,       \* outcomes of the observations made by the last action (set of records)
  steps

vars == <<now, mask, timeout, reg, rec, firstObs, everObs, obs, steps>>

Covered(k) == timeout # None /\ k \in mask
Deltas(k) == IF k = "h" THEN {1} ELSE 0..MaxDelta
TickSet == LET T == IF timeout = None THEN 2 ELSE timeout IN {d \in {1, T - 1, T, T + 1} : d >= 1}

InitWith(m, t) ==
  /\ now = 0 /\ mask = m /\ timeout = t
  /\ reg = [s \in Series |-> Absent]
  /\ rec = [r \in RKeys |-> NoEntry]
  /\ firstObs = [s \in Series |-> None]
  /\ everObs = {} /\ obs = {} /\ steps = 0
Init == \E m \in Masks, t \in Timeouts : InitWith(m, t)

(***************************************************************************)
(* should_store, the part under the mutex, for an entry `e` of the map and *)
(* the generation `g` handed in:                                           *)
(*   no entry            -> insert (g, now), keep                          *)
(*   entry, other gen    -> entry := (g, now), keep                        *)
(*   entry, same gen     -> (now - last) > timeout && delete_op(..)        *)
(*                          (delete_op succeeds: the series is registered),*)
(*                          on deletion the entry is removed               *)
(***************************************************************************)
Decide(e, g) ==
  IF e = NoEntry THEN [del |-> FALSE, e |-> [gen |-> g, last |-> now]]
  ELSE IF e.gen = g
       THEN IF now - e.last > timeout THEN [del |-> TRUE, e |-> NoEntry]
                                      ELSE [del |-> FALSE, e |-> e]
       ELSE [del |-> FALSE, e |-> [gen |-> g, last |-> now]]

\* The property's own rule (independent of the map): drop iff covered and the current generation was
\* already seen by an observation made more than `timeout` ago.
ExpectDrop(fo, k) == Covered(k) /\ fo # None /\ now - fo > timeout

\* Only an entry of the generation handed in influences the decision ...
Eff(e, g) == IF e # NoEntry /\ e.gen = g THEN e ELSE NoEntry
\* ... and this is the one the series' own observations leave behind: (current generation, time of the
\* first observation of it), none while the current generation is unobserved.
OwnEntry(fo, g) == IF fo = None THEN NoEntry ELSE [gen |-> g, last |-> fo]
\* CF12: the entry consulted is not the series' own -- an observation of another kind with the same
\* key wrote (inserted / refreshed) or consumed (removed) the shared entry.
Interf(r, fo, s, g) == Covered(s[1]) /\ Eff(r[RK(s)], g) # OwnEntry(fo[s], g)

\* One observation as a function on the mutable part of the state.
ObserveSt(st, s) ==
  LET k == s[1]
      g == st.reg[s].gen
      d == Decide(st.rec[RK(s)], g)             \* what the code does
      drop == Covered(k) /\ d.del
      reg2 == IF drop THEN [st.reg EXCEPT ![s] = Absent] ELSE st.reg
      rec2 == IF Covered(k) THEN [st.rec EXCEPT ![RK(s)] = d.e] ELSE st.rec
      fo2 == IF drop THEN [st.fo EXCEPT ![s] = None]
             ELSE IF st.fo[s] = None THEN [st.fo EXCEPT ![s] = now] ELSE st.fo
      o == [s |-> s, keep |-> ~drop, exp |-> ~ExpectDrop(st.fo[s], k),
            interf |-> Interf(st.rec, st.fo, s, g),
            gone |-> (~reg2[s].present /\ rec2[RK(s)] = NoEntry)]
  IN [reg |-> reg2, rec |-> rec2, fo |-> fo2,
      ever |-> IF Covered(k) THEN st.ever \cup {s} ELSE st.ever,
      out |-> st.out \cup {o}]

Cur == [reg |-> reg, rec |-> rec, fo |-> firstObs, ever |-> everObs, out |-> {}]
Commit(st) == /\ reg' = st.reg /\ rec' = st.rec /\ firstObs' = st.fo
              /\ everObs' = st.ever /\ obs' = st.out
              /\ UNCHANGED <<now, mask, timeout>>

KindSeq == SelectSeq(KindOrder, LAMBDA k : k \in Kinds)
KeySeq == SetToSortSeq(Keys, <)
AllSeries == [i \in 1..(Len(KindSeq) * Len(KeySeq)) |->
                <<KindSeq[((i - 1) \div Len(KeySeq)) + 1], KeySeq[((i - 1) % Len(KeySeq)) + 1]>>]
\* The sweep of get_recent_metrics.  Within one kind the code iterates a HashMap (arbitrary order);
\* series of one kind have different keys, hence different entries: their order is immaterial.
RenderSt(st) == FoldLeft(LAMBDA acc, s : IF acc.reg[s].present THEN ObserveSt(acc, s) ELSE acc, st, AllSeries)

----------------------------------------------------------------------------
Register(s) ==              \* get_or_create with an operation that does not touch the handle
  /\ steps < MaxSteps
  /\ reg' = IF reg[s].present THEN reg ELSE [reg EXCEPT ![s] = [present |-> TRUE, gen |-> 0, val |-> 0]]
  /\ obs' = {} /\ steps' = steps + 1
  /\ UNCHANGED <<now, mask, timeout, rec, firstObs, everObs>>

Update(s, d) ==             \* get_or_create + one handle operation (with_increment)
  /\ steps < MaxSteps /\ reg[s].gen < MaxGen
  /\ reg' = [reg EXCEPT ![s] = [present |-> TRUE, gen |-> reg[s].gen + 1, val |-> reg[s].val + d]]
  /\ firstObs' = [firstObs EXCEPT ![s] = None]
  /\ obs' = {} /\ steps' = steps + 1
  /\ UNCHANGED <<now, mask, timeout, rec, everObs>>

Tick(d) ==
  /\ steps < MaxSteps /\ now + d <= MaxNow
  /\ now' = now + d
  /\ obs' = {} /\ steps' = steps + 1
  /\ UNCHANGED <<mask, timeout, reg, rec, firstObs, everObs>>

Observe(s) ==
  /\ steps < MaxSteps
  /\ reg[s].present
  /\ Commit(ObserveSt(Cur, s))
  /\ steps' = steps + 1

Render ==
  /\ steps < MaxSteps
  /\ Commit(RenderSt(Cur))
  /\ steps' = steps + 1

NewRegister(s) == ~reg[s].present /\ Register(s)   \* (on a registered series Register is a no-op)
SomeTick == \E d \in TickSet : Tick(d)
Next ==
  \/ \E s \in Series : NewRegister(s)
  \/ \E s \in Series : \E d \in Deltas(s[1]) : Update(s, d)
  \/ SomeTick
  \/ \E s \in Series : Observe(s)
  \/ Render

Spec == Init /\ [][Next]_vars

----------------------------------------------------------------------------
(* The property.                                                           *)
TypeOK ==
  /\ now \in Nat /\ mask \subseteq Kinds /\ timeout \in Nat \cup {None}
  /\ \A s \in Series : reg[s].present \in BOOLEAN /\ reg[s].gen \in Nat /\ reg[s].val \in Nat
  /\ \A r \in RKeys : rec[r] = NoEntry \/ (rec[r].gen \in Nat /\ rec[r].last \in 0..now)
  /\ \A s \in Series : firstObs[s] \in {None} \cup 0..now

\* Observe says drop iff covered and unchanged since an observation made more than `timeout` ago
\* -- unless another kind with the same key wrote or consumed the shared entry (CF12).
ObserveExact == \A o \in obs : o.keep = o.exp \/ o.interf
\* ... without the allowance (holds for KeyByKind = TRUE; its counterexample for FALSE is the CF12 witness)
StrictObserveExact == \A o \in obs : o.keep = o.exp
\* no timeout or masked-out kind: never dropped (no allowance)
NeverDropUncovered == \A o \in obs : ~Covered(o.s[1]) => o.keep
\* a drop removes the series from the registry and its entry from the recency map
DropRemoves == \A o \in obs : ~o.keep => (o.gone /\ ~reg[o.s].present)
\* a kept series stays registered
KeepKeeps == \A o \in obs : o.keep => reg[o.s].present
\* a series that is not registered has no generation, value or history: re-registration starts from zero
FreshRestart == \A s \in Series : ~reg[s].present => (reg[s] = Absent /\ firstObs[s] = None)
\* the allowance is exactly "another kind with the same key used the shared entry"
InterferenceIsCrossKind ==
  \A s \in Series : (reg[s].present /\ Interf(rec, firstObs, s, reg[s].gen)) =>
     \E s2 \in everObs : s2[2] = s[2] /\ s2[1] # s[1]
NoInterference == \A s \in Series : reg[s].present => ~Interf(rec, firstObs, s, reg[s].gen)
\* nothing is tracked when recency does not apply
UncoveredUntracked == (timeout = None \/ mask = {}) => \A r \in RKeys : rec[r] = NoEntry
=============================================================================
