------------------------------- MODULE Recency -------------------------------
(***************************************************************************)
(* metrics-util/src/registry/recency.rs (Generational, Recency) on top of  *)
(* metrics-util/src/registry/mod.rs (Registry), as used by                 *)
(* metrics-exporter-prometheus/src/recorder.rs (get_recent_metrics).       *)
(*                                                                         *)
(*   one action = one public call:                                         *)
(*     Register(s)   registry.get_or_create_<kind>(key, |_| ())            *)
(*     Update(s, d)  registry.get_or_create_<kind>(key, |h| h.<op>(..))    *)
(*                   every op goes through Generational::with_increment:   *)
(*                   the generation is bumped even if the value is not     *)
(*                   changed (d = 0)                                       *)
(*     Tick(d)       mock.increment(d)                                     *)
(*     Observe(s)    gen = handle.get_generation();                        *)
(*                   recency.should_store_<kind>(key, gen, registry)       *)
(*     Render        the sweep of get_recent_metrics: Observe of every     *)
(*                   registered series, counters, then gauges, then        *)
(*                   histograms                                            *)
(*                                                                         *)
(* A series s is a pair <<kind, key>>.  The registry has one map per kind; *)
(* the recency map of the code is keyed BY KEY ONLY (HashMap<K, (Generation*)
(* , Instant)>), so the series <<"c",k>> and <<"g",k>> share one entry.    *)
(*   KeyByKind = FALSE : as coded today (finding CF12, kept as the named   *)
(*                       deviation `interf`)                               *)
(*   KeyByKind = TRUE  : entry per (kind, key) (the proposed repair)       *)
(*                                                                         *)
(* Time is an integer number of ticks (harness: 1 tick = 1 ms on a         *)
(* quanta::Clock::mock()).  timeout = None (-1) means idle_timeout = None. *)
(***************************************************************************)
EXTENDS Integers, Sequences, FiniteSets, TLC, SequencesExt

CONSTANTS Kinds,      \* subset of {"c","g","h"}
          Keys,       \* small integers
          KeyByKind,  \* see above
          Masks,      \* set of masks (subsets of Kinds) Init chooses from
          Timeouts,   \* set of timeouts Init chooses from (-1 = None)
          MaxDelta,   \* counters/gauges are updated by 0..MaxDelta, histograms by exactly one sample
          MaxSteps,   \* bounds for exhaustive runs (guards of the actions; huge for trace validation):
          MaxNow,     \*   timeline length, clock value, generation of a series
          MaxGen,
          GenOrderedCompare, \* FALSE: `*last_gen == gen` as coded; TRUE: "changed iff gen > last_gen" (witness TLC must reject)
          Observers   \* extra exporters whose observation may OVERLAP others: snapshot now, should_store later ({} = none)

None == -1
Series == Kinds \X Keys
KindOrder == <<"c", "g", "h">>          \* sweep order of get_recent_metrics
Absent == [present |-> FALSE, gen |-> 0, val |-> 0]
NoEntry == [gen |-> None, last |-> None]
NoSlot == [on |-> FALSE, s |-> <<"", 0>>, live |-> FALSE, gen |-> 0]
RKeys == IF KeyByKind THEN Series ELSE Keys
RK(s) == IF KeyByKind THEN s ELSE s[2]   \* the key under which the recency map files series s

VARIABLES
  now,       \* mock clock
  mask,      \* MetricKindMask as a set of kinds
  timeout,   \* idle_timeout in ticks or None
  reg,       \* registry: series -> [present, gen, val]   (Generational handle: gen = #updates, val = value)
  rec,       \* Recency.inner map: RKeys -> [gen, last] or NoEntry
  \* ---- history (never read by the code-mirroring part) ----
  firstObs,  \* series -> time of the earliest observation that saw the series at its current generation
             \*           (None: current generation not yet observed).  The property is stated over this.
  everObs,   \* series whose observation has consulted the recency map so far
  staleRec,  \* recency keys whose entry outlived the series it was written for (registry-side removal behind
             \* Recency's back) or was written by an observer holding the handle of a series that no longer exists
  slot,      \* (not history) Observers -> the handle snapshot an overlapping observer holds: [on, s, live, gen]
  obs,       \* outcomes of the observations made by the last action (set of records)
  steps

vars == <<now, mask, timeout, reg, rec, firstObs, everObs, staleRec, slot, obs, steps>>

Covered(k) == timeout # None /\ k \in mask
Deltas(k) == IF k = "h" THEN {1} ELSE 0..MaxDelta
TickSet == LET T == IF timeout = None THEN 2 ELSE timeout IN {d \in {1, T - 1, T, T + 1} : d >= 1}

InitWith(m, t) ==
  /\ now = 0 /\ mask = m /\ timeout = t
  /\ reg = [s \in Series |-> Absent]
  /\ rec = [r \in RKeys |-> NoEntry]
  /\ firstObs = [s \in Series |-> None]
  /\ everObs = {} /\ obs = {} /\ steps = 0
  /\ staleRec = {} /\ slot = [o \in Observers |-> NoSlot]
Init == \E m \in Masks, t \in Timeouts : InitWith(m, t)

(***************************************************************************)
(* should_store, the part under the mutex, for an entry `e` of the map and *)
(* the generation `g` handed in:                                           *)
(*   no entry            -> insert (g, now), keep                          *)
(*   entry, other gen    -> entry := (g, now), keep                        *)
(*   entry, same gen     -> (now - last) > timeout && delete_op(..)        *)
(*                          (delete_op succeeds: the series is registered),*)
(*                          on deletion the entry is removed               *)
(***************************************************************************)
Decide(e, g) ==
  IF e = NoEntry THEN [del |-> FALSE, e |-> [gen |-> g, last |-> now]]
  ELSE IF (IF GenOrderedCompare THEN ~(g > e.gen) ELSE e.gen = g)
       THEN IF now - e.last > timeout THEN [del |-> TRUE, e |-> NoEntry]
                                      ELSE [del |-> FALSE, e |-> e]
       ELSE [del |-> FALSE, e |-> [gen |-> g, last |-> now]]

\* The property's own rule (independent of the map): drop iff covered and the current generation was
\* already seen by an observation made more than `timeout` ago.
ExpectDrop(fo, k) == Covered(k) /\ fo # None /\ now - fo > timeout

\* Only an entry of the generation handed in influences the decision ...
Eff(e, g) == IF e # NoEntry /\ e.gen = g THEN e ELSE NoEntry
\* ... and this is the one the series' own observations leave behind: (current generation, time of the
\* first observation of it), none while the current generation is unobserved.
OwnEntry(fo, g) == IF fo = None THEN NoEntry ELSE [gen |-> g, last |-> fo]
\* CF12: the entry consulted is not the series' own -- an observation of another kind with the same
\* key wrote (inserted / refreshed) or consumed (removed) the shared entry.
Interf(r, fo, s, g) == Covered(s[1]) /\ Eff(r[RK(s)], g) # OwnEntry(fo[s], g)

\* One should_store call as a function on the mutable part of the state: for series s, with generation g
\* read from the observer's handle.  live = the handle is the registered one (always so for the sequential
\* sweep); ~live = an overlapping observer whose snapshot predates a drop / removal of the series: delete_op
\* then hits whatever is registered under the key now (or nothing: it returns false and nothing happens).
ObserveWith(st, s, g, live) ==
  LET k == s[1]
      r == RK(s)
      d == Decide(st.rec[r], g)                 \* what the code does
      failed == d.del /\ ~st.reg[s].present       \* expired && delete_op(..) = false
      drop == Covered(k) /\ d.del /\ ~failed
      reg2 == IF drop THEN [st.reg EXCEPT ![s] = Absent] ELSE st.reg
      rec2 == IF Covered(k) /\ ~failed THEN [st.rec EXCEPT ![r] = d.e] ELSE st.rec
      fo2 == IF drop THEN [st.fo EXCEPT ![s] = None]
             ELSE IF live /\ st.fo[s] = None THEN [st.fo EXCEPT ![s] = now] ELSE st.fo
      written == rec2[r] # st.rec[r]
      \* the entry stops being stale when it is removed or again is what the series' own observations left
      stale2 == IF rec2[r] = NoEntry THEN st.stale \ {r}
                ELSE IF live THEN (IF Eff(rec2[r], g) = OwnEntry(fo2[s], g) THEN st.stale \ {r} ELSE st.stale)
                ELSE (IF written THEN st.stale \cup {r} ELSE st.stale)
      isStale == r \in st.stale \/ ~live
      o == [s |-> s, keep |-> ~drop, live |-> live,
            exp |-> IF live THEN ~ExpectDrop(st.fo[s], k) ELSE (IF drop THEN ~ExpectDrop(st.fo[s], k) ELSE TRUE),
            interf |-> live /\ Interf(st.rec, st.fo, s, g),
            staleAny |-> Covered(k) /\ isStale,
            staleEq |-> Covered(k) /\ isStale /\ st.rec[r] # NoEntry /\ st.rec[r].gen = g,
            gone |-> (~reg2[s].present /\ rec2[r] = NoEntry)]
      \* handles of a dropped series held by overlapping observers are stale from now on
      slot2 == [ob \in Observers |->
                  IF drop /\ st.slot[ob].on /\ st.slot[ob].s = s /\ st.slot[ob].live
                  THEN [st.slot[ob] EXCEPT !.live = FALSE, !.gen = st.reg[s].gen] ELSE st.slot[ob]]
  IN [reg |-> reg2, rec |-> rec2, fo |-> fo2, stale |-> stale2, slot |-> slot2,
      ever |-> IF Covered(k) /\ live THEN st.ever \cup {s} ELSE st.ever,
      out |-> st.out \cup {o}]
ObserveSt(st, s) == ObserveWith(st, s, st.reg[s].gen, TRUE)

Cur == [reg |-> reg, rec |-> rec, fo |-> firstObs, ever |-> everObs, stale |-> staleRec, slot |-> slot, out |-> {}]
Commit(st) == /\ reg' = st.reg /\ rec' = st.rec /\ firstObs' = st.fo
              /\ everObs' = st.ever /\ obs' = st.out /\ staleRec' = st.stale /\ slot' = st.slot
              /\ UNCHANGED <<now, mask, timeout>>

KindSeq == SelectSeq(KindOrder, LAMBDA k : k \in Kinds)
KeySeq == SetToSortSeq(Keys, <)
AllSeries == [i \in 1..(Len(KindSeq) * Len(KeySeq)) |->
                <<KindSeq[((i - 1) \div Len(KeySeq)) + 1], KeySeq[((i - 1) % Len(KeySeq)) + 1]>>]
\* The sweep of get_recent_metrics.  Within one kind the code iterates a HashMap (arbitrary order);
\* series of one kind have different keys, hence different entries: their order is immaterial.
RenderSt(st) == FoldLeft(LAMBDA acc, s : IF acc.reg[s].present THEN ObserveSt(acc, s) ELSE acc, st, AllSeries)

----------------------------------------------------------------------------
Register(s) ==              \* get_or_create with an operation that does not touch the handle
  /\ steps < MaxSteps
  /\ reg' = IF reg[s].present THEN reg ELSE [reg EXCEPT ![s] = [present |-> TRUE, gen |-> 0, val |-> 0]]
  /\ obs' = {} /\ steps' = steps + 1
  /\ UNCHANGED <<now, mask, timeout, rec, firstObs, everObs, staleRec, slot>>

Update(s, d) ==             \* get_or_create + one handle operation (with_increment)
  /\ steps < MaxSteps /\ reg[s].gen < MaxGen
  /\ reg' = [reg EXCEPT ![s] = [present |-> TRUE, gen |-> reg[s].gen + 1, val |-> reg[s].val + d]]
  /\ firstObs' = [firstObs EXCEPT ![s] = None]
  /\ obs' = {} /\ steps' = steps + 1
  /\ UNCHANGED <<now, mask, timeout, rec, everObs, staleRec, slot>>

Tick(d) ==
  /\ steps < MaxSteps /\ now + d <= MaxNow
  /\ now' = now + d
  /\ obs' = {} /\ steps' = steps + 1
  /\ UNCHANGED <<mask, timeout, reg, rec, firstObs, everObs, staleRec, slot>>

Observe(s) ==
  /\ steps < MaxSteps
  /\ reg[s].present
  /\ Commit(ObserveSt(Cur, s))
  /\ steps' = steps + 1

Render ==
  /\ steps < MaxSteps
  /\ Commit(RenderSt(Cur))
  /\ steps' = steps + 1

\* Registry-side removal behind Recency's back: Registry::delete_<kind>(key), retain_<kind>s dropping the
\* key, or clear() (SS = everything registered).  The recency entries stay.
RemoveSet(SS) ==
  /\ steps < MaxSteps
  /\ reg' = [s \in Series |-> IF s \in SS THEN Absent ELSE reg[s]]
  /\ firstObs' = [s \in Series |-> IF s \in SS THEN None ELSE firstObs[s]]
  /\ staleRec' = staleRec \cup {RK(s) : s \in {x \in SS : reg[x].present /\ rec[RK(x)] # NoEntry}}
  /\ slot' = [ob \in Observers |->
                IF slot[ob].on /\ slot[ob].live /\ slot[ob].s \in SS /\ reg[slot[ob].s].present
                THEN [slot[ob] EXCEPT !.live = FALSE, !.gen = reg[slot[ob].s].gen] ELSE slot[ob]]
  /\ obs' = {} /\ steps' = steps + 1
  /\ UNCHANGED <<now, mask, timeout, rec, everObs>>
RegRemove(s) == reg[s].present /\ RemoveSet({s})

\* An overlapping observer: takes its snapshot of the handle now ...
Snap(ob, s) ==
  /\ steps < MaxSteps /\ reg[s].present /\ ~slot[ob].on
  /\ slot' = [slot EXCEPT ![ob] = [on |-> TRUE, s |-> s, live |-> TRUE, gen |-> 0]]
  /\ obs' = {} /\ steps' = steps + 1
  /\ UNCHANGED <<now, mask, timeout, reg, rec, firstObs, everObs, staleRec>>
\* ... and runs get_generation() + should_store later, with whatever its handle shows then
SlotDecide(ob) ==
  /\ steps < MaxSteps /\ slot[ob].on
  /\ LET sl == slot[ob]
         st0 == [Cur EXCEPT !.slot = [slot EXCEPT ![ob] = NoSlot]]
     IN Commit(ObserveWith(st0, sl.s, IF sl.live THEN reg[sl.s].gen ELSE sl.gen, sl.live))
  /\ steps' = steps + 1

NewRegister(s) == ~reg[s].present /\ Register(s)   \* (on a registered series Register is a no-op)
SomeTick == \E d \in TickSet : Tick(d)
Next ==
  \/ \E s \in Series : NewRegister(s)
  \/ \E s \in Series : \E d \in Deltas(s[1]) : Update(s, d)
  \/ SomeTick
  \/ \E s \in Series : Observe(s)
  \/ Render
  \/ \E s \in Series : RegRemove(s)
  \/ \E ob \in Observers : \E s \in Series : Snap(ob, s)
  \/ \E ob \in Observers : SlotDecide(ob)

Spec == Init /\ [][Next]_vars

----------------------------------------------------------------------------
(* The property.                                                           *)
TypeOK ==
  /\ now \in Nat /\ mask \subseteq Kinds /\ timeout \in Nat \cup {None}
  /\ \A s \in Series : reg[s].present \in BOOLEAN /\ reg[s].gen \in Nat /\ reg[s].val \in Nat
  /\ \A r \in RKeys : rec[r] = NoEntry \/ (rec[r].gen \in Nat /\ rec[r].last \in 0..now)
  /\ \A s \in Series : firstObs[s] \in {None} \cup 0..now

\* Observe says drop iff covered and unchanged since an observation made more than `timeout` ago
\* -- unless another kind with the same key wrote or consumed the shared entry (CF12).
\* CF12c: a stale entry (see staleRec) is matched against the re-created series: equal generation -> a fresh
\* series is dropped; any generation -> (overlap only) the idle timer of the current series is restarted.
StaleAllow(o) == (o.keep /\ o.staleAny) \/ (~o.keep /\ o.staleEq)
ObserveExact == \A o \in obs : o.keep = o.exp \/ o.interf \/ StaleAllow(o)
\* ... without the allowance (holds for KeyByKind = TRUE; its counterexample for FALSE is the CF12 witness)
StrictObserveExact == \A o \in obs : o.keep = o.exp \/ StaleAllow(o)
\* ... and with no allowance at all (its counterexample is the CF12c witness)
NoStaleObserveExact == \A o \in obs : o.keep = o.exp
\* no timeout or masked-out kind: never dropped (no allowance)
NeverDropUncovered == \A o \in obs : ~Covered(o.s[1]) => o.keep
\* a drop removes the series from the registry and its entry from the recency map
DropRemoves == \A o \in obs : ~o.keep => (o.gone /\ ~reg[o.s].present)
\* a kept series stays registered
KeepKeeps == \A o \in obs : (o.keep /\ o.live) => reg[o.s].present
\* a series that is not registered has no generation, value or history: re-registration starts from zero
FreshRestart == \A s \in Series : ~reg[s].present => (reg[s] = Absent /\ firstObs[s] = None)
\* the allowance is exactly "another kind with the same key used the shared entry"
InterferenceIsCrossKind ==
  \A s \in Series : (reg[s].present /\ Interf(rec, firstObs, s, reg[s].gen)) =>
     (RK(s) \in staleRec \/ \E s2 \in everObs : s2[2] = s[2] /\ s2[1] # s[1])
NoInterference == \A s \in Series : (reg[s].present /\ Interf(rec, firstObs, s, reg[s].gen)) => RK(s) \in staleRec
\* nothing is tracked when recency does not apply
UncoveredUntracked == (timeout = None \/ mask = {}) => \A r \in RKeys : rec[r] = NoEntry
=============================================================================
