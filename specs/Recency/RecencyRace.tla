----------------------------- MODULE RecencyRace -----------------------------
(***************************************************************************)
(* Recency under concurrency: ONE covered series (mask contains its kind,  *)
(* timeout set), updaters running in parallel with the observing exporter, *)
(* every call split into the steps the code performs.                      *)
(*                                                                         *)
(* Update  = Generational::with_increment (recency.rs:80-87), through a    *)
(*           handle obtained beforehand (Recorder::register_* hands out    *)
(*           clones; no registry lock is held during the update):          *)
(*             UBegin   the call is entered                                *)
(*             UStep1   f(&self.inner)         -- the value is written     *)
(*             UStep2   self.gen.fetch_add(1)  -- the generation is bumped,*)
(*                                                the call returns         *)
(*           GenFirst = TRUE swaps the two (generation published before    *)
(*           the value): the witness TLC must reject.                      *)
(* Observation = one iteration of get_recent_metrics (recorder.rs:33-43):  *)
(*             OGen     gen = handle.get_generation()                      *)
(*             ODecide  recency.should_store_*(key, gen, registry)         *)
(*                      (atomic: under Recency's mutex)                    *)
(*             OVal     value = handle.get_inner().load()   (if kept)      *)
(* Tick(d) may happen between any two steps.                               *)
(*                                                                         *)
(* The run ends when the series is dropped (updates through a handle that  *)
(* outlived a drop go to an orphaned storage; re-registration is covered   *)
(* by Recency.tla).                                                        *)
(*                                                                         *)
(* The property, in happens-before form (an update that overlaps an        *)
(* observation may be ordered after it):                                   *)
(*   DropOnlyIfQuiet  an observation O drops only if some observation O'   *)
(*                    decided more than `timeout` before O's decision and  *)
(*                    no update returned between the begin of O' and the   *)
(*                    begin of O;                                          *)
(*   DropWhenQuiet    ... and if there is such an O', O does drop;         *)
(*   NothingLost      when O drops, every update that returned before O    *)
(*                    began is contained in the value reported by the      *)
(*                    previous observation;                                *)
(*   FullValue        a kept observation reports a value containing every  *)
(*                    update that returned before it began.                *)
(***************************************************************************)
EXTENDS Integers, Sequences, FiniteSets, TLC

CONSTANTS Updaters,   \* e.g. {1, 2}
          NUpd,       \* updates per updater
          NObs,       \* observations
          Timeouts,   \* Init chooses the idle timeout (ticks) from this set
          Deltas,     \* amounts an update adds
          GenFirst,   \* FALSE: value then generation (the code); TRUE: generation then value (witness)
          MaxNow      \* bound on the clock (exhaustive runs)

None == -1
NoEntry == [gen |-> None, last |-> None]

VARIABLES
  now, timeout,
  present, gen, val,   \* the registered Generational handle
  entry,               \* Recency's entry for the key
  upc, ud, udone,      \* updater: "idle" | "s1" | "s2"; amount in flight; updates finished
  opc, og, nobs,       \* observer: "idle" | "dec" | "val"; generation it read; observations finished
  \* ---- history ----
  quiet,       \* decision time of the earliest observation that began after the last update returned (None: none)
  committed,   \* sum of the amounts of the updates that have returned
  exported,    \* value reported by the last observation that kept the series (None: none yet)
  qS, cS,      \* `quiet` / `committed` sampled when the current observation began
  retDuring,   \* an update returned since the current observation began
  dropOnlyOK, dropWhenOK, lostOK, fullOK

hvars == <<quiet, committed, exported, qS, cS, retDuring, dropOnlyOK, dropWhenOK, lostOK, fullOK>>
vars == <<now, timeout, present, gen, val, entry, upc, ud, udone, opc, og, nobs, hvars>>

InitWith(t) ==
  /\ now = 0 /\ timeout = t
  /\ present = TRUE /\ gen = 0 /\ val = 0 /\ entry = NoEntry
  /\ upc = [u \in Updaters |-> "idle"] /\ ud = [u \in Updaters |-> 0] /\ udone = [u \in Updaters |-> 0]
  /\ opc = "idle" /\ og = None /\ nobs = 0
  /\ quiet = None /\ committed = 0 /\ exported = None /\ qS = None /\ cS = 0 /\ retDuring = FALSE
  /\ dropOnlyOK = TRUE /\ dropWhenOK = TRUE /\ lostOK = TRUE /\ fullOK = TRUE
Init == \E t \in Timeouts : InitWith(t)

\* should_store under the mutex (same transcription as Recency.tla)
Decide(e, g) ==
  IF e = NoEntry THEN [del |-> FALSE, e |-> [gen |-> g, last |-> now]]
  ELSE IF e.gen = g
       THEN IF now - e.last > timeout THEN [del |-> TRUE, e |-> NoEntry]
                                      ELSE [del |-> FALSE, e |-> e]
       ELSE [del |-> FALSE, e |-> [gen |-> g, last |-> now]]

----------------------------------------------------------------------------
UBegin(u, d) ==
  /\ present /\ upc[u] = "idle" /\ udone[u] < NUpd
  /\ upc' = [upc EXCEPT ![u] = "s1"] /\ ud' = [ud EXCEPT ![u] = d]
  /\ UNCHANGED <<now, timeout, present, gen, val, entry, udone, opc, og, nobs, hvars>>

\* first half of with_increment
UStep1(u) ==
  /\ present /\ upc[u] = "s1"
  /\ IF GenFirst THEN gen' = gen + 1 /\ val' = val
                 ELSE val' = val + ud[u] /\ gen' = gen
  /\ upc' = [upc EXCEPT ![u] = "s2"]
  /\ UNCHANGED <<now, timeout, present, entry, ud, udone, opc, og, nobs, hvars>>

\* second half; the call returns
UStep2(u) ==
  /\ present /\ upc[u] = "s2"
  /\ IF GenFirst THEN val' = val + ud[u] /\ gen' = gen
                 ELSE gen' = gen + 1 /\ val' = val
  /\ upc' = [upc EXCEPT ![u] = "idle"] /\ udone' = [udone EXCEPT ![u] = @ + 1]
  /\ committed' = committed + ud[u] /\ quiet' = None /\ retDuring' = TRUE
  /\ UNCHANGED <<now, timeout, present, entry, ud, opc, og, nobs, exported, qS, cS,
                 dropOnlyOK, dropWhenOK, lostOK, fullOK>>

Tick(d) ==
  /\ present /\ now + d <= MaxNow
  /\ now' = now + d
  /\ UNCHANGED <<timeout, present, gen, val, entry, upc, ud, udone, opc, og, nobs, hvars>>

OGen ==
  /\ present /\ opc = "idle" /\ nobs < NObs
  /\ og' = gen /\ opc' = "dec"
  /\ qS' = quiet /\ cS' = committed /\ retDuring' = FALSE
  /\ UNCHANGED <<now, timeout, present, gen, val, entry, upc, ud, udone, nobs, quiet, committed, exported,
                 dropOnlyOK, dropWhenOK, lostOK, fullOK>>

QuietLongEnough == qS # None /\ now - qS > timeout

ODecide ==
  /\ present /\ opc = "dec"
  /\ LET d == Decide(entry, og) IN
     /\ entry' = d.e
     /\ IF d.del
        THEN /\ present' = FALSE /\ opc' = "idle" /\ nobs' = nobs + 1
             /\ dropOnlyOK' = (dropOnlyOK /\ QuietLongEnough)
             /\ lostOK' = (lostOK /\ exported # None /\ exported >= cS)
             /\ UNCHANGED <<dropWhenOK, quiet>>
        ELSE /\ present' = TRUE /\ opc' = "val" /\ nobs' = nobs
             /\ dropWhenOK' = (dropWhenOK /\ ~QuietLongEnough)
             /\ quiet' = IF quiet = None /\ ~retDuring THEN now ELSE quiet
             /\ UNCHANGED <<dropOnlyOK, lostOK>>
  /\ UNCHANGED <<now, timeout, gen, val, upc, ud, udone, og, committed, exported, qS, cS, retDuring, fullOK>>

OVal ==
  /\ present /\ opc = "val"
  /\ exported' = val /\ fullOK' = (fullOK /\ val >= cS)
  /\ opc' = "idle" /\ nobs' = nobs + 1
  /\ UNCHANGED <<now, timeout, present, gen, val, entry, upc, ud, udone, og, quiet, committed, qS, cS, retDuring,
                 dropOnlyOK, dropWhenOK, lostOK>>

SomeBegin == \E u \in Updaters, d \in Deltas : UBegin(u, d)
SomeStep1 == \E u \in Updaters : UStep1(u)
SomeStep2 == \E u \in Updaters : UStep2(u)
SomeTick == \E d \in {1, timeout - 1, timeout, timeout + 1} : d >= 1 /\ Tick(d)
Next == SomeBegin \/ SomeStep1 \/ SomeStep2 \/ SomeTick \/ OGen \/ ODecide \/ OVal
Spec == Init /\ [][Next]_vars

Finished == ~present \/ (nobs = NObs /\ \A u \in Updaters : udone[u] = NUpd /\ upc[u] = "idle")

----------------------------------------------------------------------------
TypeOK ==
  /\ now \in Nat /\ timeout \in Nat /\ present \in BOOLEAN /\ gen \in Nat /\ val \in Nat
  /\ entry = NoEntry \/ (entry.gen \in Nat /\ entry.last \in 0..now)
  /\ \A u \in Updaters : upc[u] \in {"idle", "s1", "s2"}
  /\ opc \in {"idle", "dec", "val"}
DropOnlyIfQuiet == dropOnlyOK
DropWhenQuiet == dropWhenOK
NothingLost == lostOK
FullValue == fullOK
=============================================================================
