SPECIFICATION Spec
CONSTANTS
 Kinds = {"c","g"}
 Keys = {1,2}
 KeyByKind = FALSE
 Masks <- AllMasks
 Timeouts <- TO_n23
 MaxSteps = 6
 MaxDelta = 1
INVARIANTS TypeOK ObserveExact NeverDropUncovered DropRemoves KeepKeeps FreshRestart OwnIsFirstObs InterferenceIsCrossKind UncoveredUntracked
CHECK_DEADLOCK FALSE
