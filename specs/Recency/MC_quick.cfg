\* static copy of the generated quick config "same_key_full_mask" (checks/c12.py generates gen_*.cfg): tlc -config MC_quick.cfg MCRecency.tla
SPECIFICATION Spec
CONSTANTS
 Kinds = {"c","g"}
 Keys = {1}
 KeyByKind = FALSE
 Masks <- FullMask
 Timeouts <- TO_23
 MaxDelta = 1
 MaxSteps = 8
 MaxNow = 100000000
 MaxGen = 100000000
 GenOrderedCompare = FALSE
 Observers = {}
INVARIANTS TypeOK ObserveExact NeverDropUncovered DropRemoves KeepKeeps FreshRestart InterferenceIsCrossKind UncoveredUntracked
CHECK_DEADLOCK FALSE
