---------------------------- MODULE TraceRecency ----------------------------
(* Trace validation: a timeline recorded from the real Registry + Recency    *)
(* (mode "direct") or from the Prometheus recorder (mode "prom") must be a    *)
(* behaviour of Recency.tla -- every logged result, generation, value,        *)
(* registry content and rendered family equal to the specification's -- and   *)
(* every invariant of Recency.tla must hold in every state of it.             *)
EXTENDS Recency, Json, IOUtils, TLCExt
VARIABLE l
Rec == ndJsonDeserialize(IOEnv.TRACE)
tvars == <<vars, l>>

R == Rec[l]
Ev == R.ev
Step == l' = l + 1
Rng(sq) == {sq[i] : i \in DOMAIN sq}
S(r) == <<r.kind, r.key>>
Known(tag, what) == PrintT(<<"KNOWN", tag, what>>)

ResetTo(m, t) ==
  /\ now' = 0 /\ mask' = m /\ timeout' = t
  /\ reg' = [s \in Series |-> Absent]
  /\ rec' = [r \in RKeys |-> NoEntry]
  /\ firstObs' = [s \in Series |-> None]
  /\ everObs' = {} /\ obs' = {} /\ steps' = 0
  /\ staleRec' = {} /\ slot' = [o \in Observers |-> NoSlot]

\* PrometheusBuilder::idle_timeout(mask, None) stores MetricKindMask::NONE
EffMask(r) == IF r.mode = "prom" /\ r.timeout = None THEN {} ELSE Rng(r.mask)

\* observations of the step just taken that deviate from the property under a listed pattern
Cf12c(o) == o.keep # o.exp /\ StaleAllow(o)
Cf12(o) == ~KeyByKind /\ o.keep # o.exp /\ o.interf /\ ~StaleAllow(o)
Report(tag, P(_)) == IF \E o \in obs' : P(o)
                     THEN LET o == CHOOSE x \in obs' : P(x)
                          IN Known(tag, <<o.s[1], o.s[2], IF o.keep THEN "kept" ELSE "dropped", now>>)
                     ELSE TRUE
ReportKnown == Report("CF12", Cf12) /\ Report("CF12c", Cf12c)

Present(r) == {s \in Series : r[s].present}
\* gen / val = -1: not observable in that mode
Same(logged, model) == logged = -1 \/ logged = model

TraceNext ==
  /\ l <= Len(Rec)
  /\ CASE Ev = "reset"    -> ResetTo(EffMask(R), R.timeout) /\ Step
       [] Ev = "register" -> S(R) \in Series /\ Register(S(R)) /\ Step
                             /\ Same(R.gen, reg'[S(R)].gen) /\ Same(R.val, reg'[S(R)].val)
       [] Ev = "update"   -> S(R) \in Series /\ Update(S(R), R.d) /\ Step
                             /\ Same(R.gen, reg'[S(R)].gen) /\ Same(R.val, reg'[S(R)].val)
       [] Ev = "tick"     -> Tick(R.d) /\ Step /\ now' = R.now /\ R.sub = 0
       [] Ev = "observe"  -> /\ S(R) \in Series /\ Observe(S(R)) /\ Step
                             /\ R.gen = reg[S(R)].gen                 \* generation handed to should_store
                             /\ \A o \in obs' : o.keep = R.keep        \* its result
                             /\ R.present = reg'[S(R)].present         \* registry afterwards
                             /\ R.val = reg[S(R)].val                  \* value read from the handle
                             /\ ReportKnown
       [] Ev = "observe_missing" -> S(R) \in Series /\ ~reg[S(R)].present /\ Step /\ UNCHANGED vars
       [] Ev = "remove"   -> /\ S(R) \in Series /\ R.existed = reg[S(R)].present     \* delete_* / retain_* of one key
                             /\ RemoveSet(IF R.existed THEN {S(R)} ELSE {}) /\ Step
       [] Ev = "clear"    -> RemoveSet(Present(reg)) /\ Step
       [] Ev = "o.snap"   -> S(R) \in Series /\ R.ob \in Observers /\ Snap(R.ob, S(R)) /\ Step
       [] Ev = "o.decide" -> /\ R.ob \in Observers /\ slot[R.ob].on /\ slot[R.ob].s = S(R)
                             /\ R.gen = (IF slot[R.ob].live THEN reg[S(R)].gen ELSE slot[R.ob].gen)
                             /\ SlotDecide(R.ob) /\ Step
                             /\ \A o \in obs' : o.keep = R.keep
                             /\ R.present = reg'[S(R)].present
                             /\ ReportKnown
       [] Ev = "snap"     -> /\ Rng(R.series) = {<<s[1], s[2], reg[s].gen, reg[s].val>> : s \in Present(reg)}
                             /\ Step /\ UNCHANGED vars
       [] Ev = "render"   -> /\ Render /\ Step
                             /\ Rng(R.types) = {<<s[1], s[2]>> : s \in Present(reg')}
                             /\ Len(R.types) = Cardinality(Present(reg'))
                             /\ Rng(R.fam) = {<<s[1], s[2], reg'[s].val>> : s \in Present(reg')}
                             /\ Len(R.fam) = Cardinality(Present(reg'))
                             /\ R.odd = <<>>
                             /\ ReportKnown
       [] OTHER -> FALSE       \* panic / unknown event: not a behaviour

\* start state (overwritten by the first `reset` event)
FullMask == {Kinds}
TO_2 == {2}
TraceInit == Init /\ l = 1
TraceSpec == TraceInit /\ [][TraceNext]_tvars
TraceAccepted ==
  LET d == TLCGet("stats").diameter IN
  IF d - 1 = Len(Rec) THEN TRUE
  ELSE Print(<<"TRACE REJECTED at line", d, Rec[d]>>, FALSE)
=============================================================================
