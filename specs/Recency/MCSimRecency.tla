---------------------------- MODULE MCSimRecency ----------------------------
EXTENDS SimRecency
AllMasks == SUBSET Kinds
FullMask == {Kinds}
TO_n23 == {None, 2, 3}
TO_23 == {2, 3}
TO_2 == {2}
=============================================================================
