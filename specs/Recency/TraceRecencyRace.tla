-------------------------- MODULE TraceRecencyRace --------------------------
(* Trace validation of the split model: runs of the real                     *)
(* Registry<Key, GenerationalStorage<GatedStorage>> + Recency in which        *)
(* emitter threads are held INSIDE the inner storage primitive (before and    *)
(* after its effect) while the controller performs the exporter's steps.      *)
(* Every step is a handshake, so the log is totally ordered.                  *)
(*   u.begin  emitter entered the update and is held before the primitive's   *)
(*            effect; gen/val = what the registered handle shows meanwhile    *)
(*   u.value  the primitive applied its effect; emitter held after it         *)
(*   u.end    the update returned                                             *)
(*   o.gen / o.decide / o.val   the three steps of one observation            *)
(* GenFirst = FALSE here: the code must write the value before it publishes   *)
(* the generation, so while an emitter is held inside the primitive the       *)
(* generation must still be the old one.                                      *)
EXTENDS RecencyRace, Json, IOUtils, TLCExt
VARIABLE l
Rec == ndJsonDeserialize(IOEnv.TRACE)
tvars == <<vars, l>>
R == Rec[l]
Ev == R.ev
Step == l' = l + 1

ResetTo(t) ==
  /\ now' = 0 /\ timeout' = t
  /\ present' = TRUE /\ gen' = 0 /\ val' = 0 /\ entry' = NoEntry
  /\ upc' = [u \in Updaters |-> "idle"] /\ ud' = [u \in Updaters |-> 0] /\ udone' = [u \in Updaters |-> 0]
  /\ opc' = "idle" /\ og' = None /\ nobs' = 0
  /\ quiet' = None /\ committed' = 0 /\ exported' = None /\ qS' = None /\ cS' = 0 /\ retDuring' = FALSE
  /\ dropOnlyOK' = TRUE /\ dropWhenOK' = TRUE /\ lostOK' = TRUE /\ fullOK' = TRUE

\* what the registered handle shows right after the step
Shows(r) == r.gen = gen' /\ r.val = val'

TraceNext ==
  /\ l <= Len(Rec)
  /\ CASE Ev = "reset"    -> ResetTo(R.timeout) /\ Step
       [] Ev = "tick"     -> Tick(R.d) /\ Step /\ now' = R.now /\ R.sub = 0
       [] Ev = "u.begin"  -> R.u \in Updaters /\ UBegin(R.u, R.d) /\ Step /\ Shows(R)
       [] Ev = "u.value"  -> R.u \in Updaters /\ UStep1(R.u) /\ Step /\ Shows(R)
       [] Ev = "u.end"    -> R.u \in Updaters /\ UStep2(R.u) /\ Step /\ Shows(R)
       [] Ev = "o.gen"    -> OGen /\ Step /\ og' = R.gen
       [] Ev = "o.decide" -> ODecide /\ Step /\ present' = R.keep /\ present' = R.present
       [] Ev = "o.val"    -> OVal /\ Step /\ exported' = R.val
       [] OTHER -> FALSE       \* hang / panic / unknown event: not a behaviour

TraceInit == Init /\ l = 1
TraceSpec == TraceInit /\ [][TraceNext]_tvars
TraceAccepted ==
  LET d == TLCGet("stats").diameter IN
  IF d - 1 = Len(Rec) THEN TRUE
  ELSE Print(<<"TRACE REJECTED at line", d, Rec[d]>>, FALSE)
=============================================================================
