SPECIFICATION TraceSpec
CONSTANTS
 Kinds = {"c","g","h"}
 Keys = {1,2,3}
 KeyByKind = TRUE
 Masks <- FullMask
 Timeouts <- TO_2
 MaxDelta = 1000000
 MaxSteps = 100000000
 MaxNow = 100000000
 MaxGen = 100000000
 GenOrderedCompare = FALSE
 Observers = {1,2}
INVARIANTS TypeOK StrictObserveExact NoInterference NeverDropUncovered DropRemoves KeepKeeps FreshRestart UncoveredUntracked
POSTCONDITION TraceAccepted
CHECK_DEADLOCK FALSE
