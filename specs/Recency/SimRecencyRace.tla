--------------------------- MODULE SimRecencyRace ---------------------------
(* Spec -> implementation: complete interleavings of RecencyRace.tla printed *)
(* as REPLAY lines (schedule of steps).  The harness executes each schedule   *)
(* on the real code, holding emitter threads inside the storage primitive at  *)
(* the points the schedule says; the recorded run is validated by             *)
(* TraceRecencyRace.  With GenFirst = TRUE (exhaustive search) the            *)
(* counterexample's `hist` is the schedule that loses an update.              *)
EXTENDS RecencyRace, Json
VARIABLE hist
SimInit == Init /\ hist = <<>>
L(e) == hist' = Append(hist, e)
SimNext == \/ \E u \in Updaters, d \in Deltas : UBegin(u, d) /\ L(<<"ubegin", u, d>>)
           \/ \E u \in Updaters : UStep1(u) /\ L(<<"ustep1", u>>)
           \/ \E u \in Updaters : UStep2(u) /\ L(<<"ustep2", u>>)
           \/ \E d \in {1, timeout - 1, timeout, timeout + 1} : d >= 1 /\ Tick(d) /\ L(<<"tick", d>>)
           \/ OGen /\ L(<<"ogen">>)
           \/ ODecide /\ L(<<"odecide", present'>>)
           \/ OVal /\ L(<<"oval">>)
SimSpec == SimInit /\ [][SimNext]_<<vars, hist>>
Emit == Finished => PrintT(<<"REPLAY", ToJson([mode |-> "race", timeout |-> timeout, ops |-> hist])>>)
=============================================================================
