---------------------------- MODULE SimRecency ----------------------------
(* Spec -> implementation: timelines of Recency.tla printed as REPLAY lines  *)
(* (configuration + operations, with the result the specification expects    *)
(* of every single observation).  The harness executes them on the real      *)
(* Registry + Recency (Mode = "direct") or on the Prometheus recorder        *)
(* (Mode = "prom": observations only as whole renders); the recorded run is  *)
(* validated by TraceRecency.  With INVARIANT StrictObserveExact (exhaustive *)
(* search) the counterexample's `hist` is the CF12 witness timeline.         *)
EXTENDS Recency, Json
CONSTANT Mode
VARIABLE hist
SimInit == Init /\ hist = <<>>
L(e) == hist' = Append(hist, e)
SimNext == \/ \E s \in Series : NewRegister(s) /\ L(<<"register", s[1], s[2]>>)
           \/ \E s \in Series : \E d \in Deltas(s[1]) : Update(s, d) /\ L(<<"update", s[1], s[2], d>>)
           \/ \E d \in TickSet : Tick(d) /\ L(<<"tick", d>>)
           \/ \E s \in Series : Mode = "direct" /\ Observe(s) /\ L(<<"observe", s[1], s[2], \A o \in obs' : o.keep>>)
           \/ Render /\ L(<<"render">>)
           \/ \E s \in Series : Mode = "direct" /\ RegRemove(s) /\ L(<<"remove", s[1], s[2]>>)
           \/ \E ob \in Observers : \E s \in Series : Mode = "direct" /\ Snap(ob, s) /\ L(<<"osnap", ob, s[1], s[2]>>)
           \/ \E ob \in Observers : Mode = "direct" /\ SlotDecide(ob) /\ L(<<"odecide", ob>>)
SimSpec == SimInit /\ [][SimNext]_<<vars, hist>>
Emit == steps = MaxSteps =>
          PrintT(<<"REPLAY", ToJson([mode |-> Mode, mask |-> mask, timeout |-> timeout, ops |-> hist])>>)
=============================================================================
