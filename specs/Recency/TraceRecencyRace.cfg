SPECIFICATION TraceSpec
CONSTANTS
 Updaters = {1,2}
 NUpd = 100000000
 NObs = 100000000
 Timeouts = {2}
 Deltas = {1}
 GenFirst = FALSE
 MaxNow = 100000000
INVARIANTS TypeOK DropOnlyIfQuiet DropWhenQuiet NothingLost FullValue
POSTCONDITION TraceAccepted
CHECK_DEADLOCK FALSE
