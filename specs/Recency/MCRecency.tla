---------------------------- MODULE MCRecency ----------------------------
(* Exhaustive configurations of Recency.tla: sets of sets and negative     *)
(* numbers cannot be written in a .cfg file.                               *)
EXTENDS Recency
AllMasks == SUBSET Kinds
FullMask == {Kinds}
TO_n23 == {None, 2, 3}      \* no timeout, 2 ticks, 3 ticks
TO_23 == {2, 3}
TO_2 == {2}
TO_n == {None}
=============================================================================
