SPECIFICATION Spec
CONSTANTS
 Threads = {1}
 Recs = {1,2,3}
 OpsA = 6
 OpsB = 0
 MaxOps <- MC_Ops
 MaxDepth = 3
 MaxCatch = 1
 FormIds = {1}
 Discipline = "lifo"
 Forgetting = FALSE
INVARIANTS TypeOK NoStaleDispatchStrict NoDanglingStrict InnermostWinsStrict TlsInnermostStrict ThreadIsolation ExactlyOnce PayloadFidelity FallThroughOrder SavedIsPrevious NeverDev
PROPERTIES RestoreOnScopeEnd
CHECK_DEADLOCK FALSE
