---------------------------- MODULE LocalRecorder ----------------------------
(* C01 -- metrics facade: an emission reaches exactly the recorder in scope.  *)
(*                                                                            *)
(* Mirrors metrics/src/recorder/mod.rs and metrics/src/macros.rs:             *)
(*   LOCAL_RECORDER (thread local Cell<Option<ptr>>)      -> tls[t]           *)
(*   LocalRecorderGuard { prev_recorder }                  -> live[t][i].prev  *)
(*   LocalRecorderGuard::new  = replace(Some(ptr)), keep the old value        *)
(*   Drop for LocalRecorderGuard = replace(prev_recorder)                     *)
(*   set_default_local_recorder(&r) -> guard the caller owns   (kind "guard") *)
(*   with_local_recorder(&r, f)     -> guard owned by the call (kind "closure")*)
(*   with_recorder: local, else GLOBAL_RECORDER, else NOOP_RECORDER           *)
(*   counter!/gauge!/histogram!/describe_*!  -> Emit(t, form)                 *)
(*                                                                            *)
(* What the borrow checker enforces is modelled by borrow[r]: a recorder may  *)
(* stop existing (EndBorrow) as soon as no guard created from it is alive --  *)
(* dropped guards and guards leaked with mem::forget do not keep it borrowed. *)
(*                                                                            *)
(* A guard writes back the pointer it saw when it was created.  That is only  *)
(* correct when guards end in reverse order of creation.  The offending       *)
(* patterns ("a guard ends while it is not the innermost live guard of its    *)
(* thread", "a guard is forgotten") set the history flag dev[t] (CF01).       *)
EXTENDS Naturals, Sequences, FiniteSets, TLC

CONSTANTS Threads,      \* thread ids (positive integers)
          Recs,         \* recorder ids (positive integers); 0 = no recorder
          MaxOps,       \* [Threads -> Nat]: scope operations per thread
          MaxDepth,     \* guards alive at once per thread
          MaxCatch,     \* catch_unwind frames open at once per thread
          FormIds,      \* macro call forms used by Emit (subset of DOMAIN FormTable)
          Discipline,   \* "any": guards may end in any order; "lifo": only innermost-first, never forgotten
          Forgetting    \* BOOLEAN: mem::forget(guard) occurs (only with Discipline = "any")

None == 0

VARIABLES tls,      \* [Threads -> Recs \cup {None}]   the thread-local pointer
          live,     \* [Threads -> Seq(guard)]         guards alive, in order of creation
          frames,   \* [Threads -> Seq({"closure","catch"})]  with_local_recorder / catch_unwind calls in progress
          borrow,   \* [Recs -> {"idle","active","ended"}]
          global,   \* Recs \cup {None}
          nops,     \* [Threads -> Nat]
          dev,      \* [Threads -> BOOLEAN]   CF01 deviation happened and the thread is not back to a clean state
          ever,     \* [Threads -> SUBSET Recs] recorders ever installed on the thread (ghost)
          last      \* the delivery of the Emit step that led to this state, or NoEmit

vars == <<tls, live, frames, borrow, global, nops, dev, ever, last>>

NoEmit == [t |-> 0]

-----------------------------------------------------------------------------
(* The macro call forms: what each call site spells.                         *)
(* Registration: <macro>!( [target: tg,] [level: lv,] name [, labels] )       *)
(*   tg = "" / lv = "" : prefix not written; md = module_path!() of the site  *)
(*   arm = the key_var! arm the tokens select (documentation)                 *)
(* The harness (harness/src/bin/c01.rs, mod forms) has one real invocation    *)
(* per row and macro, in this order.                                          *)
M1 == "c01::forms"
M2 == "c01::forms::inner"
L1 == << <<"k1", "v1">> >>
L2 == << <<"k1", "v1">>, <<"k2", "v2">> >>
RegArgs == <<
  \* ---- no prefix
  [tg |-> "",  lv |-> "",      nm |-> "c01_lit",        lb |-> <<>>, md |-> M1, arm |-> 1],
  [tg |-> "",  lv |-> "",      nm |-> "c01_owned",      lb |-> <<>>, md |-> M1, arm |-> 2],
  [tg |-> "",  lv |-> "",      nm |-> "c01_fmt",        lb |-> <<>>, md |-> M1, arm |-> 2],
  [tg |-> "",  lv |-> "",      nm |-> "c01_lit_l1",     lb |-> L1,   md |-> M1, arm |-> 3],
  [tg |-> "",  lv |-> "",      nm |-> "c01_lit_l2",     lb |-> L2,   md |-> M1, arm |-> 3],
  [tg |-> "",  lv |-> "",      nm |-> "c01_owned_l2",   lb |-> L2,   md |-> M1, arm |-> 4],
  [tg |-> "",  lv |-> "",      nm |-> "c01_lit_cv",     lb |-> << <<"k1", "cv1">> >>, md |-> M1, arm |-> 5],
  [tg |-> "",  lv |-> "",      nm |-> "c01_owned_cv",   lb |-> << <<"kc", "vc">>, <<"k2", "woo!">> >>, md |-> M1, arm |-> 5],
  [tg |-> "",  lv |-> "",      nm |-> "c01_lit_vec",    lb |-> << <<"dk1", "dv1">>, <<"dk2", "dv2">> >>, md |-> M1, arm |-> 6],
  [tg |-> "",  lv |-> "",      nm |-> "c01_owned_arr",  lb |-> L2,   md |-> M1, arm |-> 6],
  [tg |-> "",  lv |-> "",      nm |-> "c01_lit_labels", lb |-> << <<"lk1", "lv1">>, <<"lk2", "lv2">>, <<"lk3", "lv3">> >>, md |-> M1, arm |-> 6],
  [tg |-> "",  lv |-> "",      nm |-> "c01_lit_iter",   lb |-> << <<"lk1", "lv1">>, <<"lk2", "lv2">>, <<"lk3", "lv3">> >>, md |-> M1, arm |-> 6],
  [tg |-> "",  lv |-> "",      nm |-> "c01_lit_tc",     lb |-> L1,   md |-> M1, arm |-> 3],
  [tg |-> "",  lv |-> "",      nm |-> "c01_lit_empty",  lb |-> <<>>, md |-> M1, arm |-> 6],
  [tg |-> "",  lv |-> "",      nm |-> "c01_lit_dup",    lb |-> << <<"k", "a">>, <<"k", "b">> >>, md |-> M1, arm |-> 3],
  \* ---- target: and level:
  [tg |-> "tgt_a", lv |-> "DEBUG", nm |-> "c01_tl_lit",      lb |-> <<>>, md |-> M1, arm |-> 1],
  [tg |-> "tgt_b", lv |-> "TRACE", nm |-> "c01_tl_owned",    lb |-> <<>>, md |-> M1, arm |-> 2],
  [tg |-> "tgt_a", lv |-> "WARN",  nm |-> "c01_tl_lit_l1",   lb |-> L1,   md |-> M1, arm |-> 3],
  [tg |-> "tgt_c", lv |-> "ERROR", nm |-> "c01_tl_owned_l2", lb |-> L2,   md |-> M1, arm |-> 4],
  [tg |-> "tgt_a", lv |-> "INFO",  nm |-> "c01_tl_owned_cv", lb |-> << <<"kc", "vc">>, <<"k2", "woo!">> >>, md |-> M1, arm |-> 5],
  [tg |-> "tgt_b", lv |-> "DEBUG", nm |-> "c01_tl_lit_vec",  lb |-> << <<"dk1", "dv1">>, <<"dk2", "dv2">> >>, md |-> M1, arm |-> 6],
  \* ---- target: only  (level defaults to INFO)
  [tg |-> "tgt_a", lv |-> "",  nm |-> "c01_t_lit",       lb |-> <<>>, md |-> M1, arm |-> 1],
  [tg |-> "tgt_k", lv |-> "",  nm |-> "c01_t_lit_l2",    lb |-> L2,   md |-> M1, arm |-> 3],
  [tg |-> "tgt_b", lv |-> "",  nm |-> "c01_t_owned_cv",  lb |-> << <<"kc", "vc">>, <<"k2", "woo!">> >>, md |-> M1, arm |-> 5],
  [tg |-> "tgt_c", lv |-> "",  nm |-> "c01_t_owned_arr", lb |-> L2,   md |-> M1, arm |-> 6],
  \* ---- level: only  (target defaults to module_path!())
  [tg |-> "",  lv |-> "DEBUG", nm |-> "c01_l_lit",       lb |-> <<>>, md |-> M1, arm |-> 1],
  [tg |-> "",  lv |-> "ERROR", nm |-> "c01_l_lit_l1",    lb |-> L1,   md |-> M1, arm |-> 3],
  [tg |-> "",  lv |-> "TRACE", nm |-> "c01_l_lit_cv",    lb |-> << <<"k1", "cv1">> >>, md |-> M1, arm |-> 5],
  [tg |-> "",  lv |-> "WARN",  nm |-> "c01_l_lit_vec",   lb |-> << <<"dk1", "dv1">>, <<"dk2", "dv2">> >>, md |-> M1, arm |-> 6],
  \* ---- call sites in another module
  [tg |-> "",  lv |-> "",      nm |-> "c01_in_lit_l1",   lb |-> L1,   md |-> M2, arm |-> 3],
  [tg |-> "",  lv |-> "WARN",  nm |-> "c01_in_owned",    lb |-> <<>>, md |-> M2, arm |-> 2]
>>

(* Description: describe_<kind>!( name, [unit,] description );  un = "" : no unit written *)
DescArgs == <<
  [nm |-> "c01_d_lit",    un |-> "",        ds |-> "plain description"],
  [nm |-> "c01_d_unit",   un |-> "bytes",   ds |-> "with unit"],
  [nm |-> "c01_d_owned",  un |-> "",        ds |-> "owned name"],
  [nm |-> "c01_d_fmt",    un |-> "seconds", ds |-> "owned description"],
  [nm |-> "c01_d_count",  un |-> "count",   ds |-> "count unit"],
  [nm |-> "c01_d_cdesc",  un |-> "",        ds |-> "computed desc"],
  [nm |-> "c01_d_punit",  un |-> "percent", ds |-> "unit from a call"],
  [nm |-> "c01_d_tc",     un |-> "bytes",   ds |-> "trailing comma"]
>>

KindName == <<"counter", "gauge", "histogram">>
NReg  == Len(RegArgs)
NDesc == Len(DescArgs)
NForms == 3 * NReg + 3 * NDesc
IsReg(f)   == f \in 1..(3 * NReg)
KindOf(f)  == ((f - 1) % 3) + 1
RegRow(f)  == RegArgs[((f - 1) \div 3) + 1]
DescRow(f) == DescArgs[((f - 3 * NReg - 1) \div 3) + 1]

RegOp  == <<"register_counter", "register_gauge", "register_histogram">>
DescOp == <<"describe_counter", "describe_gauge", "describe_histogram">>

(* What the macros build, arm by arm (macros.rs).                              *)
(*   <kind>!(name ...)            -> <kind>!(target: module_path!(), level: INFO, name ...)  *)
(*   <kind>!(level: l, name ...)  -> <kind>!(target: module_path!(), level: l, name ...)     *)
(*   <kind>!(target: t, name ...) -> <kind>!(target: t, level: INFO, name ...)               *)
(*   <kind>!(target: t, level: l, name ...) -> key_var!(name ...), metadata_var!(t, l),      *)
(*                                             recorder.register_<kind>(&key, metadata)      *)
(*   metadata_var!(t, l) = Metadata::new(t, l, Some(module_path!()))                          *)
(*   key_var!: every arm keeps the name and all labels in the order written                  *)
FullArm(k, t, l, row) ==
  [op |-> RegOp[k], name |-> row.nm, labels |-> row.lb, level |-> l, target |-> t, mod |-> row.md,
   unit |-> "", desc |-> ""]
Expand(f) ==
  IF IsReg(f) THEN
    LET row == RegRow(f) k == KindOf(f) IN
    CASE row.tg # "" /\ row.lv # "" -> FullArm(k, row.tg, row.lv, row)
      [] row.tg # "" /\ row.lv = "" -> FullArm(k, row.tg, "INFO", row)
      [] row.tg = "" /\ row.lv # "" -> FullArm(k, row.md, row.lv, row)
      [] OTHER                      -> FullArm(k, row.md, "INFO", row)
  ELSE
    LET row == DescRow(f) k == KindOf(f) IN
    \* describe!(method, name, unit, description) -> Some(unit); describe!(method, name, description) -> None
    [op |-> DescOp[k], name |-> row.nm, labels |-> <<>>, level |-> "", target |-> "", mod |-> "",
     unit |-> row.un, desc |-> row.ds]

-----------------------------------------------------------------------------
DelAt(s, p) == [i \in 1..(Len(s) - 1) |-> IF i < p THEN s[i] ELSE s[i + 1]]

Innermost(t) == IF live[t] = <<>> THEN None ELSE live[t][Len(live[t])].rec
Clean(tl, lv) == tl = None /\ lv = <<>>

\* index of the most recently created closure-kind guard in a guard list (0 if none)
LastClosure(s) == LET C == {i \in DOMAIN s : s[i].kind = "closure"} IN
                  IF C = {} THEN 0 ELSE CHOOSE i \in C : \A j \in C : j <= i
NCatch(fr) == Cardinality({i \in DOMAIN fr : fr[i] = "catch"})
TopCatch(fr) == LET C == {i \in DOMAIN fr : fr[i] = "catch"} IN
                IF C = {} THEN 0 ELSE CHOOSE i \in C : \A j \in C : j <= i

\* the guard at position p of gl ends (Drop for LocalRecorderGuard): write back prev
EndGuard(s, p) == [tls  |-> s.live[p].prev,
                   live |-> DelAt(s.live, p),
                   off  |-> s.off \/ p # Len(s.live)]      \* offending: not the innermost live guard
RECURSIVE Unwind(_, _)
Unwind(s, k) == IF k = 0 THEN s ELSE Unwind(EndGuard(s, LastClosure(s.live)), k - 1)

DevAfter(t, tl, lv, off) == IF Clean(tl, lv) THEN FALSE ELSE (dev[t] \/ off)

Allowed(off) == Discipline = "any" \/ ~off
Budget(t) == nops[t] < MaxOps[t]
Tick(t) == nops' = [nops EXCEPT ![t] = @ + 1]

Init ==
  /\ tls = [t \in Threads |-> None]
  /\ live = [t \in Threads |-> <<>>]
  /\ frames = [t \in Threads |-> <<>>]
  /\ borrow = [r \in Recs |-> "idle"]
  /\ global = None
  /\ nops = [t \in Threads |-> 0]
  /\ dev = [t \in Threads |-> FALSE]
  /\ ever = [t \in Threads |-> {}]
  /\ last = NoEmit

(* LocalRecorderGuard::new(&r): kind = "guard" for set_default_local_recorder, *)
(* "closure" for with_local_recorder (the call stays on the frame stack).      *)
Install(t, r, kind) ==
  /\ Budget(t) /\ Len(live[t]) < MaxDepth
  /\ borrow[r] # "ended"
  /\ live' = [live EXCEPT ![t] = Append(@, [rec |-> r, prev |-> tls[t], kind |-> kind, was |-> Innermost(t)])]
  /\ tls' = [tls EXCEPT ![t] = r]
  /\ frames' = IF kind = "closure" THEN [frames EXCEPT ![t] = Append(@, "closure")] ELSE frames
  /\ borrow' = [borrow EXCEPT ![r] = "active"]
  /\ ever' = [ever EXCEPT ![t] = @ \cup {r}]
  /\ last' = NoEmit /\ Tick(t)
  /\ UNCHANGED <<global, dev>>

(* drop(guard) of a guard the program owns: any of them, in any order *)
DropGuard(t, p) ==
  /\ Budget(t) /\ p \in DOMAIN live[t] /\ live[t][p].kind = "guard"
  /\ LET s == EndGuard([tls |-> tls[t], live |-> live[t], off |-> FALSE], p) IN
     /\ Allowed(s.off)
     /\ tls' = [tls EXCEPT ![t] = s.tls]
     /\ live' = [live EXCEPT ![t] = s.live]
     /\ dev' = [dev EXCEPT ![t] = DevAfter(t, s.tls, s.live, s.off)]
  /\ last' = NoEmit /\ Tick(t)
  /\ UNCHANGED <<frames, borrow, global, ever>>

(* mem::forget(guard): the guard is gone, Drop never runs, the pointer stays *)
Forget(t, p) ==
  /\ Budget(t) /\ p \in DOMAIN live[t] /\ live[t][p].kind = "guard"
  /\ Allowed(TRUE) /\ Forgetting
  /\ live' = [live EXCEPT ![t] = DelAt(@, p)]
  /\ dev' = [dev EXCEPT ![t] = DevAfter(t, tls[t], DelAt(live[t], p), TRUE)]
  /\ last' = NoEmit /\ Tick(t)
  /\ UNCHANGED <<tls, frames, borrow, global, ever>>

(* std::panic::catch_unwind(|| ...) entered *)
OpenCatch(t) ==
  /\ Budget(t) /\ NCatch(frames[t]) < MaxCatch
  /\ frames' = [frames EXCEPT ![t] = Append(@, "catch")]
  /\ last' = NoEmit /\ Tick(t)
  /\ UNCHANGED <<tls, live, borrow, global, dev, ever>>

(* the innermost call in progress returns normally: with_local_recorder drops *)
(* its guard (whatever else was installed meanwhile), catch_unwind just ends  *)
Close(t) ==
  /\ Budget(t) /\ frames[t] # <<>>
  /\ frames' = [frames EXCEPT ![t] = SubSeq(@, 1, Len(@) - 1)]
  /\ IF frames[t][Len(frames[t])] = "catch"
     THEN UNCHANGED <<tls, live, dev>>
     ELSE LET s == Unwind([tls |-> tls[t], live |-> live[t], off |-> FALSE], 1) IN
          /\ Allowed(s.off)
          /\ tls' = [tls EXCEPT ![t] = s.tls]
          /\ live' = [live EXCEPT ![t] = s.live]
          /\ dev' = [dev EXCEPT ![t] = DevAfter(t, s.tls, s.live, s.off)]
  /\ last' = NoEmit /\ Tick(t)
  /\ UNCHANGED <<borrow, global, ever>>

(* panic!() : unwinds every with_local_recorder call above the nearest        *)
(* catch_unwind, innermost first; each one's guard is dropped                 *)
PanicDepth(t) == Cardinality({i \in DOMAIN frames[t] : i > TopCatch(frames[t]) /\ frames[t][i] = "closure"})
Panic(t) ==
  /\ Budget(t) /\ TopCatch(frames[t]) > 0
  /\ LET s == Unwind([tls |-> tls[t], live |-> live[t], off |-> FALSE], PanicDepth(t)) IN
     /\ Allowed(s.off)
     /\ tls' = [tls EXCEPT ![t] = s.tls]
     /\ live' = [live EXCEPT ![t] = s.live]
     /\ dev' = [dev EXCEPT ![t] = DevAfter(t, s.tls, s.live, s.off)]
  /\ frames' = [frames EXCEPT ![t] = SubSeq(@, 1, TopCatch(@) - 1)]
  /\ last' = NoEmit /\ Tick(t)
  /\ UNCHANGED <<borrow, global, ever>>

(* the borrow that installed r ends (r may be freed): allowed by the borrow   *)
(* checker once no guard created from r is alive                              *)
EndBorrow(r) ==
  /\ borrow[r] = "active" /\ r # global
  /\ \A t \in Threads : \A i \in DOMAIN live[t] : live[t][i].rec # r
  /\ borrow' = [borrow EXCEPT ![r] = "ended"]
  /\ last' = NoEmit
  /\ UNCHANGED <<tls, live, frames, global, nops, dev, ever>>

(* set_global_recorder(r): first call wins; r is 'static *)
SetGlobal(r) ==
  /\ global = None /\ borrow[r] # "ended"
  /\ global' = r
  /\ borrow' = [borrow EXCEPT ![r] = "active"]
  /\ last' = NoEmit
  /\ UNCHANGED <<tls, live, frames, nops, dev, ever>>

(* with_recorder: local > global > noop.  One call of the recorder method.    *)
Receiver(t) == IF tls[t] # None THEN [via |-> "local", r |-> tls[t]]
               ELSE IF global # None THEN [via |-> "global", r |-> global]
               ELSE [via |-> "noop", r |-> None]
Emit(t, f) ==
  /\ LET rc == Receiver(t) IN
     last' = [t |-> t, form |-> f, via |-> rc.via, r |-> rc.r,
              sc |-> IF rc.r = None THEN "static" ELSE borrow[rc.r],
              cnt |-> 1, payload |-> Expand(f)]
  /\ UNCHANGED <<tls, live, frames, borrow, global, nops, dev, ever>>

Next ==
  \/ \E t \in Threads :
       \/ \E r \in Recs, k \in {"guard", "closure"} : Install(t, r, k)
       \/ \E p \in 1..MaxDepth : DropGuard(t, p) \/ Forget(t, p)
       \/ OpenCatch(t) \/ Close(t) \/ Panic(t)
       \/ \E f \in FormIds : Emit(t, f)
  \/ \E r \in Recs : EndBorrow(r) \/ SetGlobal(r)

Spec == Init /\ [][Next]_vars

-----------------------------------------------------------------------------
(* Properties.  "K" versions = the property or the named deviation CF01.      *)
Expected(t) == IF Innermost(t) # None THEN [via |-> "local", r |-> Innermost(t)]
               ELSE IF global # None THEN [via |-> "global", r |-> global]
               ELSE [via |-> "noop", r |-> None]

Emitted == last # NoEmit

\* no emission is dispatched to a recorder whose borrow has ended
NoStaleDispatchStrict == Emitted /\ last.via = "local" => last.sc = "active"
NoStaleDispatch       == Emitted => (last.via = "local" => last.sc = "active") \/ dev[last.t]
\* state form: the installed pointer never dangles (every state is a possible emission point)
NoDanglingStrict == \A t \in Threads : tls[t] # None => borrow[tls[t]] = "active"
NoDangling       == \A t \in Threads : (tls[t] # None => borrow[tls[t]] = "active") \/ dev[t]

\* receiver = recorder of the most recently installed guard that is still alive, else global, else no-op
InnermostWinsStrict == Emitted => [via |-> last.via, r |-> last.r] = Expected(last.t)
InnermostWins       == Emitted => [via |-> last.via, r |-> last.r] = Expected(last.t) \/ dev[last.t]
TlsInnermostStrict  == \A t \in Threads : tls[t] = Innermost(t)
TlsInnermost        == \A t \in Threads : tls[t] = Innermost(t) \/ dev[t]

\* a locally installed recorder is never visible to another thread
ThreadIsolation == /\ \A t \in Threads : tls[t] # None => tls[t] \in ever[t]
                   /\ Emitted /\ last.via = "local" => last.r \in ever[last.t]

\* one emission = one recorder call, with the payload the call site spelled
ExactlyOnce == Emitted => last.cnt = 1
Spelled(f) ==  \* the reference: read off the call site, no macro knowledge
  IF IsReg(f) THEN LET row == RegRow(f) IN
       [op |-> RegOp[KindOf(f)], name |-> row.nm, labels |-> row.lb,
        level |-> IF row.lv = "" THEN "INFO" ELSE row.lv,
        target |-> IF row.tg = "" THEN row.md ELSE row.tg, mod |-> row.md, unit |-> "", desc |-> ""]
  ELSE LET row == DescRow(f) IN
       [op |-> DescOp[KindOf(f)], name |-> row.nm, labels |-> <<>>, level |-> "", target |-> "", mod |-> "",
        unit |-> row.un, desc |-> row.ds]
PayloadFidelity == Emitted => last.payload = Spelled(last.form)
AllFormsFaithful == \A f \in 1..NForms : Expand(f) = Spelled(f)

\* never delivered to the no-op recorder while a recorder is in scope, never to global while a local one is
FallThroughOrder == Emitted =>
   /\ (last.via = "noop" => tls[last.t] = None /\ global = None)
   /\ (last.via = "global" => tls[last.t] = None /\ last.r = global)

(* Ending the innermost scope -- guard dropped, closure returned, or a panic  *)
(* unwinding through with_local_recorder -- restores the recorder that was    *)
(* in scope before it (action property).                                      *)
EndsInnermost(t) == /\ Len(live'[t]) < Len(live[t])
                    /\ live'[t] = SubSeq(live[t], 1, Len(live'[t]))
\* (forgetting the innermost guard also shortens the list; it sets dev' and is not a scope END in this sense)
RestoreOnScopeEndStrict ==
  \A t \in Threads : EndsInnermost(t) /\ ~dev[t] /\ ~dev'[t] =>
       tls'[t] = live[t][Len(live'[t]) + 1].was
RestoreOnScopeEnd == [][RestoreOnScopeEndStrict]_vars
\* the same as a state-checkable statement: in a thread without deviation every live guard's saved pointer is
\* the recorder that was in scope when it was created
SavedIsPrevious == \A t \in Threads : dev[t] \/ \A i \in DOMAIN live[t] : live[t][i].prev = live[t][i].was

NeverDev == \A t \in Threads : ~dev[t]

TypeOK ==
  /\ tls \in [Threads -> Recs \cup {None}]
  /\ \A t \in Threads :
       /\ Len(live[t]) <= MaxDepth
       /\ \A i \in DOMAIN live[t] : live[t][i].rec \in Recs /\ live[t][i].prev \in Recs \cup {None}
                                    /\ live[t][i].kind \in {"guard", "closure"}
       /\ \A i \in DOMAIN frames[t] : frames[t][i] \in {"closure", "catch"}
       \* every with_local_recorder call in progress owns exactly one live closure guard
       /\ Cardinality({i \in DOMAIN frames[t] : frames[t][i] = "closure"})
            = Cardinality({i \in DOMAIN live[t] : live[t][i].kind = "closure"})
  /\ borrow \in [Recs -> {"idle", "active", "ended"}]
  /\ global \in Recs \cup {None}
  \* a live guard keeps its recorder borrowed
  /\ \A t \in Threads : \A i \in DOMAIN live[t] : borrow[live[t][i].rec] = "active"
  /\ global # None => borrow[global] = "active"
=============================================================================
