SPECIFICATION TraceSpec
CONSTANTS
 Threads = {1,2,3}
 Recs = {1,2,3,4,5,6}
 MaxOps <- TraceOps
 MaxDepth = 1000
 MaxCatch = 1000
 FormIds = {}
 Discipline = "any"
 Forgetting = TRUE
INVARIANTS TypeOK NoStaleDispatch NoDangling InnermostWins TlsInnermost ThreadIsolation ExactlyOnce PayloadFidelity FallThroughOrder SavedIsPrevious RestoreOnScopeEndObserved
POSTCONDITION TraceAccepted
CHECK_DEADLOCK FALSE
