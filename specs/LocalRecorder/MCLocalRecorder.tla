-------------------------- MODULE MCLocalRecorder --------------------------
(* Exhaustive configurations of LocalRecorder.tla: per-thread budgets of     *)
(* scope operations (thread 1 gets OpsA, every other thread OpsB).           *)
EXTENDS LocalRecorder
CONSTANTS OpsA, OpsB
MC_Ops == [t \in Threads |-> IF t = 1 THEN OpsA ELSE OpsB]
=============================================================================
