SPECIFICATION Spec
CONSTANTS
 Threads = {1}
 Recs = {1,2}
 OpsA = 4
 OpsB = 0
 MaxOps <- MC_Ops
 MaxDepth = 2
 MaxCatch = 1
 FormIds = {1}
 Discipline = "any"
 Forgetting = TRUE
INVARIANTS InnermostWinsStrict

CHECK_DEADLOCK FALSE
