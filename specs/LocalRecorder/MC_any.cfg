SPECIFICATION Spec
CONSTANTS
 Threads = {1,2}
 Recs = {1,2,3}
 MaxOps = 4
 MaxDepth = 3
 MaxCatch = 1
 FormIds = {1}
 Discipline = "any"
INVARIANTS TypeOK NoStaleDispatch NoDangling InnermostWins TlsInnermost ThreadIsolation ExactlyOnce PayloadFidelity FallThroughOrder SavedIsPrevious
PROPERTIES RestoreOnScopeEnd
CHECK_DEADLOCK FALSE
