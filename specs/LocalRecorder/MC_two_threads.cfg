SPECIFICATION Spec
CONSTANTS
 Threads = {1,2}
 Recs = {1,2}
 OpsA = 3
 OpsB = 3
 MaxOps <- MC_Ops
 MaxDepth = 2
 MaxCatch = 1
 FormIds = {1}
 Discipline = "any"
 Forgetting = TRUE
INVARIANTS TypeOK NoStaleDispatch NoDangling InnermostWins TlsInnermost ThreadIsolation ExactlyOnce PayloadFidelity FallThroughOrder SavedIsPrevious
PROPERTIES RestoreOnScopeEnd
CHECK_DEADLOCK FALSE
