SPECIFICATION Spec
CONSTANTS
 Threads = {1}
 Recs = {1,2,3}
 OpsA = 5
 OpsB = 0
 MaxOps <- MC_Ops
 MaxDepth = 3
 MaxCatch = 1
 FormIds = {1}
 Discipline = "any"
 Forgetting = TRUE
INVARIANTS TypeOK NoStaleDispatch NoDangling InnermostWins TlsInnermost ThreadIsolation ExactlyOnce PayloadFidelity FallThroughOrder SavedIsPrevious
PROPERTIES RestoreOnScopeEnd
CHECK_DEADLOCK FALSE
