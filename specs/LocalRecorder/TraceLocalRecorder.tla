------------------------ MODULE TraceLocalRecorder ------------------------
(* Trace validation (implementation -> specification) for C01.              *)
(* harness/src/bin/c01.rs runs scope programs on real OS threads against    *)
(* the real metrics crate (set_default_local_recorder, with_local_recorder, *)
(* mem::forget, panic! + catch_unwind, set_global_recorder in child         *)
(* processes, every macro form) with recorder doubles that are never freed  *)
(* and log every call they receive.  One ndjson line per operation:         *)
(*   reset                                       start of a run             *)
(*   install {t,r,kind}   drop {t,p}   forget {t,p}   catch {t}              *)
(*   close {t,what}       panic {t,n}  end_borrow {r} set_global {r,ok}      *)
(*   emit {t,form,dl}     dl = the recorder calls observed during the macro  *)
(* Every line must be the corresponding action of LocalRecorder.tla in the   *)
(* current state, and the observed deliveries must be the one delivery the   *)
(* specification computes (receiver, its borrow state, calling thread,       *)
(* payload).  All invariants of LocalRecorder.tla are checked in every state.*)
EXTENDS LocalRecorder, Json, IOUtils, TLCExt
VARIABLES l,
          rst   \* the step that led to this state satisfied RestoreOnScopeEndStrict (the action property as a state flag)
Rec == ndJsonDeserialize(IOEnv.TRACE)
tvars == <<vars, l, rst>>
TraceOps == [t \in Threads |-> 1000000]

E == Rec[l]
Ev == E.ev
Adv == l' = l + 1
Obs(cond) == cond /\ Adv /\ UNCHANGED vars

Reset ==
  /\ tls' = [t \in Threads |-> None]
  /\ live' = [t \in Threads |-> <<>>]
  /\ frames' = [t \in Threads |-> <<>>]
  /\ borrow' = [r \in Recs |-> "idle"]
  /\ global' = None
  /\ nops' = [t \in Threads |-> 0]
  /\ dev' = [t \in Threads |-> FALSE]
  /\ ever' = [t \in Threads |-> {}]
  /\ last' = NoEmit

PayloadOf(d) == [op |-> d.op, name |-> d.name, labels |-> d.labels, level |-> d.level, target |-> d.target,
                 mod |-> d.mod, unit |-> d.unit, desc |-> d.desc]

\* the finding is printed only when it is observed on the real code: a delivery logged by a recorder double
\* whose borrow has ended, or by a recorder that is not the one in scope -- in a thread with the deviation
\* (TLC registers 41 / 42 count the observations; each kind is printed once per validated file)
Report(t, rc) ==
  /\ IF dev[t] /\ rc.via = "local" /\ borrow[rc.r] # "active"
     THEN /\ (TLCGet(41) = 0 => PrintT(<<"KNOWN", "CF01", "stale dispatch at line", l, t, rc.r>>))
          /\ TLCSet(41, TLCGet(41) + 1)
     ELSE TRUE
  /\ IF dev[t] /\ [via |-> rc.via, r |-> rc.r] # Expected(t)
     THEN /\ (TLCGet(42) = 0 => PrintT(<<"KNOWN", "CF01", "misdirected dispatch at line", l, t, rc.r, Expected(t).r>>))
          /\ TLCSet(42, TLCGet(42) + 1)
     ELSE TRUE

EmitEv ==
  LET t == E.t  f == E.form  dl == E.dl  rc == Receiver(t) IN
  /\ t \in Threads /\ f \in 1..NForms
  /\ Emit(t, f)
  /\ IF rc.via = "noop" THEN dl = <<>>                  \* nothing observable: no double was called
     ELSE /\ Len(dl) = 1                                \* exactly one recorder call
          /\ dl[1].p = rc.r                             \* by the receiver the specification computes
          /\ dl[1].th = t                               \* on the emitting thread
          /\ dl[1].sc = borrow[rc.r]                    \* the double's borrow state is the specification's
          /\ PayloadOf(dl[1]) = Expand(f)               \* what the macro built = what the model of the macro builds
  /\ Report(t, rc)

TraceNext ==
  /\ l <= Len(Rec)
  /\ Adv
  \* (a guard that could be sent to another thread would end its scope there: the specification's DropGuard(t, p) is an
  \*  action of the thread that installed it, which the library enforces through LocalRecorderGuard being !Send / !Sync)
  /\ CASE Ev = "reset"      -> Reset /\ (("gsend" \in DOMAIN E) => (~E.gsend /\ ~E.gsync))
       [] Ev = "install"    -> E.t \in Threads /\ E.r \in Recs /\ E.kind \in {"guard", "closure"} /\ Install(E.t, E.r, E.kind)
       [] Ev = "drop"       -> E.t \in Threads /\ DropGuard(E.t, E.p)
       [] Ev = "forget"     -> E.t \in Threads /\ Forget(E.t, E.p)
       [] Ev = "catch"      -> E.t \in Threads /\ OpenCatch(E.t)
       [] Ev = "close"      -> E.t \in Threads /\ frames[E.t] # <<>> /\ frames[E.t][Len(frames[E.t])] = E.what /\ Close(E.t)
       [] Ev = "panic"      -> E.t \in Threads /\ TopCatch(frames[E.t]) > 0 /\ PanicDepth(E.t) = E.n /\ Panic(E.t)
       [] Ev = "end_borrow" -> E.r \in Recs /\ EndBorrow(E.r)
       [] Ev = "set_global" -> /\ E.r \in Recs
                               /\ IF global = None THEN E.ok /\ SetGlobal(E.r)
                                  ELSE ~E.ok /\ UNCHANGED vars      \* set_global_recorder returned Err, nothing changes
       [] Ev = "emit"       -> EmitEv
       [] OTHER -> FALSE        \* crash / unknown event: not a behaviour
  /\ rst' = RestoreOnScopeEndStrict

TraceInit == Init /\ l = 1 /\ rst = TRUE /\ TLCSet(41, 0) /\ TLCSet(42, 0)
RestoreOnScopeEndObserved == rst
TraceSpec == TraceInit /\ [][TraceNext]_tvars
TraceAccepted ==
  LET d == TLCGet("stats").diameter IN
  IF d - 1 = Len(Rec) THEN PrintT(<<"CF01 observations (stale, misdirected)", TLCGet(41), TLCGet(42)>>)
  ELSE Print(<<"TRACE REJECTED at line", d, Rec[d]>>, FALSE)
=============================================================================
