------------------------------ MODULE MCHandles ------------------------------
(* Exhaustive configurations of Handles.tla: handle tables and operation alphabets
   (records cannot be written in a .cfg).  cfgs: MC_counter, MC_gauge, MC_gaugecas,
   MC_hist, MC_mixed, WIT_noretry (must violate NoLostUpdate). *)
EXTENDS Handles

H(k, c, s) == [kind |-> k, cell |-> c, shape |-> s]

\* ---- counter: handle 1 = from_arc(cell 1), 2 = its clone, 3 = noop
HTCounter == (1 :> H("counter", 1, "-")) @@ (2 :> H("counter", 1, "-")) @@ (3 :> H("counter", 0, "-"))
CVals == {0, 1, 7, 8, 15}          \* with W = 16: 8 <-> 2^63, 15 <-> u64::MAX (= -1)
AlphaCounter == {Op(h, op, "u64", a, 0, 0) : h \in {1, 2}, op \in {"inc", "abs"}, a \in CVals}
                  \cup {Op(3, "inc", "u64", 1, 0, 0), Op(3, "abs", "u64", 15, 0, 0)}

\* ---- gauge: handle 1 = from_arc(cell 1), 2 = clone, 3 = noop
HTGauge == (1 :> H("gauge", 1, "-")) @@ (2 :> H("gauge", 1, "-")) @@ (3 :> H("gauge", 0, "-"))
GVals == {0, NZero, 1, 0 - 2, NaN, PInf, NInf}
AlphaGauge == {Op(h, op, "f64", a, 0, 0) : h \in {1, 2}, op \in {"inc", "dec", "set"}, a \in GVals}
                \cup {Op(3, "inc", "f64", 1, 0, 0), Op(3, "dec", "f64", NaN, 0, 0), Op(3, "set", "f64", PInf, 0, 0)}
                \cup {Op(1, "inc", "dur", 1, 1, 0), Op(2, "dec", "u8", 3, 0, 0), Op(1, "set", "i8", 0 - 2, 0, 0)}
\* FineCas: fewer values (the state carries the loaded value and the operation in flight per thread)
AlphaGaugeCas == {Op(1, op, "f64", a, 0, 0) : op \in {"inc", "dec"}, a \in {1, 0 - 2, PInf}}
                   \cup {Op(2, "set", "f64", 5, 0, 0), Op(2, "inc", "f64", NInf, 0, 0), Op(3, "inc", "f64", 1, 0, 0)}

\* the same plus signed zeros (bits are what compare_exchange compares: -0 and +0 are different cell contents)
AlphaGaugeCasZ == AlphaGaugeCas \cup {Op(2, "set", "f64", NZero, 0, 0), Op(1, "inc", "f64", 0, 0, 0), Op(1, "dec", "f64", NZero, 0, 0)}

\* ---- histogram: 1 = default record_many (loop) on storage 1, 2 = clone, 3 = overriding storage 2, 4 = noop
HTHist == (1 :> H("hist", 1, "loop")) @@ (2 :> H("hist", 1, "loop")) @@ (3 :> H("hist", 2, "many")) @@ (4 :> H("hist", 0, "-"))
AlphaHist == {Op(h, "rec", "f64", a, 0, 1) : h \in {1, 2, 3, 4}, a \in {1, NaN}}
               \cup {Op(h, "many", "f64", 1, 0, n) : h \in {1, 2, 3, 4}, n \in {0, 2}}
               \cup {Op(3, "many", "dur", 0, 3, BigN), Op(1, "many", "u16", 65535, 0, 3), Op(3, "many", "f64", PInf, 0, 1)}

\* ---- all kinds together (independence of the storages)
HTMixed == (1 :> H("counter", 1, "-")) @@ (2 :> H("counter", 2, "-")) @@ (3 :> H("gauge", 3, "-")) @@ (4 :> H("gauge", 4, "-"))
             @@ (5 :> H("hist", 5, "loop")) @@ (6 :> H("counter", 0, "-")) @@ (7 :> H("gauge", 0, "-")) @@ (8 :> H("hist", 0, "-"))
AlphaMixed == {Op(h, op, "u64", a, 0, 0) : h \in {1, 2, 6}, op \in {"inc", "abs"}, a \in {1, 15}}
                \cup {Op(h, op, "f64", a, 0, 0) : h \in {3, 4, 7}, op \in {"inc", "set"}, a \in {1, NInf}}
                \cup {Op(h, "many", "f64", 1, 0, 2) : h \in {5, 8}}

\* ---- conformance world (trace validation, replay)
\* the world built by harness/src/bin/c04.rs (fn World::new)
WorldHT ==
  (1 :> H("counter", 1, "-")) @@     \* Counter::from_arc(Arc<AtomicU64>)
  (2 :> H("counter", 1, "-")) @@     \* its clone
  (3 :> H("counter", 0, "-")) @@     \* Counter::noop()
  (4 :> H("counter", 2, "-")) @@     \* Counter::from(Arc<AtomicU64>) (From impl), second storage
  (5 :> H("gauge", 3, "-")) @@       \* Gauge::from_arc(Arc<AtomicU64>)
  (6 :> H("gauge", 3, "-")) @@       \* its clone
  (7 :> H("gauge", 0, "-")) @@       \* Gauge::noop()
  (8 :> H("gauge", 4, "-")) @@       \* Gauge::from(Arc<AtomicU64>)
  (9 :> H("hist", 5, "loop")) @@     \* Histogram::from_arc(probe with the default record_many)
  (10 :> H("hist", 5, "loop")) @@    \* its clone
  (11 :> H("hist", 6, "many")) @@    \* probe overriding record_many
  (12 :> H("hist", 0, "-")) @@       \* Histogram::noop()
  (13 :> H("hist", 7, "loop"))       \* Histogram::from_arc(Arc<Arc<overriding probe>>): `impl HistogramFn for Arc<T>` forwards record only
=============================================================================
