----------------------------- MODULE SimHandles -----------------------------
(* spec -> impl: TLC generates operation sequences over the conformance world *)
(* (every handle, operation, value class and IntoF64 type); the harness runs  *)
(* each on the real handles (c04 replay) and TraceHandles validates the log.  *)
(* Full = TRUE with -simulate: random sequences of length K over everything;  *)
(* Full = FALSE exhaustively (BFS): EVERY sequence of length K over a reduced *)
(* alphabet.                                                                  *)
EXTENDS MCHandles, Json, Randomization
CONSTANTS K, Full
VARIABLES prog, fin

TV(ty, a, b) == <<ty, a, b>>
ArithVals ==                                   \* values that may take part in additions
  {TV("f64", a, 0) : a \in {0, NZero, 1, 2, 0 - 6, 10, NaN, PInf, NInf, 67108868}}
    \cup {TV("f32", a, 0) : a \in {0, NZero, 1, 0 - 6, NaN, PInf, NInf, 67108864}}
    \cup {TV("i8", 0 - 128, 0), TV("i8", 127, 0), TV("u8", 255, 0), TV("u8", 0, 0), TV("i16", 0 - 32768, 0), TV("i16", 32767, 0),
          TV("u16", 65535, 0), TV("i32", 0 - 16777217, 0), TV("i32", 16777217, 0), TV("u32", 16777217, 0),
          TV("dur", 0, 0), TV("dur", 1, 1), TV("dur", 2, 3), TV("dur", 0, 2)}
AllVals == ArithVals \cup {TV("i32", 0 - 100000001, 0), TV("i32", 100000001, 0), TV("u32", 100000001, 0)}
\* every way to pass a zero: +0.0 / -0.0 as f64 and f32, integer zeros, the zero Duration
ZeroVals == {TV("f64", 0, 0), TV("f64", NZero, 0), TV("f32", 0, 0), TV("f32", NZero, 0), TV("u32", 0, 0), TV("i8", 0, 0),
             TV("u8", 0, 0), TV("dur", 0, 0)}
CRing == {0, 1, 2, 1000, 3001, 7999, 8000, 15000, 15998, 15999}

\* One random operation per step (a single successor: generating all ~1100 successors of every state and
\* checking the invariants on each made -simulate crawl at 2 behaviours/s).  Every RandomElement is bound
\* through a singleton set so that it is evaluated exactly once.
RandStep(A(_)) ==
  \E c \in {RandomElement(1..10)} :
  \E h1 \in {RandomElement({1, 2, 3, 4})}, h2 \in {RandomElement({5, 6, 7, 8})}, h3 \in {RandomElement({9, 10, 11, 12, 13})},
     h4 \in {RandomElement({11, 12})}, a \in {RandomElement(CRing)}, va \in {RandomElement(ArithVals)}, v \in {RandomElement(AllVals)},
     vz \in {RandomElement(ZeroVals)}, gz \in {RandomElement({"inc", "dec", "set", "set"})}, hz \in {RandomElement({5, 6})},
     co \in {RandomElement({"inc", "abs"})}, go \in {RandomElement({"inc", "dec"})}, n \in {RandomElement({0, 1, 2, 3})} :
    A(CASE c = 1 -> Op(h1, co, "u64", a, 0, 0)
        [] c = 2 -> Op(h2, go, va[1], va[2], va[3], 0)
        [] c = 3 -> Op(h2, "set", v[1], v[2], v[3], 0)
        [] c = 4 -> Op(h3, "rec", v[1], v[2], v[3], 1)
        [] c \in {5, 6} -> Op(h3, "many", v[1], v[2], v[3], n)
        \* usize::MAX only where record_many is overridden (or the handle is a no-op): the default impl would loop for ever
        \* signed zeros on one gauge cell through the handle and its clone (c = 8..10)
        [] c \in {8, 9, 10} -> Op(hz, gz, vz[1], vz[2], vz[3], 0)
        [] c = 7 -> IF n = 0 THEN Op(h4, "many", v[1], v[2], v[3], BigN) ELSE Op(h2, go, va[1], va[2], va[3], 0))

SimSmall ==
  {Op(h, op, "u64", a, 0, 0) : h \in {1, 2, 3}, op \in {"inc", "abs"}, a \in {1, 8000, 15999}}
    \cup {Op(h, op, "f64", a, 0, 0) : h \in {5, 6, 7}, op \in {"inc", "dec", "set"}, a \in {0, NZero, 1, 0 - 6, NaN, PInf, NInf}}
    \cup {Op(5, "inc", "u32", 0, 0, 0), Op(6, "dec", "f32", NZero, 0, 0), Op(5, "inc", "dur", 0, 0, 0)}
    \cup {Op(h, "rec", "f64", a, 0, 1) : h \in {9, 11, 12, 13}, a \in {1, NaN, NZero}}
    \cup {Op(h, "many", "f64", 1, 0, n) : h \in {9, 11, 12, 13}, n \in {0, 2}}

Take(o) == Do(1, o) /\ prog' = Append(prog, o)
SimInit == Init /\ prog = <<>> /\ fin = FALSE
SimNext == \/ /\ Len(prog) < K /\ UNCHANGED fin
              /\ IF Full THEN RandStep(Take) ELSE \E o \in SimSmall : Take(o)
           \/ /\ Len(prog) = K /\ ~fin /\ fin' = TRUE /\ UNCHANGED <<vars, prog>>
SimSpec == SimInit /\ [][SimNext]_<<vars, prog, fin>>
Emit == fin => PrintT(<<"REPLAY", ToJson([ops |-> prog])>>)
=============================================================================
