SPECIFICATION Spec
CONSTANTS
 Threads = {1,2,3}
 MaxOps = 3
 W = 16
 HT <- HTGauge
 Alphabet <- AlphaGauge
 FineCas = FALSE
 Retry = TRUE
INVARIANTS TypeOK IncOnlySum AbsMonotone AbsFloor NoLostUpdate SetExact ExactlyN 
CHECK_DEADLOCK FALSE
