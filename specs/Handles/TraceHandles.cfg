SPECIFICATION TraceSpec
CONSTANTS
 Threads = {1}
 MaxOps = 1000000
 W = 16000
 HT <- WorldHT
 Alphabet = {}
 FineCas = FALSE
 Retry = TRUE
INVARIANTS TypeOK IncOnlySum AbsMonotone AbsFloor NoLostUpdate SetExact ExactlyN
POSTCONDITION TraceAccepted
CHECK_DEADLOCK FALSE
