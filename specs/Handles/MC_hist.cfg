SPECIFICATION Spec
CONSTANTS
 Threads = {1,2,3}
 MaxOps = 2
 W = 16
 HT <- HTHist
 Alphabet <- AlphaHist
 FineCas = FALSE
 Retry = TRUE
INVARIANTS TypeOK IncOnlySum AbsMonotone AbsFloor NoLostUpdate SetExact ExactlyN 
CHECK_DEADLOCK FALSE
