------------------------------- MODULE Handles -------------------------------
(***************************************************************************)
(* metrics/src/handles.rs (Counter, Gauge, Histogram: Option<Arc<dyn Fn>>,  *)
(* clone, noop, from_arc, record_many default impl), metrics/src/atomics.rs *)
(* (CounterFn / GaugeFn for AtomicU64) and IntoF64 (metrics/src/common.rs). *)
(*                                                                         *)
(* A handle h is HT[h] = [kind, cell, shape]: cell = 0 is a no-op handle    *)
(* (inner = None); handles with the same cell are clones / built from the  *)
(* same Arc.  Every handle operation is ONE atomic action (its              *)
(* linearization point):                                                   *)
(*   counter  inc(v) : fetch_add           c' = (c + v) % W                 *)
(*            abs(v) : fetch_max           c' = max(c, v)                   *)
(*   gauge    inc(v) : fetch_update(+)     g' = g (+) v      IEEE table     *)
(*            dec(v) : fetch_update(-)     g' = g (+) neg(v)                *)
(*            set(v) : swap                g' = v                           *)
(*   hist     rec(v)   : HistogramFn::record(v)                             *)
(*            many(v,n): HistogramFn::record_many(v,n) (default: n records) *)
(* With FineCas = TRUE the gauge inc/dec are refined to what fetch_update   *)
(* does: load, then compare_exchange until it succeeds (Retry = TRUE); the  *)
(* atomic-level value is kept alongside in `ref` and NoLostUpdate says the  *)
(* loop implements the atomic action.  Retry = FALSE is the witness config  *)
(* (single compare_exchange, failure ignored) that must violate it.        *)
(*                                                                         *)
(* Values (DESIGN 3.5).  Counter: the ring 0..W-1 (exhaustive W = 16;       *)
(* conformance W = 16000: x = hi*1000 + lo <-> hi*2^60 + lo mod 2^64, so    *)
(* 15999 <-> u64::MAX, 8000 <-> 2^63).  f64: integers n <-> n/4 (exact      *)
(* dyadic arithmetic; 0 is +0.0) and four symbolic values NaN, +Inf, -Inf,  *)
(* -0.0 with the IEEE table (signed zeros included: bit-exact cells).       *)
(***************************************************************************)
EXTENDS Integers, Sequences, FiniteSets, TLC

CONSTANTS Threads,     \* thread ids
          MaxOps,      \* operations per thread
          W,           \* counter modulus (model of 2^64)
          HT,          \* handle table: id -> [kind |-> "counter"|"gauge"|"hist", cell |-> 0.., shape |-> "loop"|"many"|"-"]
          Alphabet,    \* set of operations a thread may issue (Op records)
          FineCas,     \* refine gauge inc/dec into load + compare_exchange steps
          Retry        \* the compare_exchange loop retries on failure (the code); FALSE = witness

NaN  == 1000001       \* symbolic f64 values (never produced by integer arithmetic of the scopes used)
PInf == 1000002
NInf == 1000003
NZero == 1000004      \* -0.0 (the integer 0 is +0.0): distinct bit patterns, distinct model values
Specials == {NaN, PInf, NInf}
BigN == 2000000       \* the count usize::MAX

Op(h, op, ty, a, b, n) == [h |-> h, op |-> op, ty |-> ty, a |-> a, b |-> b, n |-> n]

Handles == DOMAIN HT
ACells  == {HT[h].cell : h \in {x \in Handles : HT[x].kind \in {"counter", "gauge"}}} \ {0}
CCells  == {HT[h].cell : h \in {x \in Handles : HT[x].kind = "counter"}} \ {0}
GCells  == {HT[h].cell : h \in {x \in Handles : HT[x].kind = "gauge"}} \ {0}
HCells  == {HT[h].cell : h \in {x \in Handles : HT[x].kind = "hist"}} \ {0}

-----------------------------------------------------------------------------
(* IEEE-754 addition (round to nearest) on integers \cup {NaN, +Inf, -Inf, -0}; the integer 0 is +0.0.
   Signed zeros: -0 + -0 = -0;  -0 + x = x + -0 = x for every other x (so -0 + +0 = +0);  x + (-x) = +0 for
   finite x (the integer sum 0);  negation flips the sign of zero, so  +0 - +0 = +0 + -0 = +0,
   -0 - -0 = -0 + +0 = +0,  -0 - +0 = -0 + -0 = -0,  +0 - -0 = +0. *)
Add(x, y) ==
  IF x = NaN \/ y = NaN THEN NaN
  ELSE IF x = PInf THEN (IF y = NInf THEN NaN ELSE PInf)
  ELSE IF x = NInf THEN (IF y = PInf THEN NaN ELSE NInf)
  ELSE IF y \in {PInf, NInf} THEN y
  ELSE IF x = NZero THEN y             \* y = -0 gives -0, anything else is unchanged
  ELSE IF y = NZero THEN x
  ELSE x + y
Neg(x) == IF x = NaN THEN NaN ELSE IF x = PInf THEN NInf ELSE IF x = NInf THEN PInf
          ELSE IF x = NZero THEN 0 ELSE IF x = 0 THEN NZero ELSE 0 - x
Sub(x, y) == Add(x, Neg(y))

(* IntoF64 (common.rs): f64 identity; f32/i8..u32 via f64::from (exact); Duration::as_secs_f64.
   Model unit of f64 values is 1/4: an integer-typed k is 4k; Duration = a seconds + b quarter seconds. *)
IntTypes == {"i8", "u8", "i16", "u16", "i32", "u32"}
IntoF64(ty, a, b) ==
  CASE ty \in {"f64", "f32"} -> a
    [] ty = "dur"            -> 4 * a + b
    [] ty \in IntTypes       -> 4 * a
    [] OTHER                 -> a

MaxOf(x, y) == IF x >= y THEN x ELSE y

GApply(op, g, v) == CASE op = "inc" -> Add(g, v) [] op = "dec" -> Sub(g, v) [] op = "set" -> v

(* delivery bag: function value -> copies *)
BagAdd(B, v, k) == IF k = 0 THEN B ELSE IF v \in DOMAIN B THEN [B EXCEPT ![v] = @ + k] ELSE B @@ (v :> k)
NoBag == [x \in {} |-> 0]
\* the default impl of HistogramFn::record_many:  for _ in 0..count { self.record(value) }
RECURSIVE LoopRec(_, _, _, _)
LoopRec(B, v, i, n) == IF i >= n THEN B ELSE LoopRec(BagAdd(B, v, 1), v, i + 1, n)

-----------------------------------------------------------------------------
VARIABLES
  cval,     \* atomic cell -> value (counter: 0..W-1; gauge: model f64)
  hlog,     \* histogram storage -> bag of delivered values (what the HistogramFn behind it received)
  hcalls,   \* histogram storage -> number of calls it received (record or record_many)       [shape]
  nops,     \* thread -> operations completed
  pc, ld, cur,   \* FineCas: thread pc ("idle" | "cas"), value loaded, operation in flight
  ref,      \* gauge cell -> value of the atomic-level specification (updated at linearization points) [history]
  cinc,     \* counter cell -> sum of all increments mod W                                    [history]
  cmax,     \* counter cell -> largest absolute value given (0 if none)                       [history]
  conly,    \* counter cell -> only increments so far                                         [history]
  cnowrap,  \* counter cell -> no increment wrapped around                                    [history]
  absok,    \* every absolute step: new >= old and new >= v                                   [history]
  setok,    \* every completed set(v) left exactly v                                          [history]
  hexp      \* histogram storage -> bag of values requested (v, n times)                      [history]

vars == <<cval, hlog, hcalls, nops, pc, ld, cur, ref, cinc, cmax, conly, cnowrap, absok, setok, hexp>>

WellFormed(o) ==
  /\ o.h \in Handles
  /\ CASE HT[o.h].kind = "counter" -> o.op \in {"inc", "abs"} /\ o.a \in 0..(W-1)
       [] HT[o.h].kind = "gauge"   -> o.op \in {"inc", "dec", "set"}
       [] HT[o.h].kind = "hist"    -> o.op \in {"rec", "many"} /\ o.n >= 0

NoOp == Op(0, "-", "-", 0, 0, 0)

Init ==
  /\ cval = [c \in ACells |-> 0]
  /\ hlog = [c \in HCells |-> NoBag] /\ hcalls = [c \in HCells |-> 0]
  /\ nops = [t \in Threads |-> 0]
  /\ pc = [t \in Threads |-> "idle"] /\ ld = [t \in Threads |-> 0] /\ cur = [t \in Threads |-> NoOp]
  /\ ref = [c \in GCells |-> 0]
  /\ cinc = [c \in CCells |-> 0] /\ cmax = [c \in CCells |-> 0]
  /\ conly = [c \in CCells |-> TRUE] /\ cnowrap = [c \in CCells |-> TRUE]
  /\ absok = TRUE /\ setok = TRUE
  /\ hexp = [c \in HCells |-> NoBag]
  /\ \A o \in Alphabet : WellFormed(o)

Fin(t) == /\ nops' = [nops EXCEPT ![t] = @ + 1]
Idle(t) == pc[t] = "idle" /\ nops[t] < MaxOps

\* ---- no-op handle: inner = None, nothing happens
NoopOp(t, o) ==
  /\ Idle(t) /\ HT[o.h].cell = 0
  /\ Fin(t)
  /\ UNCHANGED <<cval, hlog, hcalls, pc, ld, cur, ref, cinc, cmax, conly, cnowrap, absok, setok, hexp>>

\* ---- Counter::increment -> AtomicU64::fetch_add (wrapping)
CInc(t, o) ==
  LET c == HT[o.h].cell IN
  /\ Idle(t) /\ o.op = "inc" /\ HT[o.h].kind = "counter" /\ c # 0
  /\ cval' = [cval EXCEPT ![c] = (@ + o.a) % W]
  /\ cinc' = [cinc EXCEPT ![c] = (@ + o.a) % W]
  /\ cnowrap' = [cnowrap EXCEPT ![c] = @ /\ cval[c] + o.a < W]
  /\ Fin(t)
  /\ UNCHANGED <<hlog, hcalls, pc, ld, cur, ref, cmax, conly, absok, setok, hexp>>

\* ---- Counter::absolute -> AtomicU64::fetch_max
CAbs(t, o) ==
  LET c == HT[o.h].cell IN
  /\ Idle(t) /\ o.op = "abs" /\ HT[o.h].kind = "counter" /\ c # 0
  /\ cval' = [cval EXCEPT ![c] = MaxOf(@, o.a)]
  /\ cmax' = [cmax EXCEPT ![c] = MaxOf(@, o.a)]
  /\ conly' = [conly EXCEPT ![c] = FALSE]
  /\ absok' = (absok /\ cval'[c] >= cval[c] /\ cval'[c] >= o.a)
  /\ Fin(t)
  /\ UNCHANGED <<hlog, hcalls, pc, ld, cur, ref, cinc, cnowrap, setok, hexp>>

\* ---- Gauge::{increment,decrement,set}(T: IntoF64) as one atomic action
GAtomic(t, o) ==
  LET c == HT[o.h].cell
      v == IntoF64(o.ty, o.a, o.b) IN
  /\ Idle(t) /\ HT[o.h].kind = "gauge" /\ c # 0
  /\ (o.op = "set" \/ ~FineCas)
  /\ cval' = [cval EXCEPT ![c] = GApply(o.op, @, v)]
  /\ ref' = [ref EXCEPT ![c] = GApply(o.op, @, v)]
  /\ setok' = (setok /\ (o.op = "set" => cval'[c] = v))
  /\ Fin(t)
  /\ UNCHANGED <<hlog, hcalls, pc, ld, cur, cinc, cmax, conly, cnowrap, absok, hexp>>

\* ---- FineCas: fetch_update = load; loop { compare_exchange_weak(prev, f(prev)) }
GLoad(t, o) ==
  LET c == HT[o.h].cell IN
  /\ FineCas /\ Idle(t) /\ o.op \in {"inc", "dec"} /\ HT[o.h].kind = "gauge" /\ c # 0
  /\ pc' = [pc EXCEPT ![t] = "cas"] /\ ld' = [ld EXCEPT ![t] = cval[c]] /\ cur' = [cur EXCEPT ![t] = o]
  /\ UNCHANGED <<cval, hlog, hcalls, nops, ref, cinc, cmax, conly, cnowrap, absok, setok, hexp>>

GCas(t) ==
  LET o == cur[t]
      c == HT[o.h].cell
      v == IntoF64(o.ty, o.a, o.b)
      Done == pc' = [pc EXCEPT ![t] = "idle"] /\ ld' = [ld EXCEPT ![t] = 0] /\ cur' = [cur EXCEPT ![t] = NoOp] /\ Fin(t) IN
  /\ pc[t] = "cas"
  /\ IF cval[c] = ld[t]
       THEN /\ cval' = [cval EXCEPT ![c] = GApply(o.op, ld[t], v)]     \* success: the linearization point
            /\ ref' = [ref EXCEPT ![c] = GApply(o.op, @, v)]
            /\ Done
       ELSE IF Retry
         THEN /\ ld' = [ld EXCEPT ![t] = cval[c]]                       \* failure returns the current value; retry
              /\ UNCHANGED <<cval, ref, pc, nops, cur>>
         ELSE /\ ref' = [ref EXCEPT ![c] = GApply(o.op, @, v)]          \* witness: the call returns, update lost
              /\ Done /\ UNCHANGED cval
  /\ UNCHANGED <<hlog, hcalls, cinc, cmax, conly, cnowrap, absok, setok, hexp>>

\* ---- Histogram::record / record_many
HRec(t, o) ==
  LET c == HT[o.h].cell
      v == IntoF64(o.ty, o.a, o.b) IN
  /\ Idle(t) /\ o.op = "rec" /\ HT[o.h].kind = "hist" /\ c # 0
  /\ hlog' = [hlog EXCEPT ![c] = BagAdd(@, v, 1)]
  /\ hcalls' = [hcalls EXCEPT ![c] = @ + 1]
  /\ hexp' = [hexp EXCEPT ![c] = BagAdd(@, v, 1)]
  /\ Fin(t)
  /\ UNCHANGED <<cval, pc, ld, cur, ref, cinc, cmax, conly, cnowrap, absok, setok>>

\* shape "many": the HistogramFn overrides record_many and receives one call (v, n);
\* shape "loop": the default impl, `for _ in 0..count { self.record(value) }` (also what Arc<T> forwards to)
HMany(t, o) ==
  LET c == HT[o.h].cell
      v == IntoF64(o.ty, o.a, o.b) IN
  /\ Idle(t) /\ o.op = "many" /\ HT[o.h].kind = "hist" /\ c # 0
  /\ hlog' = [hlog EXCEPT ![c] = IF HT[o.h].shape = "many" THEN BagAdd(@, v, o.n) ELSE LoopRec(@, v, 0, o.n)]
  /\ hcalls' = [hcalls EXCEPT ![c] = @ + (IF HT[o.h].shape = "many" THEN 1 ELSE o.n)]
  /\ hexp' = [hexp EXCEPT ![c] = BagAdd(@, v, o.n)]
  /\ Fin(t)
  /\ UNCHANGED <<cval, pc, ld, cur, ref, cinc, cmax, conly, cnowrap, absok, setok>>

Do(t, o) == NoopOp(t, o) \/ CInc(t, o) \/ CAbs(t, o) \/ GAtomic(t, o) \/ GLoad(t, o) \/ HRec(t, o) \/ HMany(t, o)

Next == \E t \in Threads : (\E o \in Alphabet : Do(t, o)) \/ GCas(t)
Spec == Init /\ [][Next]_vars

-----------------------------------------------------------------------------
IsF64(x) == x \in Int
TypeOK ==
  /\ \A c \in CCells : cval[c] \in 0..(W-1) /\ cinc[c] \in 0..(W-1) /\ cmax[c] \in 0..(W-1)
  /\ \A c \in GCells : IsF64(cval[c]) /\ IsF64(ref[c])
  /\ \A t \in Threads : nops[t] \in 0..MaxOps /\ pc[t] \in {"idle", "cas"}

\* increments only => the counter is the sum of all increments modulo 2^64
IncOnlySum == \A c \in CCells : conly[c] => cval[c] = cinc[c]
\* an absolute update never decreases the counter and leaves it >= the value given
AbsMonotone == absok
\* ... and (as long as no increment wrapped) it ends no lower than the largest absolute value given
AbsFloor == \A c \in CCells : cnowrap[c] => cval[c] >= cmax[c]
\* gauge: the cell is the fold of the operations in linearization order -- no update lost or applied twice
NoLostUpdate == \A c \in GCells : (\A t \in Threads : pc[t] = "idle") => cval[c] = ref[c]
SetExact == setok
\* record_many(v, n) delivers v exactly n times, record(v) once
ExactlyN == \A c \in HCells : hlog[c] = hexp[c]
\* no handle operation is ever disabled by its value (no panic)
NoValueDisables == \A t \in Threads : Idle(t) => \A o \in Alphabet : ENABLED Do(t, o)
=============================================================================
