SPECIFICATION Spec
CONSTANTS
 Threads = {1,2}
 MaxOps = 2
 W = 16
 HT <- HTGauge
 Alphabet <- AlphaGaugeCasZ
 FineCas = TRUE
 Retry = TRUE
INVARIANTS TypeOK IncOnlySum AbsMonotone AbsFloor NoLostUpdate SetExact ExactlyN 
CHECK_DEADLOCK FALSE
