SPECIFICATION Spec
CONSTANTS
 Threads = {1,2}
 MaxOps = 1
 W = 16
 HT <- HTGauge
 Alphabet <- AlphaGaugeCas
 FineCas = TRUE
 Retry = FALSE
INVARIANTS TypeOK IncOnlySum AbsMonotone AbsFloor NoLostUpdate SetExact ExactlyN 
CHECK_DEADLOCK FALSE
