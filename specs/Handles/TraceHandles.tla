---------------------------- MODULE TraceHandles ----------------------------
(* A recorded run of the real Counter / Gauge / Histogram handles must be a   *)
(* behaviour of Handles.tla (sequential runs: one `op` event per handle call  *)
(* with the cell values loaded from the AtomicU64s and the calls the probe    *)
(* HistogramFns received), and the summaries of real-parallel runs must       *)
(* satisfy what Handles.tla implies for EVERY linearization.                  *)
EXTENDS MCHandles, Json, IOUtils, TLCExt, SequencesExt
VARIABLE l
Rec == ndJsonDeserialize(IOEnv.TRACE)
tvars == <<vars, l>>
Ev == Rec[l].ev
Step == l' = l + 1
Obs(cond) == cond /\ Step /\ UNCHANGED vars

NACells == 4
HistCells == <<5, 6, 7>>

Reset ==
  /\ cval' = [c \in ACells |-> 0]
  /\ hlog' = [c \in HCells |-> NoBag] /\ hcalls' = [c \in HCells |-> 0]
  /\ nops' = [t \in Threads |-> 0]
  /\ pc' = [t \in Threads |-> "idle"] /\ ld' = [t \in Threads |-> 0] /\ cur' = [t \in Threads |-> NoOp]
  /\ ref' = [c \in GCells |-> 0]
  /\ cinc' = [c \in CCells |-> 0] /\ cmax' = [c \in CCells |-> 0]
  /\ conly' = [c \in CCells |-> TRUE] /\ cnowrap' = [c \in CCells |-> TRUE]
  /\ absok' = TRUE /\ setok' = TRUE
  /\ hexp' = [c \in HCells |-> NoBag]

SumN(calls) == FoldLeft(LAMBDA acc, x : acc + x[2], 0, calls)
\* the calls the probes received during this operation: exactly n copies of the converted value on the
\* handle's own storage (whatever the call shape), nothing anywhere else
CallsOK(o, hc) ==
  \A i \in 1..Len(HistCells) :
    IF HT[o.h].kind = "hist" /\ HT[o.h].cell = HistCells[i]
      THEN /\ \A k \in 1..Len(hc[i]) : hc[i][k][1] = IntoF64(o.ty, o.a, o.b)
           /\ SumN(hc[i]) = (IF o.op = "rec" THEN 1 ELSE o.n)
      ELSE hc[i] = <<>>

OpEvent ==
  LET o == Rec[l].o IN
  /\ WellFormed(o)
  /\ Do(1, o)
  /\ \A c \in 1..NACells : cval'[c] = Rec[l].cells[c]      \* AtomicU64::load of every storage after the call
  /\ CallsOK(o, Rec[l].hc)
  /\ Step

-----------------------------------------------------------------------------
(* real-parallel summaries: facts Handles.tla implies for every schedule *)

\* increments only: final = sum of all increments mod 2^64; value hi*2^60 + lo, classes <<hi, lo, count>>
ParCIncOK(r) ==
  /\ r.fin[1] = FoldLeft(LAMBDA acc, x : (acc + x[1] * x[3]) % 16, 0, r.classes)
  /\ r.fin[2] = FoldLeft(LAMBDA acc, x : acc + x[2] * x[3], 0, r.classes)

\* absolute only: per thread <<given, value read afterwards>>: never decreases, >= what was given; final >= max
ParCAbsOK(r) ==
  LET G == UNION {{r.thr[t][k][1] : k \in 1..Len(r.thr[t])} : t \in 1..Len(r.thr)} IN
  /\ \A t \in 1..Len(r.thr) : \A k \in 1..Len(r.thr[t]) :
        /\ r.thr[t][k][2] >= r.thr[t][k][1]
        /\ k > 1 => r.thr[t][k][2] >= r.thr[t][k - 1][2]
        /\ r.fin >= r.thr[t][k][2]
  /\ \A g \in G : r.fin >= g
  /\ r.fin \in G \cup {0}

\* gauge increments / decrements: classes <<value, sign, count>>; (Z \cup specials, Add) is a commutative monoid
ParGIncOK(r) ==
  LET Eff(x) == IF x[2] = 1 THEN x[1] ELSE Neg(x[1])
      S == {Eff(r.classes[i]) : i \in {j \in 1..Len(r.classes) : r.classes[j][3] > 0 /\ r.classes[j][1] \in Specials}}
      num == FoldLeft(LAMBDA acc, x : IF x[1] \in Specials THEN acc ELSE acc + x[1] * x[2] * x[3], 0, r.classes)
      exp == IF NaN \in S \/ (PInf \in S /\ NInf \in S) THEN NaN
             ELSE IF PInf \in S THEN PInf ELSE IF NInf \in S THEN NInf ELSE num
  IN r.fin = exp

\* sets only: the final value is one of the values set (or the initial 0 when there was none)
ParGSetOK(r) == IF Len(r.vals) = 0 THEN r.fin = 0 ELSE r.fin \in {r.vals[i] : i \in 1..Len(r.vals)}

\* histogram: requests <<value, n, how many such calls>>; deliveries <<value, copies>>
ParHistOK(r) ==
  LET V == {r.req[i][1] : i \in 1..Len(r.req)} \cup {r.got[i][1] : i \in 1..Len(r.got)}
      Want(v) == FoldLeft(LAMBDA acc, x : IF x[1] = v THEN acc + x[2] * x[3] ELSE acc, 0, r.req)
      Got(v) == FoldLeft(LAMBDA acc, x : IF x[1] = v THEN acc + x[2] ELSE acc, 0, r.got)
  IN \A v \in V : Want(v) = Got(v)

\* short history with start/end tickets <<t0, t1, op, v, res>>: some order consistent with real time whose
\* fold (Handles.tla's atomic actions) explains every read and the final value
LinApply(kind, op, val, v) ==
  IF kind = "counter"
    THEN (CASE op = "inc" -> (val + v) % W [] op = "abs" -> MaxOf(val, v) [] OTHER -> val)
    ELSE (CASE op \in {"inc", "dec", "set"} -> GApply(op, val, v) [] OTHER -> val)
RECURSIVE LinSearch(_, _, _)
LinSearch(r, S, val) ==
  IF S = {} THEN val = r.fin
  ELSE \E i \in S :
         /\ \A j \in S \ {i} : ~(r.ops[j][2] < r.ops[i][1])       \* nothing still pending finished before i began
         /\ (r.ops[i][3] = "read" => r.ops[i][5] = val)
         /\ LinSearch(r, S \ {i}, LinApply(r.kind, r.ops[i][3], val, r.ops[i][4]))
LinOK(r) == LinSearch(r, 1..Len(r.ops), 0)

TraceNext ==
  /\ l <= Len(Rec)
  /\ CASE Ev = "reset"    -> Reset /\ Step
       [] Ev = "op"       -> OpEvent
       [] Ev = "par.cinc" -> Obs(ParCIncOK(Rec[l]))
       [] Ev = "par.cabs" -> Obs(ParCAbsOK(Rec[l]))
       [] Ev = "par.ginc" -> Obs(ParGIncOK(Rec[l]))
       [] Ev = "par.gset" -> Obs(ParGSetOK(Rec[l]))
       [] Ev = "par.hist" -> Obs(ParHistOK(Rec[l]))
       [] Ev = "lin"      -> Obs(LinOK(Rec[l]))
       [] OTHER -> FALSE          \* panic / hang / unknown event

TraceInit == Init /\ l = 1
TraceSpec == TraceInit /\ [][TraceNext]_tvars
TraceAccepted ==
  LET d == TLCGet("stats").diameter IN
  IF d - 1 = Len(Rec) THEN TRUE
  ELSE Print(<<"TRACE REJECTED at line", d, Rec[d]>>, FALSE)
=============================================================================
