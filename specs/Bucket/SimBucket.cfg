SPECIFICATION SimSpec
CONSTANTS
 BS = 64
 Pushers = {1,2}
 NVals = 2
 NClears = 2
 NReads = 1
 NEmpties = 1
 Prefill = 62
 MaxBlk = 8
 LinkFirst = TRUE
 ClearRetries = TRUE
INVARIANTS Emit
CHECK_DEADLOCK FALSE
