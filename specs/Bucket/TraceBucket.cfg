SPECIFICATION TraceSpec
CONSTANTS
 BS = 64
 Pushers = {1,2,3}
 NVals = 9
 NClears = 1000
 NReads = 1000
 NEmpties = 1000
 Prefill = 0
 MaxBlk = 14
 LinkFirst = TRUE
 ClearRetries = TRUE
INVARIANTS NoDup NoFab Conservation SnapshotCovers EmptyTruthful BoundOK
POSTCONDITION TraceAccepted
CHECK_DEADLOCK FALSE
