SPECIFICATION Spec
CONSTANTS
 BS = 2
 Pushers = {1,2}
 NVals = 2
 NClears = 1
 NReads = 0
 NEmpties = 1
 Prefill = 0
 MaxBlk = 7
 LinkFirst = TRUE
 ClearRetries = TRUE
INVARIANTS TypeOK NoDup NoFab Conservation SnapshotCovers EmptyTruthful BoundOK
CHECK_DEADLOCK FALSE
