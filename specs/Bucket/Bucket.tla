------------------------------- MODULE Bucket -------------------------------
(***************************************************************************)
(* metrics-util/src/storage/bucket.rs: AtomicBucket<T> at the granularity  *)
(* of its individual atomic operations.                                    *)
(*                                                                         *)
(*   one action  =  one atomic load / CAS / fetch_add / fetch_or / store   *)
(*                  (or the callback invocation of clear_with/data_with)   *)
(*                                                                         *)
(* Processes: pushers (push), one clearer (clear_with), one snapshot       *)
(* reader (data_with), one is_empty caller.  Block ids are never reused    *)
(* (epoch reclamation guarantees no ABA while a thread is pinned).         *)
(*                                                                         *)
(* LinkFirst = TRUE  : the new tail block is linked to its predecessor     *)
(*                     BEFORE it is published by the CAS (repaired code).  *)
(* LinkFirst = FALSE : as originally coded, `next` is stored after the CAS *)
(*                     (finding CF05b, kept as a named deviation so the    *)
(*                     witness can still be model-checked).                *)
(***************************************************************************)
EXTENDS Naturals, Integers, Sequences, FiniteSets, TLC

CONSTANTS BS,        \* slots per block (64 in the code; 2..3 for exhaustive runs)
          Pushers,   \* subset of 1..3
          NVals,     \* values pushed by each pusher
          NClears,   \* clear_with calls of the clearer
          NReads,    \* data_with calls of the reader
          NEmpties,  \* is_empty calls
          Prefill,   \* slots of block 1 already written at start
          MaxBlk,    \* bound on block ids (must never bind: see BoundOK)
          LinkFirst,
          ClearRetries  \* clear_with loads the tail again when its compare-exchange fails (repaired code, fix a645ad6); FALSE: gives up (CF07a)

Null == 0
Blocks == 1..MaxBlk
Clearer == 4
Reader == 5
Empt == 6
Procs == Pushers \cup {Clearer, Reader, Empt}

VARIABLES
  \* shared memory
  tail, write, ack, slots, next, nalloc,
  \* per-process program counter and locals
  pc, lt, nb, idx, k, cur, llen, dn,
  \* history (not read by any guard)
  pre,        \* number of prefilled slots (a variable so a trace can reset it)
  delivered,  \* sequence of values handed to clear_with callbacks
  seen,       \* values handed to the callbacks of the data_with in progress
  completed,  \* values whose push has returned
  blockOf,    \* value -> block it was written to
  dnOf,       \* block -> length the clearer delivered for it (-1: not delivered)
  detached,   \* blocks unlinked from the bucket by a successful clear CAS
  rstart,     \* `completed` when the current data_with began
  estart,     \* `completed` when the current is_empty began
  snapOK, emptyOK, \* verdicts of finished snapshot reads / is_empty calls
  einfl,      \* the is_empty in progress read the length of a block with an in-flight write (CF05c)
  emptyStrict,\* verdict without the CF05c allowance
  eres,       \* result of the last finished is_empty call
  clears, reads, empties

shared == <<tail, write, ack, slots, next, nalloc>>
locals == <<pc, lt, nb, idx, k, cur, llen, dn>>
hist   == <<pre, delivered, seen, completed, blockOf, dnOf, detached, rstart, estart, snapOK, emptyOK, einfl, emptyStrict, eres, eres, clears, reads, empties>>
vars   == <<shared, locals, hist>>

Val(p, i) == p * 10 + i
Filler(j) == 1000 + j
Fillers(n) == {Filler(j) : j \in 0..(n-1)}
Min(a, b) == IF a < b THEN a ELSE b
Range(s) == {s[i] : i \in DOMAIN s}

\* Block::len(): trailing ones of the `read` bitmap
BLen(b) == LET S == {n \in 0..BS : \A j \in 0..(n-1) : j \in ack[b]} IN CHOOSE n \in S : \A m \in S : m <= n
\* Block::data(): the first n slots
Data(b, n) == [j \in 1..n |-> slots[b][j-1]]

RECURSIVE ReachFrom(_)
ReachFrom(b) == IF b = Null THEN {} ELSE {b} \cup ReachFrom(next[b])

InitWith(n) ==
  /\ tail = IF n > 0 THEN 1 ELSE Null
  /\ write = [b \in Blocks |-> IF b = 1 THEN n ELSE 0]
  /\ ack = [b \in Blocks |-> IF b = 1 THEN 0..(n-1) ELSE {}]
  /\ slots = [b \in Blocks |-> [j \in 0..(BS-1) |-> IF b = 1 /\ j < n THEN Filler(j) ELSE Null]]
  /\ next = [b \in Blocks |-> Null]
  /\ nalloc = IF n > 0 THEN 1 ELSE 0
  /\ pc = [p \in Procs |-> CASE p = Clearer -> "c_load" [] p = Reader -> "r_load" [] p = Empt -> "e_load" [] OTHER -> "p_load"]
  /\ lt = [p \in Procs |-> Null] /\ nb = [p \in Procs |-> Null]
  /\ idx = [p \in Procs |-> 0] /\ k = [p \in Procs |-> 1]
  /\ cur = [p \in Procs |-> Null] /\ llen = [p \in Procs |-> 0] /\ dn = [p \in Procs |-> 0]
  /\ pre = n
  /\ delivered = <<>> /\ seen = <<>>
  /\ completed = Fillers(n)
  /\ blockOf = [v \in Fillers(n) |-> 1]
  /\ dnOf = [b \in Blocks |-> -1]
  /\ detached = {}
  /\ rstart = {} /\ estart = {}
  /\ snapOK = TRUE /\ emptyOK = TRUE /\ einfl = FALSE /\ emptyStrict = TRUE /\ eres = FALSE
  /\ clears = 0 /\ reads = 0 /\ empties = 0

Init == InitWith(Prefill)

-----------------------------------------------------------------------------
(* push()                                                                  *)

\* self.tail.load()
PLoad(p) ==
  /\ pc[p] = "p_load" /\ k[p] <= NVals
  /\ lt' = [lt EXCEPT ![p] = tail]
  /\ pc' = [pc EXCEPT ![p] = IF tail = Null THEN "p_casnew" ELSE "p_claim"]
  /\ UNCHANGED <<shared, nb, idx, k, cur, llen, dn, hist>>

\* tail.compare_exchange(null, new Block)
PCasNew(p) ==
  /\ pc[p] = "p_casnew" /\ nalloc < MaxBlk
  /\ IF tail = Null
       THEN /\ nalloc' = nalloc + 1 /\ tail' = nalloc + 1 /\ lt' = [lt EXCEPT ![p] = nalloc + 1]
       ELSE /\ lt' = [lt EXCEPT ![p] = tail] /\ UNCHANGED <<tail, nalloc>>
  /\ pc' = [pc EXCEPT ![p] = "p_claim"]
  /\ UNCHANGED <<write, ack, slots, next, nb, idx, k, cur, llen, dn, hist>>

\* Block::push: index = write.fetch_add(1)   ("p_claim2": the push into a block this thread just installed)
PClaim(p) ==
  /\ pc[p] \in {"p_claim", "p_claim2"}
  /\ LET b == lt[p] IN
     /\ idx' = [idx EXCEPT ![p] = write[b]]
     /\ write' = [write EXCEPT ![b] = @ + 1]
     /\ pc' = [pc EXCEPT ![p] = IF write[b] >= BS
                                  THEN (IF pc[p] = "p_claim" THEN "p_full" ELSE "p_load")
                                  ELSE "p_write"]
  /\ UNCHANGED <<tail, ack, slots, next, nalloc, lt, nb, k, cur, llen, dn, hist>>

\* the slot write
PWrite(p) ==
  /\ pc[p] = "p_write"
  /\ slots' = [slots EXCEPT ![lt[p]][idx[p]] = Val(p, k[p])]
  /\ pc' = [pc EXCEPT ![p] = "p_ack"]
  /\ UNCHANGED <<tail, write, ack, next, nalloc, lt, nb, idx, k, cur, llen, dn, hist>>

\* read.fetch_or(1 << index); push() returns
PAck(p) ==
  /\ pc[p] = "p_ack"
  /\ ack' = [ack EXCEPT ![lt[p]] = @ \cup {idx[p]}]
  /\ completed' = completed \cup {Val(p, k[p])}
  /\ blockOf' = (Val(p, k[p]) :> lt[p]) @@ blockOf
  /\ k' = [k EXCEPT ![p] = @ + 1]
  /\ pc' = [pc EXCEPT ![p] = "p_load"]
  /\ UNCHANGED <<tail, write, slots, next, nalloc, lt, nb, idx, cur, llen, dn,
                 pre, delivered, seen, dnOf, detached, rstart, estart, snapOK, emptyOK, einfl, emptyStrict, eres, clears, reads, empties>>

\* block full: tail.compare_exchange(tail, new Block)
PFull(p) ==
  /\ pc[p] = "p_full" /\ nalloc < MaxBlk
  /\ IF tail = lt[p]
       THEN /\ nalloc' = nalloc + 1 /\ tail' = nalloc + 1
            /\ nb' = [nb EXCEPT ![p] = nalloc + 1]
            /\ IF LinkFirst
                 THEN /\ next' = [next EXCEPT ![nalloc + 1] = lt[p]]
                      /\ lt' = [lt EXCEPT ![p] = nalloc + 1]
                      /\ pc' = [pc EXCEPT ![p] = "p_claim2"]
                 ELSE /\ pc' = [pc EXCEPT ![p] = "p_link"] /\ UNCHANGED <<next, lt>>
       ELSE /\ pc' = [pc EXCEPT ![p] = "p_load"] /\ UNCHANGED <<tail, nalloc, nb, next, lt>>
  /\ UNCHANGED <<write, ack, slots, idx, k, cur, llen, dn, hist>>

\* (only when ~LinkFirst) new_tail.next.store(old tail)
PLink(p) ==
  /\ pc[p] = "p_link"
  /\ next' = [next EXCEPT ![nb[p]] = lt[p]]
  /\ lt' = [lt EXCEPT ![p] = nb[p]]
  /\ pc' = [pc EXCEPT ![p] = "p_claim2"]
  /\ UNCHANGED <<tail, write, ack, slots, nalloc, nb, idx, k, cur, llen, dn, hist>>

PStep(p) == PLoad(p) \/ PCasNew(p) \/ PClaim(p) \/ PWrite(p) \/ PAck(p) \/ PFull(p) \/ PLink(p)

-----------------------------------------------------------------------------
(* Block walk shared by clear_with (q = Clearer) and data_with (q = Reader) *)
(* prefix "c_" / "r_".                                                     *)

Pfx(q) == IF q = Clearer THEN "c_" ELSE "r_"
At(q, s) == pc[q] = Pfx(q) \o s
Go(q, s) == pc' = [pc EXCEPT ![q] = Pfx(q) \o s]

\* is_quiesced(): len = read.load().trailing_ones()
WLen(q) ==
  /\ At(q, "len")
  /\ llen' = [llen EXCEPT ![q] = BLen(cur[q])]
  /\ Go(q, IF BLen(cur[q]) = BS THEN "dlen" ELSE "wr")
  /\ UNCHANGED <<shared, lt, nb, idx, k, cur, dn, hist>>

\* is_quiesced(): min(write.load(), BS) == len ; loop otherwise
WWr(q) ==
  /\ At(q, "wr")
  /\ Go(q, IF Min(write[cur[q]], BS) = llen[q] THEN "dlen" ELSE "len")
  /\ UNCHANGED <<shared, lt, nb, idx, k, cur, llen, dn, hist>>

\* block.data(): len = self.len()
WDLen(q) ==
  /\ At(q, "dlen")
  /\ dn' = [dn EXCEPT ![q] = BLen(cur[q])]
  /\ Go(q, "deliver")
  /\ UNCHANGED <<shared, lt, nb, idx, k, cur, llen, hist>>

-----------------------------------------------------------------------------
(* clear_with()                                                            *)

FinishClear == clears' = clears + 1

CLoad ==
  /\ pc[Clearer] = "c_load" /\ clears < NClears
  /\ lt' = [lt EXCEPT ![Clearer] = tail]
  /\ IF tail = Null THEN FinishClear /\ UNCHANGED pc
                    ELSE pc' = [pc EXCEPT ![Clearer] = "c_cas"] /\ UNCHANGED clears
  /\ UNCHANGED <<shared, nb, idx, k, cur, llen, dn,
                 pre, delivered, seen, completed, blockOf, dnOf, detached, rstart, estart, snapOK, emptyOK, einfl, emptyStrict, eres, reads, empties>>

\* tail.compare_exchange(block_ptr, null)
CCas ==
  /\ pc[Clearer] = "c_cas"
  /\ IF tail = lt[Clearer]
       THEN /\ tail' = Null
            /\ cur' = [cur EXCEPT ![Clearer] = lt[Clearer]]
            /\ detached' = detached \cup ReachFrom(lt[Clearer])
            /\ pc' = [pc EXCEPT ![Clearer] = "c_len"]
            /\ UNCHANGED clears
       ELSE /\ IF ClearRetries THEN UNCHANGED clears ELSE FinishClear      \* the tail moved: load again / (CF07a) give up
            /\ pc' = [pc EXCEPT ![Clearer] = "c_load"]
            /\ UNCHANGED <<tail, cur, detached>>
  /\ UNCHANGED <<write, ack, slots, next, nalloc, lt, nb, idx, k, llen, dn,
                 pre, delivered, seen, completed, blockOf, dnOf, rstart, estart, snapOK, emptyOK, einfl, emptyStrict, eres, reads, empties>>

\* f(data)
CDeliver ==
  /\ pc[Clearer] = "c_deliver"
  /\ delivered' = delivered \o Data(cur[Clearer], dn[Clearer])
  /\ dnOf' = [dnOf EXCEPT ![cur[Clearer]] = dn[Clearer]]
  /\ pc' = [pc EXCEPT ![Clearer] = "c_next"]
  /\ UNCHANGED <<shared, lt, nb, idx, k, cur, llen, dn,
                 pre, seen, completed, blockOf, detached, rstart, estart, snapOK, emptyOK, einfl, emptyStrict, eres, clears, reads, empties>>

\* block.next.load()
CNext ==
  /\ pc[Clearer] = "c_next"
  /\ cur' = [cur EXCEPT ![Clearer] = next[cur[Clearer]]]
  /\ IF next[cur[Clearer]] = Null
       THEN FinishClear /\ pc' = [pc EXCEPT ![Clearer] = "c_load"]
       ELSE pc' = [pc EXCEPT ![Clearer] = "c_len"] /\ UNCHANGED clears
  /\ UNCHANGED <<shared, lt, nb, idx, k, llen, dn,
                 pre, delivered, seen, completed, blockOf, dnOf, detached, rstart, estart, snapOK, emptyOK, einfl, emptyStrict, eres, reads, empties>>

CStep == CLoad \/ CCas \/ WLen(Clearer) \/ WWr(Clearer) \/ WDLen(Clearer) \/ CDeliver \/ CNext

-----------------------------------------------------------------------------
(* data_with()                                                             *)

\* A finished snapshot read must have seen every value whose push completed before it began,
\* unless a clear detached that value's block (by then or meanwhile).
SnapVerdict(sn) == \A v \in rstart : v \in Range(sn) \/ blockOf[v] \in detached
NoDupSeq(s) == \A i, j \in DOMAIN s : i # j => s[i] # s[j]

FinishRead(sn) ==
  /\ reads' = reads + 1
  /\ snapOK' = (snapOK /\ SnapVerdict(sn) /\ NoDupSeq(sn))

RLoad ==
  /\ pc[Reader] = "r_load" /\ reads < NReads
  /\ cur' = [cur EXCEPT ![Reader] = tail]
  /\ rstart' = completed
  /\ seen' = <<>>
  /\ IF tail = Null
       THEN /\ reads' = reads + 1
            /\ snapOK' = (snapOK /\ \A v \in completed : blockOf[v] \in detached)
            /\ UNCHANGED pc
       ELSE pc' = [pc EXCEPT ![Reader] = "r_len"] /\ UNCHANGED <<reads, snapOK>>
  /\ UNCHANGED <<shared, lt, nb, idx, k, llen, dn,
                 pre, delivered, completed, blockOf, dnOf, detached, estart, emptyOK, einfl, emptyStrict, eres, clears, empties>>

RDeliver ==
  /\ pc[Reader] = "r_deliver"
  /\ seen' = seen \o Data(cur[Reader], dn[Reader])
  /\ pc' = [pc EXCEPT ![Reader] = "r_next"]
  /\ UNCHANGED <<shared, lt, nb, idx, k, cur, llen, dn,
                 pre, delivered, completed, blockOf, dnOf, detached, rstart, estart, snapOK, emptyOK, einfl, emptyStrict, eres, clears, reads, empties>>

RNext ==
  /\ pc[Reader] = "r_next"
  /\ cur' = [cur EXCEPT ![Reader] = next[cur[Reader]]]
  /\ IF next[cur[Reader]] = Null
       THEN FinishRead(seen) /\ pc' = [pc EXCEPT ![Reader] = "r_load"]
       ELSE pc' = [pc EXCEPT ![Reader] = "r_len"] /\ UNCHANGED <<reads, snapOK>>
  /\ UNCHANGED <<shared, lt, nb, idx, k, llen, dn,
                 pre, delivered, seen, completed, blockOf, dnOf, detached, rstart, estart, emptyOK, einfl, emptyStrict, eres, clears, empties>>

RStep == RLoad \/ WLen(Reader) \/ WWr(Reader) \/ WDLen(Reader) \/ RDeliver \/ RNext

-----------------------------------------------------------------------------
(* is_empty()                                                             *)

\* is_empty() = TRUE is wrong if some value completed before the call began and no clear detached it.
\* Known finding CF05c: is_empty() reads len() -- the acknowledged prefix -- without waiting for
\* in-flight writes, so completed values behind an unacknowledged slot are not counted.  The
\* allowance applies only when the call really read the length of a non-quiesced block.
AllGone(S) == \A v \in S : blockOf[v] \in detached
InFlight(b) == Min(write[b], BS) # BLen(b)
FinishEmpty(res, infl) ==
  /\ empties' = empties + 1
  /\ emptyStrict' = (emptyStrict /\ (res => AllGone(estart)))
  /\ emptyOK' = (emptyOK /\ ((res /\ ~infl) => AllGone(estart)))
  /\ einfl' = FALSE /\ eres' = res
  /\ pc' = [pc EXCEPT ![Empt] = "e_load"]

ELoad ==
  /\ pc[Empt] = "e_load" /\ empties < NEmpties
  /\ lt' = [lt EXCEPT ![Empt] = tail]
  /\ estart' = completed
  /\ IF tail = Null
       THEN /\ empties' = empties + 1
            /\ emptyOK' = (emptyOK /\ AllGone(completed))
            /\ emptyStrict' = (emptyStrict /\ AllGone(completed))
            /\ eres' = TRUE
            /\ UNCHANGED pc
       ELSE pc' = [pc EXCEPT ![Empt] = "e_len"] /\ UNCHANGED <<empties, emptyOK, emptyStrict, eres>>
  /\ UNCHANGED <<shared, nb, idx, k, cur, llen, dn,
                 pre, delivered, seen, completed, blockOf, dnOf, detached, rstart, snapOK, einfl, clears, reads>>

\* tail_block.len() == 0 (short-circuit)
ELen ==
  /\ pc[Empt] = "e_len"
  /\ IF BLen(lt[Empt]) # 0
       THEN FinishEmpty(FALSE, FALSE)
       ELSE /\ pc' = [pc EXCEPT ![Empt] = "e_next"]
            /\ einfl' = InFlight(lt[Empt])
            /\ UNCHANGED <<empties, emptyOK, emptyStrict, eres>>
  /\ UNCHANGED <<shared, lt, nb, idx, k, cur, llen, dn,
                 pre, delivered, seen, completed, blockOf, dnOf, detached, rstart, estart, snapOK, clears, reads>>

\* next_len(): self.next.load()
ENext ==
  /\ pc[Empt] = "e_next"
  /\ cur' = [cur EXCEPT ![Empt] = next[lt[Empt]]]
  /\ IF next[lt[Empt]] = Null
       THEN FinishEmpty(TRUE, einfl)
       ELSE pc' = [pc EXCEPT ![Empt] = "e_nlen"] /\ UNCHANGED <<empties, emptyOK, emptyStrict, einfl, eres>>
  /\ UNCHANGED <<shared, lt, nb, idx, k, llen, dn,
                 pre, delivered, seen, completed, blockOf, dnOf, detached, rstart, estart, snapOK, clears, reads>>

\* next_len(): tail_block.len()
ENLen ==
  /\ pc[Empt] = "e_nlen"
  /\ FinishEmpty(BLen(cur[Empt]) = 0, einfl \/ InFlight(cur[Empt]))
  /\ UNCHANGED <<shared, lt, nb, idx, k, cur, llen, dn,
                 pre, delivered, seen, completed, blockOf, dnOf, detached, rstart, estart, snapOK, clears, reads>>

EStep == ELoad \/ ELen \/ ENext \/ ENLen

-----------------------------------------------------------------------------
Next == (\E p \in Pushers : PStep(p)) \/ CStep \/ RStep \/ EStep
Spec == Init /\ [][Next]_vars

-----------------------------------------------------------------------------
(* Properties                                                              *)

RECURSIVE Chain(_)
Chain(b) == IF b = Null THEN <<>> ELSE Data(b, BLen(b)) \o Chain(next[b])

AllPushed == {Val(p, i) : p \in Pushers, i \in 1..NVals} \cup Fillers(pre)

PushersIdle == \A p \in Pushers : pc[p] = "p_load"
Quiescent == PushersIdle /\ pc[Clearer] = "c_load" /\ pc[Reader] = "r_load" /\ pc[Empt] = "e_load"
Done == Quiescent /\ (\A p \in Pushers : k[p] > NVals) /\ clears = NClears /\ reads = NReads /\ empties = NEmpties

\* Known finding CF05a: a slot claimed in a block after the clearer fixed the length it delivers for
\* that block.  Exactly these values are lost; they are accounted for, never anything else.
LateLost == {slots[b][j] : <<b, j>> \in {bj \in Blocks \X (0..(BS-1)) : dnOf[bj[1]] >= 0 /\ bj[2] >= dnOf[bj[1]] /\ bj[2] \in ack[bj[1]]}}

NoDup == NoDupSeq(delivered)
\* nothing fabricated, nothing observed before it was fully written
NoFab == Range(delivered) \subseteq completed /\ Range(seen) \subseteq completed /\ Null \notin (Range(delivered) \cup Range(seen))
\* at quiescence every completed push is delivered exactly once, or still in the bucket (or is a CF05a loss)
ConservationAt(rest) ==
  /\ Range(delivered) \cup Range(rest) \cup LateLost = completed
  /\ Len(delivered) + Len(rest) + Cardinality(LateLost) = Cardinality(completed)
Conservation == Quiescent => ConservationAt(Chain(tail))
\* the strict property (no allowance for CF05a)
StrictConservation == Quiescent => (LateLost = {} /\ ConservationAt(Chain(tail)))
SnapshotCovers == snapOK
EmptyTruthful == emptyOK
StrictEmptyTruthful == emptyStrict
BoundOK == nalloc < MaxBlk

TypeOK ==
  /\ tail \in Blocks \cup {Null}
  /\ \A b \in Blocks : ack[b] \subseteq 0..(BS-1)
  /\ nalloc \in 0..MaxBlk
=============================================================================
