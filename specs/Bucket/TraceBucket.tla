---------------------------- MODULE TraceBucket ----------------------------
(* Trace validation: a run recorded from the real AtomicBucket (one ndjson   *)
(* line per verification point) must be a behaviour of Bucket.tla, and every *)
(* invariant of Bucket.tla must hold in every state of it.                   *)
EXTENDS Bucket, Json, IOUtils, TLCExt, SequencesExt
VARIABLES l, dmark   \* dmark: length of `delivered` at the last whole-flush observation (flush.vals.post)
Rec == ndJsonDeserialize(IOEnv.TRACE)
tvars == <<vars, l, dmark>>

Ev == Rec[l].ev
P == Rec[l].p
A == Rec[l].a
Step == l' = l + 1 /\ UNCHANGED dmark
Obs(cond) == cond /\ Step /\ UNCHANGED vars     \* a ".post" line: assertion on the current state
Known(tag, what) == PrintT(<<"KNOWN", tag, what>>)

ResetTo(n) ==
  /\ tail' = IF n > 0 THEN 1 ELSE Null
  /\ write' = [b \in Blocks |-> IF b = 1 THEN n ELSE 0]
  /\ ack' = [b \in Blocks |-> IF b = 1 THEN 0..(n-1) ELSE {}]
  /\ slots' = [b \in Blocks |-> [j \in 0..(BS-1) |-> IF b = 1 /\ j < n THEN Filler(j) ELSE Null]]
  /\ next' = [b \in Blocks |-> Null]
  /\ nalloc' = IF n > 0 THEN 1 ELSE 0
  /\ pc' = [p \in Procs |-> CASE p = Clearer -> "c_load" [] p = Reader -> "r_load" [] p = Empt -> "e_load" [] OTHER -> "p_load"]
  /\ lt' = [p \in Procs |-> Null] /\ nb' = [p \in Procs |-> Null]
  /\ idx' = [p \in Procs |-> 0] /\ k' = [p \in Procs |-> 1]
  /\ cur' = [p \in Procs |-> Null] /\ llen' = [p \in Procs |-> 0] /\ dn' = [p \in Procs |-> 0]
  /\ pre' = n
  /\ delivered' = <<>> /\ seen' = <<>>
  /\ completed' = Fillers(n)
  /\ blockOf' = [v \in Fillers(n) |-> 1]
  /\ dnOf' = [b \in Blocks |-> -1]
  /\ detached' = {}
  /\ rstart' = {} /\ estart' = {}
  /\ snapOK' = TRUE /\ emptyOK' = TRUE /\ einfl' = FALSE /\ emptyStrict' = TRUE /\ eres' = FALSE
  /\ clears' = 0 /\ reads' = 0 /\ empties' = 0

\* When the callback of clear_with cannot be observed directly (the DogStatsD exporter writes the values into
\* payloads): the delivery step is taken together with the following next-pointer load ...
CDeliverNext ==
  /\ pc[Clearer] = "c_deliver"
  /\ delivered' = delivered \o Data(cur[Clearer], dn[Clearer])
  /\ dnOf' = [dnOf EXCEPT ![cur[Clearer]] = dn[Clearer]]
  /\ cur' = [cur EXCEPT ![Clearer] = next[cur[Clearer]]]
  /\ IF next[cur[Clearer]] = Null
       THEN clears' = clears + 1 /\ pc' = [pc EXCEPT ![Clearer] = "c_load"]
       ELSE pc' = [pc EXCEPT ![Clearer] = "c_len"] /\ UNCHANGED clears
  /\ UNCHANGED <<shared, lt, nb, idx, k, llen, dn,
                 pre, seen, completed, blockOf, detached, rstart, estart, snapOK, emptyOK, einfl, emptyStrict, eres, reads, empties>>

SeqToBag(s) == [v \in Range(s) |-> Cardinality({i \in DOMAIN s : s[i] = v})]
NewPart(old, new) == SubSeq(new, Len(old) + 1, Len(new))

\* ---- free-running (real parallel) runs: only what holds for every schedule ----
\* The harness reports multiset summaries <<size, distinct, foreign>> (foreign = values never pushed).
FreeOK(r) ==
  LET Clean(m) == m[1] = m[2] /\ m[3] = 0            \* no duplicate, nothing fabricated
  IN /\ Clean(r.taken)                                \* nothing handed to two clears
     /\ r.taken[1] <= r.pushed_n
     /\ \A i \in DOMAIN r.seen : Clean(r.seen[i]) /\ r.seen[i][1] <= r.pushed_n
     /\ Clean(r.snap) /\ r.snap_eq_fin                 \* quiescent snapshot = what the final clear takes
     /\ r.after_n = 0 /\ r.empty_after = TRUE
     /\ (r.empty_before = TRUE) <=> (r.fin_n = 0)
     /\ (~r.conc_clear => r.taken[1] = r.pushed_n)     \* conservation (CF05a needs a concurrent clear)
     /\ (IF r.taken[1] = r.pushed_n THEN TRUE ELSE Known("CF05a-free", r.pushed_n - r.taken[1]))

TraceNext ==
  /\ l <= Len(Rec)
  /\ CASE Ev = "reset"            -> ResetTo(A[1]) /\ l' = l + 1 /\ dmark' = 0
       [] Ev = "start.pre"        -> Obs(TRUE)
       [] Ev = "push.load.pre"    -> PLoad(P) /\ Step
       [] Ev = "push.load.post"   -> Obs(lt[P] = A[1])
       [] Ev = "push.casnew.pre"  -> PCasNew(P) /\ Step
       [] Ev = "push.casnew.post" -> Obs(lt[P] = A[1])
       [] Ev = "blk.claim.pre"    -> lt[P] = A[1] /\ PClaim(P) /\ Step
       [] Ev = "blk.claim.post"   -> Obs(idx[P] = A[2])
       [] Ev = "blk.write.pre"    -> lt[P] = A[1] /\ idx[P] = A[2] /\ PWrite(P) /\ Step
       [] Ev = "blk.ack.pre"      -> lt[P] = A[1] /\ idx[P] = A[2] /\ PAck(P) /\ Step
       [] Ev = "blk.ack.post"     -> Obs(A[2] \in ack[A[1]])
       [] Ev = "push.casfull.pre" -> lt[P] = A[1] /\ PFull(P) /\ Step
       [] Ev = "push.casfull.post"-> Obs(A[1] = 1 /\ nb[P] = A[2] /\ tail = A[2])
       \* a yield point with no atomic step of its own, right after the new tail became visible: the block must
       \* already be linked to its predecessor (anything the code still did afterwards would be interleaved here)
       [] Ev = "push.installed.pre" -> Obs(pc[P] = "p_claim2" /\ lt[P] = nb[P] /\ next[nb[P]] # Null)
       [] Ev = "push.link.pre"    -> ~LinkFirst /\ nb[P] = A[1] /\ lt[P] = A[2] /\ PLink(P) /\ Step
       [] Ev = "push.done.post"   -> Obs(pc[P] = "p_load" /\ A[1] = Val(P, k[P] - 1))
       [] Ev = "clr.load.pre"     -> CLoad /\ Step
       [] Ev = "clr.load.post"    -> Obs(lt[Clearer] = A[1])
       [] Ev = "clr.cas.pre"      -> lt[Clearer] = A[1] /\ CCas /\ Step
       [] Ev = "clr.cas.post"     -> Obs(pc[Clearer] = "c_len" /\ cur[Clearer] = lt[Clearer])
       [] Ev = "blk.len.pre"      -> IF P = Empt
                                       THEN ((lt[Empt] = A[1] /\ ELen) \/ (cur[Empt] = A[1] /\ ENLen)) /\ Step
                                       ELSE cur[P] = A[1] /\ (WLen(P) \/ WDLen(P)) /\ Step
       [] Ev = "blk.wr.pre"       -> cur[P] = A[1] /\ WWr(P) /\ Step
       [] Ev = "deliver.post"     -> CDeliver /\ Step /\ NewPart(delivered, delivered') = A
       [] Ev = "clr.next.pre"     -> cur[Clearer] = A[1] /\ (IF pc[Clearer] = "c_deliver" THEN CDeliverNext ELSE CNext) /\ Step
       \* ... and everything one flush sent is compared with what the clears delivered since the previous flush
       [] Ev = "flush.vals.post"  -> (IF dmark >= Len(delivered) THEN <<>> ELSE SubSeq(delivered, dmark + 1, Len(delivered))) = A
                                     /\ dmark' = Len(delivered) /\ l' = l + 1 /\ UNCHANGED vars
       [] Ev = "flush.begin.post" -> Obs(TRUE)
       [] Ev = "flush.bad.post"   -> FALSE                      \* a payload line that is not a well-formed histogram message
       \* (A[1] = 1: two more whole flushes ran after every pusher had finished: by now every completed push has been handed
       \*  to a flush, except the values lost to CF05a)
       [] Ev = "quiet"            -> Obs(Quiescent /\ dmark = Len(delivered)
                                         /\ ((Len(A) >= 1 /\ A[1] = 1) => completed \subseteq (Range(delivered) \cup LateLost))
                                         /\ (IF LateLost = {} THEN TRUE ELSE Known("CF05a", LateLost)))
       [] Ev = "clr.next.post"    -> Obs(cur[Clearer] = A[1])
       [] Ev = "clr.done.post"    -> Obs(pc[Clearer] = "c_load")
       [] Ev = "rd.load.pre"      -> RLoad /\ Step
       [] Ev = "rd.load.post"     -> Obs(cur[Reader] = A[1])
       [] Ev = "rd.deliver.post"  -> RDeliver /\ Step /\ NewPart(seen, seen') = A
       [] Ev = "rd.next.pre"      -> cur[Reader] = A[1] /\ RNext /\ Step
       [] Ev = "rd.next.post"     -> Obs(cur[Reader] = A[1])
       [] Ev = "rd.done.post"     -> Obs(pc[Reader] = "r_load")
       [] Ev = "ie.load.pre"      -> ELoad /\ Step
       [] Ev = "ie.load.post"     -> Obs(lt[Empt] = A[1])
       [] Ev = "blk.nextlen.pre"  -> lt[Empt] = A[1] /\ ENext /\ Step
       [] Ev = "blk.nextlen.post" -> Obs(cur[Empt] = A[1])
       [] Ev = "ie.done.post"     -> Obs(pc[Empt] = "e_load" /\ eres = (A[1] = 1)
                                         /\ (IF emptyStrict THEN TRUE ELSE Known("CF05c", empties)))
       [] Ev = "final"            -> Obs(Quiescent /\ SeqToBag(A) = SeqToBag(Chain(tail))
                                         /\ (IF LateLost = {} THEN TRUE ELSE Known("CF05a", LateLost)))
       [] Ev = "free"             -> Obs(FreeOK(Rec[l]))
       \* a clear_with whose callback panicked (caught): the bucket was left empty and usable (a value pushed afterwards is
       \* handed out by the next clear), the values handed out before the panic were whole blocks, and - also after the epoch
       \* collector ran the deferred destructions - no value was destroyed twice and nothing never pushed was destroyed
       [] Ev = "cbpanic"          -> Obs(/\ A[3] = 1 /\ A[5] = 1 /\ A[6] = 1
                                         /\ A[4] <= A[1] /\ A[7] = 0 /\ A[8] = 0 /\ A[9] <= A[1])
       [] OTHER -> FALSE          \* livelock / stuck / panic / unknown site: not a behaviour

TraceInit == Init /\ l = 1 /\ dmark = 0
TraceSpec == TraceInit /\ [][TraceNext]_tvars
TraceAccepted ==
  LET d == TLCGet("stats").diameter IN
  IF d - 1 = Len(Rec) THEN TRUE
  ELSE Print(<<"TRACE REJECTED at line", d, Rec[d]>>, FALSE)
=============================================================================
