---------------------------- MODULE SimBucket ----------------------------
(* Spec -> implementation: complete behaviours of Bucket.tla, printed as one *)
(* REPLAY line each (scenario + schedule).  The harness re-executes the      *)
(* schedule on the real AtomicBucket under its deterministic scheduler and   *)
(* the recorded run is validated by TraceBucket.                             *)
EXTENDS Bucket, Json
VARIABLE sched
SimInit == Init /\ sched = <<>>
SimNext == \/ \E p \in Pushers : PStep(p) /\ sched' = Append(sched, <<p, pc[p]>>)
           \/ CStep /\ sched' = Append(sched, <<Clearer, pc[Clearer]>>)
           \/ RStep /\ sched' = Append(sched, <<Reader, pc[Reader]>>)
           \/ EStep /\ sched' = Append(sched, <<Empt, pc[Empt]>>)
SimSpec == SimInit /\ [][SimNext]_<<vars, sched>>
Emit == Done => PrintT(<<"REPLAY", ToJson([prefill |-> Prefill, nvals |-> [p \in Pushers |-> NVals],
                                             clears |-> NClears, reads |-> NReads, empties |-> NEmpties,
                                             sched |-> sched, lost |-> Cardinality(LateLost)])>>)
=============================================================================
