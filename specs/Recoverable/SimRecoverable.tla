--------------------------- MODULE SimRecoverable ---------------------------
EXTENDS Recoverable, Json, Sequences
VARIABLE sched
SimInit == Init /\ sched = <<>>
SimNext == \/ \E e \in Emitters : (EUpgrade(e) \/ ECall(e) \/ ERelease(e) \/ ESkip(e)) /\ sched' = Append(sched, <<e, epc[e]>>)
           \/ (RTry \/ RDropHandle) /\ sched' = Append(sched, <<9, IF Mode = "drop" THEN "hdrop" ELSE "try">>)
SimSpec == SimInit /\ [][SimNext]_<<vars, sched>>
Emit == AllDone => PrintT(<<"REPLAY", ToJson([nemit |-> Cardinality(Emitters), ncalls |-> NCalls, mode |-> Mode, sched |-> sched])>>)
=============================================================================
