-------------------------- MODULE RecoverableProof --------------------------
(***************************************************************************)
(* TLAPS proof that the inductive invariant IndInv of RecoverableApa.tla   *)
(* (the very same definition Apalache checks for bounded set sizes) is     *)
(* inductive and implies the safety invariants of Recoverable.tla, for ANY *)
(* finite set Emitters (no size bound), any NCalls \in Nat and both modes: *)
(*     Spec => []Safety.                                                   *)
(* Run by checks/unbounded_recoverable.py:                                 *)
(*   tlapm --threads 4 --cleanfp -I <dir with a stub Apalache.tla> RecoverableProof.tla *)
(***************************************************************************)
EXTENDS RecoverableApa, FiniteSetTheorems, TLAPS

\* what ConstInit<n> of RecoverableApa.tla assumes, with "finite" in place of the size bound
ASSUME ConstAssump == IsFiniteSet(Emitters) /\ NCalls \in Nat /\ Mode \in {"into_inner", "drop"}

\* Inside is a finite set; its cardinality is a natural number, zero only when nobody is inside
LEMMA InsideFin == /\ IsFiniteSet(Inside)
                   /\ Cardinality(Inside) \in Nat
                   /\ (Cardinality(Inside) = 0 <=> Inside = {})
<1>1. Inside \in SUBSET Emitters
  BY DEF Inside
<1>2. IsFiniteSet(Inside)
  BY <1>1, ConstAssump, FS_Subset
<1> QED
  BY <1>2, FS_CardinalityType, FS_EmptySet

\* an emitter inside R holds a strong reference: the count is positive, so R is live
LEMMA InsidePos == ASSUME IndInv, NEW e \in Emitters, epc[e] \in {"call", "rel"}
                   PROVE  Cardinality(Inside) >= 1 /\ strong >= 1 /\ rstate = "live"
<1>1. e \in Inside
  BY DEF Inside
<1>2. Cardinality(Inside) \in Nat /\ Cardinality(Inside) # 0
  BY <1>1, InsideFin
<1> QED
  BY <1>2 DEF IndInv, CountInv, TypeInv

LEMMA InitInd == Init => IndInv
<1> SUFFICES ASSUME Init PROVE IndInv
  OBVIOUS
<1>1. Inside = {}
  BY DEF Init, Inside
<1>2. Cardinality(Inside) = 0
  BY <1>1, FS_EmptySet
<1> QED
  BY <1>2, ConstAssump DEF Init, IndInv, TypeInv, CountInv, EmitterInv

LEMMA StepInd == IndInv /\ [Next]_vars => IndInv'
<1> SUFFICES ASSUME IndInv, [Next]_vars PROVE IndInv'
  OBVIOUS
<1> USE ConstAssump
<1>0. Cardinality(Inside) \in Nat
  BY InsideFin
<1>1. ASSUME NEW e \in Emitters, EUpgrade(e) PROVE IndInv'
  <2>1. CASE strong > 0
    <3>1. Inside' = Inside \cup {e} /\ e \notin Inside
      BY <1>1, <2>1 DEF EUpgrade, Inside, IndInv, TypeInv
    <3>2. Cardinality(Inside') = Cardinality(Inside) + 1
      BY <3>1, InsideFin, FS_AddElement
    <3>3. TypeInv'
      BY <1>1, <2>1 DEF EUpgrade, IndInv, TypeInv
    <3>4. CountInv'
      BY <1>0, <1>1, <2>1, <3>2 DEF EUpgrade, IndInv, TypeInv, CountInv
    <3>5. EmitterInv'
      BY <1>1, <2>1 DEF EUpgrade, IndInv, TypeInv, CountInv, EmitterInv
    <3> QED
      BY <3>3, <3>4, <3>5 DEF IndInv
  <2>2. CASE ~(strong > 0)
    <3>1. Inside' = Inside
      BY <1>1, <2>2 DEF EUpgrade, Inside, IndInv, TypeInv
    <3>2. strong = 0 /\ ~handleHeld
      BY <1>0, <2>2 DEF IndInv, TypeInv, CountInv
    <3>3. TypeInv'
      BY <1>1, <2>2 DEF EUpgrade, IndInv, TypeInv
    <3>4. CountInv'
      BY <1>1, <2>2, <3>1 DEF EUpgrade, IndInv, TypeInv, CountInv
    <3>5. EmitterInv'
      BY <1>1, <2>2, <3>2 DEF EUpgrade, IndInv, TypeInv, EmitterInv
    <3> QED
      BY <3>3, <3>4, <3>5 DEF IndInv
  <2> QED
    BY <2>1, <2>2
<1>2. ASSUME NEW e \in Emitters, ECall(e) PROVE IndInv'
  <2>1. Inside' = Inside
    BY <1>2 DEF ECall, Inside, IndInv, TypeInv
  <2>2. rstate = "live"
    BY <1>2, InsidePos DEF ECall
  <2> QED
    BY <1>0, <1>2, <2>1, <2>2 DEF ECall, IndInv, TypeInv, CountInv, EmitterInv
<1>3. ASSUME NEW e \in Emitters, ERelease(e) PROVE IndInv'
  <2>1. Inside' = Inside \ {e} /\ e \in Inside
    BY <1>3 DEF ERelease, Inside, IndInv, TypeInv
  <2>2. Cardinality(Inside') = Cardinality(Inside) - 1
    BY <2>1, InsideFin, FS_RemoveElement
  <2>3. Cardinality(Inside) >= 1 /\ strong >= 1 /\ rstate = "live"
    BY <1>3, InsidePos DEF ERelease
  <2> QED
    BY <1>0, <1>3, <2>2, <2>3 DEF ERelease, IndInv, TypeInv, CountInv, EmitterInv
<1>4. ASSUME NEW e \in Emitters, ESkip(e) PROVE IndInv'
  <2>1. Inside' = Inside
    BY <1>4 DEF ESkip, Inside, IndInv, TypeInv
  <2> QED
    BY <1>0, <1>4, <2>1 DEF ESkip, IndInv, TypeInv, CountInv, EmitterInv
<1>5. CASE RTry
  <2>1. Inside' = Inside
    BY <1>5 DEF RTry, Inside
  <2>2. CASE strong = 1
    <3>1. Cardinality(Inside) = 0
      BY <1>0, <1>5, <2>2 DEF RTry, IndInv, CountInv
    <3>2. ~ \E e \in Emitters : epc[e] \in {"call", "rel"}
      BY <3>1, InsideFin DEF Inside
    <3> QED
      BY <1>0, <1>5, <2>1, <2>2, <3>1, <3>2 DEF RTry, IndInv, TypeInv, CountInv, EmitterInv
  <2>3. CASE strong # 1
    BY <1>0, <1>5, <2>1, <2>3 DEF RTry, IndInv, TypeInv, CountInv, EmitterInv
  <2> QED
    BY <2>2, <2>3
<1>6. CASE RDropHandle
  <2>1. Inside' = Inside
    BY <1>6 DEF RDropHandle, Inside
  <2> QED
    BY <1>0, <1>6, <2>1 DEF RDropHandle, IndInv, TypeInv, CountInv, EmitterInv
<1>7. CASE UNCHANGED vars
  <2>1. Inside' = Inside
    BY <1>7 DEF vars, Inside
  <2> QED
    BY <1>7, <2>1 DEF vars, IndInv, TypeInv, CountInv, EmitterInv
<1> QED
  BY <1>1, <1>2, <1>3, <1>4, <1>5, <1>6, <1>7 DEF Next

LEMMA IndSafe == IndInv => Safety
<1> SUFFICES ASSUME IndInv PROVE Safety
  OBVIOUS
<1>1. Cardinality(Inside) \in Nat
  BY InsideFin
<1>2. AllDone => Inside = {}
  BY DEF AllDone, Inside
<1>3. AllDone => Cardinality(Inside) = 0
  BY <1>2, FS_EmptySet
<1>4. StrongConsistent
  BY DEF StrongConsistent, IndInv, CountInv, Inside
<1> QED
  BY <1>1, <1>3, <1>4, ConstAssump DEF IndInv, TypeInv, CountInv, EmitterInv, Safety, NoCallAfterFinal, LiveWhileHandle,
     DroppedOnce, InertAfter, AllDone

THEOREM Correct == Spec => []Safety
<1>1. Init => IndInv BY InitInd
<1>2. IndInv /\ [Next]_vars => IndInv' BY StepInd
<1>3. IndInv => Safety BY IndSafe
<1> QED BY <1>1, <1>2, <1>3, PTL DEF Spec
=============================================================================
