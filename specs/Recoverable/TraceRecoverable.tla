-------------------------- MODULE TraceRecoverable --------------------------
EXTENDS Recoverable, Json, IOUtils, TLCExt, Sequences
VARIABLES l, rs   \* rs: processes whose release / handle drop was already matched at their probe.drop.post line
Rec == ndJsonDeserialize(IOEnv.TRACE)
tvars == <<vars, l, rs>>
Ev == Rec[l].ev
P == Rec[l].p
A == Rec[l].a
Recoverer == 9
Go(rsNew) == l' = l + 1 /\ rs' = rsNew
Obs(cond) == cond /\ Go(rs) /\ UNCHANGED vars

Reset ==
  /\ strong' = 1 /\ rstate' = "live" /\ libDrops' = 0
  /\ epc' = [e \in Emitters |-> "upg"] /\ ecnt' = [e \in Emitters |-> 0]
  /\ rpc' = "wait" /\ handleHeld' = TRUE
  /\ entered' = 0 /\ ignored' = 0 /\ bad' = FALSE

\* real-parallel run: schedule-independent facts
FreeOK(r) ==
  /\ r.recovered_ok                         \* into_inner returned the original, not finalised
  /\ r.calls_after_return = 0              \* nobody was inside the recorder when into_inner returned
  /\ r.calls_after_final = 0               \* no call entered after finalisation began
  /\ r.lib_drops = (IF r.drop_mode THEN 1 ELSE 0)   \* dropped exactly once / never by the library when recovered
  /\ \A t \in DOMAIN r.rles :             \* per thread, in program order: reaches R ... then ignored, never back
        LET R == r.rles[t] IN
        /\ Len(R) <= 2 /\ \A k \in DOMAIN R : R[k][1] \in {0, 1}
        /\ (Len(R) = 2 => (R[1][1] = 1 /\ R[2][1] = 0))

TraceNext ==
  /\ l <= Len(Rec)
  /\ CASE Ev = "reset"           -> A[1] = (IF Mode = "drop" THEN 1 ELSE 0) /\ Reset /\ Go({})
       [] Ev = "start.pre"       -> Obs(TRUE)
       [] Ev = "rec.upgrade.pre" -> EUpgrade(P) /\ Go(rs)
       [] Ev = "probe.call.pre"  -> ECall(P) /\ Go(rs)
       [] Ev = "probe.call.post" -> Obs(A[1] = 0 /\ epc[P] = "rel")       \* the recorder was not finalised when entered
       [] Ev = "probe.drop.post" -> \* the library drops R: by the emitter releasing the last reference, or by the handle drop
                                    IF P = Recoverer THEN strong = 1 /\ RDropHandle /\ Go(rs \cup {P})
                                    ELSE strong = 1 /\ ERelease(P) /\ Go(rs \cup {P})
       [] Ev = "emit.done.post"  -> IF P \in rs THEN A[1] = 1 /\ Go(rs \ {P}) /\ UNCHANGED vars
                                    ELSE IF epc[P] = "rel" THEN A[1] = 1 /\ strong > 1 /\ ERelease(P) /\ Go(rs)
                                    ELSE A[1] = 0 /\ ESkip(P) /\ Go(rs)
       [] Ev = "rec.unwrap.pre"  -> RTry /\ Go(rs)
       [] Ev = "into_inner.done.post" -> Obs(rpc = "done" /\ rstate = "recovered" /\ A[1] = 7 /\ A[2] = 0)
       [] Ev = "handle.drop.pre" -> Obs(Mode = "drop" /\ rpc = "wait")
       [] Ev = "handle.dropped.post" -> IF P \in rs THEN Go(rs \ {P}) /\ UNCHANGED vars
                                        ELSE strong > 1 /\ RDropHandle /\ Go(rs)
       [] Ev = "final"           -> Obs((\A e \in Emitters : epc[e] = "upg") /\ rpc = "done" /\ A[1] = libDrops /\ A[3] = 0 /\ A[2] = entered /\ rs = {})
       [] Ev = "install"         -> Obs(InstallOutcomeOK(A[1] = 1, A[2] = 1, A[3], A[4] = 1, A[5])
                                        /\ A[6] = 1        \* emissions reach the installed recorder while the handle lives
                                        /\ A[7] = 1        \* into_inner returned the original recorder
                                        /\ A[8] = 0        \* emissions after recovery are ignored
                                        /\ A[9] = 0)       \* the library never dropped it
       [] Ev = "free"            -> Obs(FreeOK(Rec[l]))
       [] OTHER -> FALSE

TraceInit == Init /\ l = 1 /\ rs = {}
TraceSpec == TraceInit /\ [][TraceNext]_tvars
TraceAccepted ==
  LET d == TLCGet("stats").diameter IN
  IF d - 1 = Len(Rec) THEN TRUE
  ELSE Print(<<"TRACE REJECTED at line", d, Rec[d]>>, FALSE)
=============================================================================
