----------------------------- MODULE Recoverable -----------------------------
(***************************************************************************)
(* metrics-util/src/recoverable.rs.  The installed wrapper holds a Weak    *)
(* reference; the RecoveryHandle holds the only long-lived strong one.     *)
(*                                                                         *)
(* Emitter e, NCalls emissions through the wrapper:                        *)
(*    upg  : Weak::upgrade()        (atomic: succeeds iff strong > 0)      *)
(*    call : the wrapped recorder's method runs                            *)
(*    rel  : the temporary Arc is dropped (strong - 1; last one drops R)   *)
(* Recoverer, Mode = "into_inner": loop { Arc::try_unwrap } (succeeds iff  *)
(*    strong = 1);  Mode = "drop": the handle is dropped.                  *)
(***************************************************************************)
EXTENDS Naturals, FiniteSets, TLC
CONSTANTS Emitters, NCalls, Mode

VARIABLES
  strong,     \* strong count of the Arc<R>
  rstate,     \* "live" | "recovered" (into_inner returned it) | "dropped"
  libDrops,   \* times the library dropped R
  epc, ecnt,  \* emitter pc: "upg" | "call" | "rel" | "skip" ; emissions done
  rpc,        \* recoverer: "wait" | "done"
  handleHeld, \* the RecoveryHandle still exists
  entered,    \* emissions that ran inside R      [history]
  ignored,    \* emissions that got an inert handle [history]
  bad         \* a call entered R after it was recovered/dropped, or into_inner returned with a call inside [history]

vars == <<strong, rstate, libDrops, epc, ecnt, rpc, handleHeld, entered, ignored, bad>>

Init ==
  /\ strong = 1 /\ rstate = "live" /\ libDrops = 0
  /\ epc = [e \in Emitters |-> "upg"] /\ ecnt = [e \in Emitters |-> 0]
  /\ rpc = "wait" /\ handleHeld = TRUE
  /\ entered = 0 /\ ignored = 0 /\ bad = FALSE

EUpgrade(e) ==
  /\ epc[e] = "upg" /\ ecnt[e] < NCalls
  /\ IF strong > 0
       THEN strong' = strong + 1 /\ epc' = [epc EXCEPT ![e] = "call"]
       ELSE epc' = [epc EXCEPT ![e] = "skip"] /\ UNCHANGED strong
  /\ UNCHANGED <<rstate, libDrops, ecnt, rpc, handleHeld, entered, ignored, bad>>

ECall(e) ==
  /\ epc[e] = "call"
  /\ bad' = (bad \/ rstate # "live")
  /\ entered' = entered + 1
  /\ epc' = [epc EXCEPT ![e] = "rel"]
  /\ UNCHANGED <<strong, rstate, libDrops, ecnt, rpc, handleHeld, ignored>>

\* dropping the temporary Arc; the last strong reference drops (finalises) R
ERelease(e) ==
  /\ epc[e] = "rel"
  /\ strong' = strong - 1
  /\ IF strong = 1 THEN rstate' = "dropped" /\ libDrops' = libDrops + 1 ELSE UNCHANGED <<rstate, libDrops>>
  /\ epc' = [epc EXCEPT ![e] = "upg"] /\ ecnt' = [ecnt EXCEPT ![e] = @ + 1]
  /\ UNCHANGED <<rpc, handleHeld, entered, ignored, bad>>

\* the wrapper returned an inert handle / ignored the description
ESkip(e) ==
  /\ epc[e] = "skip"
  /\ ignored' = ignored + 1
  /\ epc' = [epc EXCEPT ![e] = "upg"] /\ ecnt' = [ecnt EXCEPT ![e] = @ + 1]
  /\ UNCHANGED <<strong, rstate, libDrops, rpc, handleHeld, entered, bad>>

\* one iteration of into_inner's loop
RTry ==
  /\ Mode = "into_inner" /\ rpc = "wait"
  /\ IF strong = 1
       THEN /\ strong' = 0 /\ rstate' = "recovered" /\ rpc' = "done" /\ handleHeld' = FALSE
            /\ bad' = (bad \/ \E e \in Emitters : epc[e] \in {"call", "rel"})
       ELSE UNCHANGED <<strong, rstate, rpc, handleHeld, bad>>
  /\ UNCHANGED <<libDrops, epc, ecnt, entered, ignored>>

RDropHandle ==
  /\ Mode = "drop" /\ rpc = "wait"
  /\ strong' = strong - 1 /\ handleHeld' = FALSE /\ rpc' = "done"
  /\ IF strong = 1 THEN rstate' = "dropped" /\ libDrops' = libDrops + 1 ELSE UNCHANGED <<rstate, libDrops>>
  /\ UNCHANGED <<epc, ecnt, entered, ignored, bad>>

Next == (\E e \in Emitters : EUpgrade(e) \/ ECall(e) \/ ERelease(e) \/ ESkip(e)) \/ RTry \/ RDropHandle
Spec == Init /\ [][Next]_vars
\* into_inner terminates if emitters eventually leave the recorder
FairSpec == Spec /\ WF_vars(RTry) /\ \A e \in Emitters : WF_vars(ECall(e)) /\ WF_vars(ERelease(e)) /\ WF_vars(EUpgrade(e)) /\ WF_vars(ESkip(e))

-----------------------------------------------------------------------------
AllDone == (\A e \in Emitters : ecnt[e] = NCalls /\ epc[e] = "upg") /\ rpc = "done"
\* no call enters R after its finalisation began; into_inner returns only with nobody inside
NoCallAfterFinal == ~bad
\* while the handle is alive every emission reaches the recorder
LiveWhileHandle == handleHeld => (strong >= 1 /\ rstate = "live" /\ ignored = 0)
\* dropped exactly once (never by the library when recovered)
DroppedOnce == /\ libDrops <= 1
               /\ (rstate = "recovered" => libDrops = 0)
               /\ (AllDone /\ Mode = "drop" => libDrops = 1 /\ rstate = "dropped")
StrongConsistent == strong = (IF handleHeld THEN 1 ELSE 0) + Cardinality({e \in Emitters : epc[e] \in {"call", "rel"}})
InertAfter == \A e \in Emitters : epc[e] = "skip" => (~handleHeld /\ strong = 0)
\* a failed install (a global recorder already exists) hands the original recorder back, intact and not dropped
InstallOutcomeOK(firstOk, secondOk, backId, backFinalised, backDrops) ==
  firstOk /\ ~secondOk /\ backId = 2 /\ ~backFinalised /\ backDrops = 0
EventuallyRecovered == (Mode = "into_inner") => <>(rpc = "done")
=============================================================================
