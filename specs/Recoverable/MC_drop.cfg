SPECIFICATION Spec
CONSTANTS
 Emitters = {1,2,3}
 NCalls = 2
 Mode = "drop"
INVARIANTS NoCallAfterFinal LiveWhileHandle DroppedOnce StrongConsistent InertAfter
CHECK_DEADLOCK FALSE
