--------------------------- MODULE RecoverableApa ---------------------------
(***************************************************************************)
(* Unbounded safety argument for Recoverable.tla with Apalache: a typed    *)
(* wrapper (actions and invariants are those of Recoverable.tla, brought   *)
(* in by INSTANCE, nothing is copied) plus an inductive invariant IndInv.  *)
(* Obligations, run by checks/unbounded_recoverable.py:                    *)
(*   (a) Init => IndInv             --init=Init   --inv=IndInv --length=0  *)
(*   (b) IndInv /\ Next => IndInv'  --init=IndInv --inv=IndInv --length=1  *)
(*   (c) IndInv => Safety           --init=IndInv --inv=Safety --length=0  *)
(* for ALL sets Emitters of integers with at most n elements               *)
(* (ConstInit<n>), ALL NCalls >= 0 and both modes.                         *)
(***************************************************************************)
EXTENDS Integers, FiniteSets, Apalache

CONSTANTS
  \* @type: Set(Int);
  Emitters,
  \* @type: Int;
  NCalls,
  \* @type: Str;
  Mode

VARIABLES
  \* @type: Int;
  strong,
  \* @type: Str;
  rstate,
  \* @type: Int;
  libDrops,
  \* @type: Int -> Str;
  epc,
  \* @type: Int -> Int;
  ecnt,
  \* @type: Str;
  rpc,
  \* @type: Bool;
  handleHeld,
  \* @type: Int;
  entered,
  \* @type: Int;
  ignored,
  \* @type: Bool;
  bad

INSTANCE Recoverable

\* any finite set of emitters with at most n elements, any number of calls, either mode
CInit(n) ==
  /\ Emitters = Gen(n)
  /\ NCalls = Gen(1)
  /\ NCalls >= 0
  /\ Mode \in {"into_inner", "drop"}
ConstInit4 == CInit(4)
ConstInit6 == CInit(6)
ConstInit8 == CInit(8)
ConstInit12 == CInit(12)

\* emitters that hold a temporary strong reference
Inside == {e \in Emitters : epc[e] \in {"call", "rel"}}

TypeInv ==
  /\ strong \in Int /\ strong >= 0
  /\ rstate \in {"live", "recovered", "dropped"}
  /\ libDrops \in {0, 1}
  /\ epc \in [Emitters -> {"upg", "call", "rel", "skip"}]
  /\ ecnt \in [Emitters -> Int]
  /\ rpc \in {"wait", "done"}
  /\ handleHeld \in BOOLEAN
  /\ entered \in Int /\ entered >= 0
  /\ ignored \in Int /\ ignored >= 0
  /\ bad \in BOOLEAN

\* the strong count is exactly the handle plus the emitters inside; R is live exactly while it is positive
CountInv ==
  /\ strong = (IF handleHeld THEN 1 ELSE 0) + Cardinality(Inside)
  /\ handleHeld <=> rpc = "wait"
  /\ rstate = "live" <=> strong >= 1
  /\ handleHeld => (ignored = 0 /\ libDrops = 0)
  /\ rstate = "recovered" => (Mode = "into_inner" /\ libDrops = 0)
  /\ rstate = "dropped" <=> libDrops = 1
  /\ rstate = "dropped" => Mode = "drop"
  /\ (~handleHeld /\ Mode = "into_inner") => rstate = "recovered"
  /\ ~bad

EmitterInv ==
  \A e \in Emitters :
    /\ epc[e] = "skip" => (~handleHeld /\ strong = 0)
    /\ ecnt[e] >= 0 /\ ecnt[e] <= NCalls
    /\ epc[e] \in {"call", "rel", "skip"} => ecnt[e] < NCalls

IndInv == TypeInv /\ CountInv /\ EmitterInv

\* the invariants checks/c20.py gives to TLC
Safety == NoCallAfterFinal /\ LiveWhileHandle /\ DroppedOnce /\ StrongConsistent /\ InertAfter

\* Next plus stuttering: a finished run is not a deadlock
NextS == Next \/ UNCHANGED vars
=============================================================================
