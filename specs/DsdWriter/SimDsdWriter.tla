----------------------------- MODULE SimDsdWriter -----------------------------
EXTENDS MCDsdWriter, Json
VARIABLE h
SimInit == MCInit /\ h = <<>>
SimNext == /\ nops < MaxOps /\ nops' = nops + 1
           /\ \/ \E m \in Simple : WriteSimple(m) /\ h' = Append(h, m)
              \/ \E m \in Hists : WriteHist(m) /\ h' = Append(h, m)
              \/ Drain /\ h' = Append(h, "drain")
SimSpec == SimInit /\ [][SimNext]_<<vars, nops, h>>
Emit == (nops = MaxOps) => PrintT(<<"REPLAY", ToJson([max |-> Max, lp |-> LenPrefix, ops |-> Append(h, "drain")])>>)
=============================================================================
