SPECIFICATION MCSpec
CONSTANTS
 Max = 12
 LenPrefix = FALSE
 FixReject = TRUE
 FixDrain = TRUE
 FixPrefix = FALSE
 MaxOps = 2
INVARIANTS NoPanic AsReference PlaceholderPresent
CHECK_DEADLOCK FALSE
