SPECIFICATION MCSpec
CONSTANTS
 Max = 12
 LenPrefix = TRUE
 FixReject = TRUE
 FixDrain = FALSE
 FixPrefix = TRUE
 MaxOps = 3
INVARIANTS NoPanic AsReference PlaceholderPresent
CHECK_DEADLOCK FALSE
