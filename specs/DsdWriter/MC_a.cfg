SPECIFICATION MCSpec
CONSTANTS
 Max = 12
 LenPrefix = TRUE
 FixReject = TRUE
 FixDrain = TRUE
 FixPrefix = TRUE
 MaxOps = 2
INVARIANTS NoPanic AsReference PlaceholderPresent
CHECK_DEADLOCK FALSE
