--------------------------- MODULE TraceDsdWriter ---------------------------
EXTENDS DsdWriter, Json, IOUtils, TLCExt
VARIABLE l
Rec == ndJsonDeserialize(IOEnv.TRACE)
tvars == <<vars, l>>
Ev == Rec[l].ev
Step == l' = l + 1
Obs(cond) == cond /\ Step /\ UNCHANGED vars

Reset == /\ buf' = Placeholder /\ offsets' = <<>> /\ out' = <<>> /\ lastRes' = <<0, 0>>
         /\ panicked' = FALSE /\ pending' = <<>> /\ ok' = TRUE

\* the harness checked independently that every value token parses back to the bit-identical number
TraceNext ==
  /\ l <= Len(Rec)
  /\ CASE Ev = "reset" -> Rec[l].max = Max /\ Rec[l].lp = LenPrefix /\ Reset /\ Step
       [] Ev = "write" -> LET m == Rec[l].m IN
                          /\ Rec[l].tok_ok
                          /\ (IF m.type \in {99, 103} THEN WriteSimple(m) ELSE WriteHist(m))
                          /\ lastRes' = Rec[l].res            \* payloads_written / points_dropped as reported
                          /\ Step
       [] Ev = "drain" -> Drain /\ out' = Rec[l].out /\ Step   \* byte-for-byte what payloads() yields
       \* volume run: several MiB serialised in one cycle, then small cycles; the harness judged every payload by the framing law
       [] Ev = "bulk"  -> Obs(Rec[l].bad_big = 0 /\ Rec[l].bad_after = 0 /\ Rec[l].payloads > 0)
       [] Ev = "final" -> Obs(TRUE)
       [] OTHER -> FALSE                                      \* panic / unknown

TraceInit == Init /\ l = 1
TraceSpec == TraceInit /\ [][TraceNext]_tvars
TraceAccepted ==
  LET d == TLCGet("stats").diameter IN
  IF d - 1 = Len(Rec) THEN TRUE
  ELSE Print(<<"TRACE REJECTED at line", d, Rec[d].ev>>, FALSE)
=============================================================================
