----------------------------- MODULE MCDsdWriter -----------------------------
EXTENDS DsdWriter
CONSTANT MaxOps
VARIABLE nops

A == 97  B == 98  D1 == 49  D2 == 50
T(k, v) == [k |-> k, v |-> v]
Met(type, prefix, name, vals, rate, gtags, tags, ts) ==
  [type |-> type, prefix |-> prefix, name |-> name, vals |-> vals, rate |-> rate, gtags |-> gtags, tags |-> tags, ts |-> ts]

Names == {<<>>, <<A>>, <<A, B, A>>}
Prefixes == {<<>>, <<B>>}
TagSets == {<<>>, <<T(<<A>>, <<D1>>)>>, <<T(<<B>>, <<>>)>>}
Toks == {<<D1>>, <<D1, D2, D1>>}
Simple == {Met(99, p, n, <<v>>, <<>>, g, t, ts) : p \in Prefixes, n \in Names, v \in Toks, g \in {<<>>, <<T(<<B>>, <<D2>>)>>}, t \in TagSets, ts \in {<<>>, <<D1, D2>>}}
ValLists == {<<>>, <<<<D1>>>>, <<<<D1>>, <<D2>>>>, <<<<D1, D2, D1>>, <<D2>>, <<D1>>>>, <<<<D1>>, <<D1, D2, D1, D2, D1, D2, D1, D2>>, <<D2>>>>}
Hists == {Met(104, p, n, vs, r, <<>>, t, <<>>) : p \in Prefixes, n \in {<<A>>, <<A, B, A>>}, vs \in ValLists, r \in {<<>>, <<D1>>}, t \in {<<>>, <<T(<<A>>, <<D1>>)>>}}

MCInit == Init /\ nops = 0
MCNext == /\ nops < MaxOps /\ nops' = nops + 1
          /\ \/ \E m \in Simple : WriteSimple(m)
             \/ \E m \in Hists : WriteHist(m)
             \/ Drain
MCSpec == MCInit /\ [][MCNext]_<<vars, nops>>
=============================================================================
