------------------------------ MODULE DsdWriter ------------------------------
(***************************************************************************)
(* metrics-exporter-dogstatsd/src/writer.rs: PayloadWriter.                *)
(*                                                                         *)
(* Two layers:                                                             *)
(*  - the MECHANISM: the byte buffer, the committed offsets, the length    *)
(*    prefix placeholder, commit / truncate, the streaming split of        *)
(*    histogram values -- transcribed from the code, one action per public *)
(*    call (write_counter, write_gauge, write_histogram/distribution,      *)
(*    payloads()+drop);                                                    *)
(*  - the REFERENCE: what a complete DogStatsD message for the given       *)
(*    metric looks like and how a value list is to be partitioned, written *)
(*    from the wire format, without any buffer.                            *)
(* The property is that the mechanism always produces the reference.       *)
(*                                                                         *)
(* Bytes are their ASCII codes; names, tags and value tokens are           *)
(* sequences of bytes (value tokens are produced by itoa / ryu in the      *)
(* code: here they are data).                                              *)
(*                                                                         *)
(* FixReject / FixDrain / FixPrefix = TRUE is the repaired code; FALSE     *)
(* re-creates findings CF09a (placeholder lost after a rejected metric),   *)
(* CF09b (placeholder lost after a drain), CF09c (prefix not counted in    *)
(* the histogram minimum length -> assert!(commit()) panics).              *)
(***************************************************************************)
EXTENDS Naturals, Integers, Sequences, FiniteSets, TLC

CONSTANTS Max,          \* max_payload_len
          LenPrefix,    \* with_length_prefix
          FixReject, FixDrain, FixPrefix

COLON == 58  PIPE == 124  HASH == 35  COMMA == 44  AT == 64  TEE == 84  NL == 10  DOT == 46
ZeroBytes == <<0, 0, 0, 0>>
LpLen == IF LenPrefix THEN 4 ELSE 0

VARIABLES buf, offsets,     \* the mechanism
          out,              \* payloads handed out by the last drain (sequence of byte sequences)
          lastRes,          \* result of the last write: <<payloads_written, points_dropped>>
          panicked,         \* an assert / arithmetic underflow was hit
          pending,          \* REFERENCE: payloads (without length prefix) that the writes since the last drain must produce
          ok                \* verdict: every write produced exactly the reference result
vars == <<buf, offsets, out, lastRes, panicked, pending, ok>>

-----------------------------------------------------------------------------
(* helpers over byte sequences                                             *)
RECURSIVE Flat(_)
Flat(ss) == IF ss = <<>> THEN <<>> ELSE Head(ss) \o Flat(Tail(ss))
Last(s) == s[Len(s)]
LastOffset == IF offsets = <<>> THEN 0 ELSE Last(offsets)
LE32(n) == <<n % 256, (n \div 256) % 256, (n \div 65536) % 256, (n \div 16777216) % 256>>

\* a tag: [k |-> bytes, v |-> bytes]; a bare tag when the value is empty
TagBytes(t) == IF t.v = <<>> THEN t.k ELSE t.k \o <<COLON>> \o t.v
RECURSIVE JoinTags(_)
JoinTags(ts) == IF Len(ts) = 1 THEN TagBytes(ts[1]) ELSE TagBytes(ts[1]) \o <<COMMA>> \o JoinTags(Tail(ts))

\* write_metric_trailer: [|@rate][|#tags][|T ts] \n      (global tags first, then the metric's own)
Trailer(rate, gtags, tags, ts) ==
  (IF rate = <<>> THEN <<>> ELSE <<PIPE, AT>> \o rate)
  \o (IF gtags \o tags = <<>> THEN <<>> ELSE <<PIPE, HASH>> \o JoinTags(gtags \o tags))
  \o (IF ts = <<>> THEN <<>> ELSE <<PIPE, TEE>> \o ts)
  \o <<NL>>

FullName(prefix, name) == IF prefix = <<>> THEN name ELSE prefix \o <<DOT>> \o name

\* REFERENCE: one complete message  [prefix.]name:v1:...:vk|type<trailer>
RECURSIVE ValuePart(_)
ValuePart(vals) == IF vals = <<>> THEN <<>> ELSE <<COLON>> \o Head(vals) \o ValuePart(Tail(vals))
Message(m, vals) == FullName(m.prefix, m.name) \o ValuePart(vals) \o <<PIPE, m.type>> \o Trailer(m.rate, m.gtags, m.tags, m.ts)

-----------------------------------------------------------------------------
(* MECHANISM                                                               *)
Placeholder == IF LenPrefix THEN ZeroBytes ELSE <<>>

Init ==
  /\ buf = Placeholder /\ offsets = <<>> /\ out = <<>> /\ lastRes = <<0, 0>>
  /\ panicked = FALSE /\ pending = <<>> /\ ok = TRUE

\* commit() applied to a buffer b with committed offsets o: returns [b, o, okc, under]
Commit(b, o) ==
  LET lo == IF o = <<>> THEN 0 ELSE Last(o)
      cl == Len(b) - lo - LpLen            \* current_len(); usize: negative = underflow
  IN IF cl < 0 THEN [b |-> b, o |-> o, okc |-> FALSE, under |-> TRUE]
     ELSE IF cl > Max
       THEN [b |-> SubSeq(b, 1, lo) \o (IF FixReject THEN Placeholder ELSE <<>>), o |-> o, okc |-> FALSE, under |-> FALSE]
       ELSE LET patched == IF LenPrefix
                             THEN SubSeq(b, 1, lo) \o LE32(cl) \o SubSeq(b, lo + 5, Len(b))
                             ELSE b
            IN [b |-> patched \o Placeholder, o |-> Append(o, Len(b)), okc |-> TRUE, under |-> FALSE]

\* REFERENCE for a single-value metric (counter / gauge)
RefSimple(m) == LET msg == Message(m, <<m.vals[1]>>) IN
                IF Len(msg) <= Max THEN [pl |-> <<msg>>, res |-> <<1, 0>>] ELSE [pl |-> <<>>, res |-> <<0, 1>>]

\* write_counter / write_gauge: append the whole message, then commit
WriteSimple(m) ==
  /\ ~panicked
  /\ LET b1 == buf \o Message(m, <<m.vals[1]>>)
         c == Commit(b1, offsets)
         ref == RefSimple(m)
     IN /\ buf' = c.b /\ offsets' = c.o
        /\ panicked' = c.under
        /\ lastRes' = IF c.okc THEN <<1, 0>> ELSE <<0, 1>>
        /\ pending' = pending \o ref.pl
        /\ ok' = (ok /\ ~c.under /\ lastRes' = ref.res)
  /\ UNCHANGED out

\* ---- write_histogram / write_distribution -------------------------------
\* REFERENCE: values that cannot fit even alone are dropped; the rest are packed greedily, in order,
\* into messages of at most Max bytes.
Overhead(m) == Len(Message(m, <<>>))               \* everything but the values
Fits(m, chunk) == Len(Message(m, chunk)) <= Max
RECURSIVE Pack(_, _, _)
\* Pack(m, vals, cur): cur = values of the message being filled
Pack(m, vals, cur) ==
  IF vals = <<>> THEN (IF cur = <<>> THEN <<>> ELSE <<cur>>)
  ELSE LET v == Head(vals) IN
       IF ~Fits(m, <<v>>) THEN Pack(m, Tail(vals), cur)                       \* dropped
       ELSE IF Fits(m, Append(cur, v)) THEN Pack(m, Tail(vals), Append(cur, v))
       ELSE <<cur>> \o Pack(m, Tail(vals), <<v>>)
DroppedCount(m, vals) == Cardinality({i \in DOMAIN vals : ~Fits(m, <<vals[i]>>)})
RefHist(m) ==
  IF Overhead(m) + 2 > Max                      \* not even ":0" fits: nothing can be written
    THEN [pl |-> <<>>, res |-> <<0, Len(m.vals)>>]
    ELSE LET chunks == Pack(m, m.vals, <<>>) IN
         [pl |-> [i \in DOMAIN chunks |-> Message(m, chunks[i])], res |-> <<Len(chunks), DroppedCount(m, m.vals)>>]

\* MECHANISM: the streaming loop of write_hist_dist_inner, as a fold over the values.
\* st = [b, o, need (needs_name), cl (shadow current_len), w (payloads written), d (dropped), pan]
HistStep(m, minLen, trailer, st, v) ==
  IF st.pan THEN st
  ELSE IF minLen + Len(v) + 1 > Max THEN [st EXCEPT !.d = @ + 1]
  ELSE LET flush == st.cl + Len(v) + 1 > Max
           c == IF flush THEN Commit(st.b \o <<PIPE, m.type>> \o trailer, st.o) ELSE [b |-> st.b, o |-> st.o, okc |-> TRUE, under |-> FALSE]
           st1 == IF flush THEN [st EXCEPT !.b = c.b, !.o = c.o, !.need = TRUE, !.cl = minLen, !.w = @ + 1, !.pan = ~c.okc]
                  ELSE st
       IN IF st1.pan THEN st1
          ELSE LET b2 == IF st1.need THEN st1.b \o FullName(m.prefix, m.name) ELSE st1.b
               IN [st1 EXCEPT !.b = b2 \o <<COLON>> \o v, !.need = FALSE, !.cl = @ + Len(v) + 1]

RECURSIVE HistFold(_, _, _, _, _)
HistFold(m, minLen, trailer, st, vals) ==
  IF vals = <<>> THEN st ELSE HistFold(m, minLen, trailer, HistStep(m, minLen, trailer, st, Head(vals)), Tail(vals))

WriteHist(m) ==
  /\ ~panicked
  /\ LET trailer == Trailer(m.rate, m.gtags, m.tags, <<>>)
         prefixLen == IF m.prefix = <<>> \/ ~FixPrefix THEN 0 ELSE Len(m.prefix) + 1
         minLen == prefixLen + Len(m.name) + Len(trailer) + 2
         ref == RefHist(m)
     IN IF minLen + 2 > Max
          THEN /\ lastRes' = <<0, Len(m.vals)>> /\ UNCHANGED <<buf, offsets, panicked>>
               /\ pending' = pending \o ref.pl
               /\ ok' = (ok /\ lastRes' = ref.res)
          ELSE LET st0 == [b |-> buf, o |-> offsets, need |-> TRUE, cl |-> minLen, w |-> 0, d |-> 0, pan |-> FALSE]
                   st == HistFold(m, minLen, trailer, st0, m.vals)
                   \* "if self.current_len() != 0": uncommitted values remain
                   lo == IF st.o = <<>> THEN 0 ELSE Last(st.o)
                   rem == Len(st.b) - lo - LpLen
                   c == IF st.pan \/ rem = 0 THEN [b |-> st.b, o |-> st.o, okc |-> TRUE, under |-> rem < 0]
                        ELSE Commit(st.b \o <<PIPE, m.type>> \o trailer, st.o)
                   pan == st.pan \/ rem < 0 \/ ~c.okc
               IN /\ buf' = c.b /\ offsets' = c.o /\ panicked' = pan
                  /\ lastRes' = <<st.w + (IF ~st.pan /\ rem > 0 /\ c.okc THEN 1 ELSE 0), st.d>>
                  /\ pending' = pending \o ref.pl
                  /\ ok' = (ok /\ ~pan /\ lastRes' = ref.res)
  /\ UNCHANGED out

\* payloads() iterated to the end and dropped
RECURSIVE Slices(_, _, _)
Slices(b, start, offs) == IF offs = <<>> THEN <<>> ELSE <<SubSeq(b, start + 1, Head(offs))>> \o Slices(b, Head(offs), Tail(offs))
WithHeader(p) == IF LenPrefix THEN LE32(Len(p)) \o p ELSE p
Drain ==
  /\ ~panicked
  /\ out' = Slices(buf, 0, offsets)
  /\ buf' = (IF FixDrain THEN Placeholder ELSE <<>>) /\ offsets' = <<>>
  \* every payload handed out is exactly a reference message (preceded by its exact LE length), none longer than Max
  /\ ok' = (ok /\ out' = [i \in DOMAIN pending |-> WithHeader(pending[i])]
               /\ \A i \in DOMAIN pending : Len(pending[i]) <= Max)
  /\ pending' = <<>>
  /\ UNCHANGED <<lastRes, panicked>>

-----------------------------------------------------------------------------
(* Properties                                                              *)
NoPanic == ~panicked
AsReference == ok
\* the buffer always ends with the placeholder of the next payload
PlaceholderPresent == LenPrefix => (Len(buf) >= LastOffset + 4)
Bounded == \A i \in DOMAIN pending : Len(pending[i]) <= Max
=============================================================================
