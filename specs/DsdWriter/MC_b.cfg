SPECIFICATION MCSpec
CONSTANTS
 Max = 8
 LenPrefix = FALSE
 FixReject = TRUE
 FixDrain = TRUE
 FixPrefix = TRUE
 MaxOps = 2
INVARIANTS NoPanic AsReference PlaceholderPresent
CHECK_DEADLOCK FALSE
