---- MODULE MCPromText_TTrace_1791070095 ----
EXTENDS Sequences, TLCExt, MCPromText, Toolbox, Naturals, TLC

_expression ==
    LET MCPromText_TEExpression == INSTANCE MCPromText_TEExpression
    IN MCPromText_TEExpression!expression
----

_trace ==
    LET MCPromText_TETrace == INSTANCE MCPromText_TETrace
    IN MCPromText_TETrace!trace
----

_inv ==
    ~(
        TLCGet("level") = Len(_TETrace)
        /\
        rs = ([name |-> <<>>, ty |-> <<>>, q |-> "bol", tok |-> <<>>, lnames |-> {}, err |-> "", cur |-> <<109>>, curType |-> <<99, 111, 117, 110, 116, 101, 114>>, curHelp |-> TRUE, curSamples |-> TRUE, closed |-> {}, cf08 |-> TRUE, nHelp |-> 1, nType |-> 1, nSample |-> 1, nBlank |-> 0, nLabel |-> 2])
        /\
        pc = ([s |-> 2, f |-> 1, ph |-> "series"])
        /\
        inp = ([cfg |-> [suffix |-> TRUE, globals |-> <<<<<<107>>, <<118>>>>, <<<<103>>, <<120>>>>>>, buckets |-> <<>>, quantiles |-> <<<<48>>, <<48, 46, 53>>, <<49>>>>], fams |-> <<[kind |-> "counter", name |-> <<109>>, described |-> TRUE, desc |-> <<100>>, unit |-> "Percent", series |-> <<[labels |-> <<>>], [labels |-> <<<<<<119>>, <<120>>>>, <<<<107>>, <<119>>>>>>]>>], [kind |-> "counter", name |-> <<122>>, described |-> FALSE, desc |-> <<>>, unit |-> "none", series |-> <<[labels |-> <<>>]>>]>>])
        /\
        out = (<<35, 32, 72, 69, 76, 80, 32, 109, 32, 100, 10, 35, 32, 84, 89, 80, 69, 32, 109, 32, 99, 111, 117, 110, 116, 101, 114, 10, 109, 95, 114, 97, 116, 105, 111, 123, 107, 61, 34, 118, 34, 44, 103, 61, 34, 120, 34, 125, 32, 48, 10>>)
    )
----

_init ==
    /\ inp = _TETrace[1].inp
    /\ pc = _TETrace[1].pc
    /\ rs = _TETrace[1].rs
    /\ out = _TETrace[1].out
----

_next ==
    /\ \E i,j \in DOMAIN _TETrace:
        /\ \/ /\ j = i + 1
              /\ i = TLCGet("level")
        /\ inp  = _TETrace[i].inp
        /\ inp' = _TETrace[j].inp
        /\ pc  = _TETrace[i].pc
        /\ pc' = _TETrace[j].pc
        /\ rs  = _TETrace[i].rs
        /\ rs' = _TETrace[j].rs
        /\ out  = _TETrace[i].out
        /\ out' = _TETrace[j].out

\* Uncomment the ASSUME below to write the states of the error trace
\* to the given file in Json format. Note that you can pass any tuple
\* to `JsonSerialize`. For example, a sub-sequence of _TETrace.
    \* ASSUME
    \*     LET J == INSTANCE Json
    \*         IN J!JsonSerialize("MCPromText_TTrace_1791070095.json", _TETrace)

=============================================================================

 Note that you can extract this module `MCPromText_TEExpression`
  to a dedicated file to reuse `expression` (the module in the 
  dedicated `MCPromText_TEExpression.tla` file takes precedence 
  over the module `MCPromText_TEExpression` below).

---- MODULE MCPromText_TEExpression ----
EXTENDS Sequences, TLCExt, MCPromText, Toolbox, Naturals, TLC

expression == 
    [
        \* To hide variables of the `MCPromText` spec from the error trace,
        \* remove the variables below.  The trace will be written in the order
        \* of the fields of this record.
        inp |-> inp
        ,pc |-> pc
        ,rs |-> rs
        ,out |-> out
        
        \* Put additional constant-, state-, and action-level expressions here:
        \* ,_stateNumber |-> _TEPosition
        \* ,_inpUnchanged |-> inp = inp'
        
        \* Format the `inp` variable as Json value.
        \* ,_inpJson |->
        \*     LET J == INSTANCE Json
        \*     IN J!ToJson(inp)
        
        \* Lastly, you may build expressions over arbitrary sets of states by
        \* leveraging the _TETrace operator.  For example, this is how to
        \* count the number of times a spec variable changed up to the current
        \* state in the trace.
        \* ,_inpModCount |->
        \*     LET F[s \in DOMAIN _TETrace] ==
        \*         IF s = 1 THEN 0
        \*         ELSE IF _TETrace[s].inp # _TETrace[s-1].inp
        \*             THEN 1 + F[s-1] ELSE F[s-1]
        \*     IN F[_TEPosition - 1]
    ]

=============================================================================



Parsing and semantic processing can take forever if the trace below is long.
 In this case, it is advised to uncomment the module below to deserialize the
 trace from a generated binary file.

\*
\*---- MODULE MCPromText_TETrace ----
\*EXTENDS IOUtils, MCPromText, TLC
\*
\*trace == IODeserialize("MCPromText_TTrace_1791070095.bin", TRUE)
\*
\*=============================================================================
\*

---- MODULE MCPromText_TETrace ----
EXTENDS MCPromText, TLC

trace == 
    <<
    ([rs |-> [name |-> <<>>, ty |-> <<>>, q |-> "bol", tok |-> <<>>, lnames |-> {}, err |-> "", cur |-> <<>>, curType |-> <<>>, curHelp |-> FALSE, curSamples |-> FALSE, closed |-> {}, cf08 |-> FALSE, nHelp |-> 0, nType |-> 0, nSample |-> 0, nBlank |-> 0, nLabel |-> 0],pc |-> [s |-> 1, f |-> 1, ph |-> "help"],inp |-> [cfg |-> [suffix |-> TRUE, globals |-> <<<<<<107>>, <<118>>>>, <<<<103>>, <<120>>>>>>, buckets |-> <<>>, quantiles |-> <<<<48>>, <<48, 46, 53>>, <<49>>>>], fams |-> <<[kind |-> "counter", name |-> <<109>>, described |-> TRUE, desc |-> <<100>>, unit |-> "Percent", series |-> <<[labels |-> <<>>], [labels |-> <<<<<<119>>, <<120>>>>, <<<<107>>, <<119>>>>>>]>>], [kind |-> "counter", name |-> <<122>>, described |-> FALSE, desc |-> <<>>, unit |-> "none", series |-> <<[labels |-> <<>>]>>]>>],out |-> <<>>]),
    ([rs |-> [name |-> <<>>, ty |-> <<>>, q |-> "bol", tok |-> <<>>, lnames |-> {}, err |-> "", cur |-> <<109>>, curType |-> <<>>, curHelp |-> TRUE, curSamples |-> FALSE, closed |-> {}, cf08 |-> FALSE, nHelp |-> 1, nType |-> 0, nSample |-> 0, nBlank |-> 0, nLabel |-> 0],pc |-> [s |-> 1, f |-> 1, ph |-> "type"],inp |-> [cfg |-> [suffix |-> TRUE, globals |-> <<<<<<107>>, <<118>>>>, <<<<103>>, <<120>>>>>>, buckets |-> <<>>, quantiles |-> <<<<48>>, <<48, 46, 53>>, <<49>>>>], fams |-> <<[kind |-> "counter", name |-> <<109>>, described |-> TRUE, desc |-> <<100>>, unit |-> "Percent", series |-> <<[labels |-> <<>>], [labels |-> <<<<<<119>>, <<120>>>>, <<<<107>>, <<119>>>>>>]>>], [kind |-> "counter", name |-> <<122>>, described |-> FALSE, desc |-> <<>>, unit |-> "none", series |-> <<[labels |-> <<>>]>>]>>],out |-> <<35, 32, 72, 69, 76, 80, 32, 109, 32, 100, 10>>]),
    ([rs |-> [name |-> <<>>, ty |-> <<>>, q |-> "bol", tok |-> <<>>, lnames |-> {}, err |-> "", cur |-> <<109>>, curType |-> <<99, 111, 117, 110, 116, 101, 114>>, curHelp |-> TRUE, curSamples |-> FALSE, closed |-> {}, cf08 |-> FALSE, nHelp |-> 1, nType |-> 1, nSample |-> 0, nBlank |-> 0, nLabel |-> 0],pc |-> [s |-> 1, f |-> 1, ph |-> "series"],inp |-> [cfg |-> [suffix |-> TRUE, globals |-> <<<<<<107>>, <<118>>>>, <<<<103>>, <<120>>>>>>, buckets |-> <<>>, quantiles |-> <<<<48>>, <<48, 46, 53>>, <<49>>>>], fams |-> <<[kind |-> "counter", name |-> <<109>>, described |-> TRUE, desc |-> <<100>>, unit |-> "Percent", series |-> <<[labels |-> <<>>], [labels |-> <<<<<<119>>, <<120>>>>, <<<<107>>, <<119>>>>>>]>>], [kind |-> "counter", name |-> <<122>>, described |-> FALSE, desc |-> <<>>, unit |-> "none", series |-> <<[labels |-> <<>>]>>]>>],out |-> <<35, 32, 72, 69, 76, 80, 32, 109, 32, 100, 10, 35, 32, 84, 89, 80, 69, 32, 109, 32, 99, 111, 117, 110, 116, 101, 114, 10>>]),
    ([rs |-> [name |-> <<>>, ty |-> <<>>, q |-> "bol", tok |-> <<>>, lnames |-> {}, err |-> "", cur |-> <<109>>, curType |-> <<99, 111, 117, 110, 116, 101, 114>>, curHelp |-> TRUE, curSamples |-> TRUE, closed |-> {}, cf08 |-> TRUE, nHelp |-> 1, nType |-> 1, nSample |-> 1, nBlank |-> 0, nLabel |-> 2],pc |-> [s |-> 2, f |-> 1, ph |-> "series"],inp |-> [cfg |-> [suffix |-> TRUE, globals |-> <<<<<<107>>, <<118>>>>, <<<<103>>, <<120>>>>>>, buckets |-> <<>>, quantiles |-> <<<<48>>, <<48, 46, 53>>, <<49>>>>], fams |-> <<[kind |-> "counter", name |-> <<109>>, described |-> TRUE, desc |-> <<100>>, unit |-> "Percent", series |-> <<[labels |-> <<>>], [labels |-> <<<<<<119>>, <<120>>>>, <<<<107>>, <<119>>>>>>]>>], [kind |-> "counter", name |-> <<122>>, described |-> FALSE, desc |-> <<>>, unit |-> "none", series |-> <<[labels |-> <<>>]>>]>>],out |-> <<35, 32, 72, 69, 76, 80, 32, 109, 32, 100, 10, 35, 32, 84, 89, 80, 69, 32, 109, 32, 99, 111, 117, 110, 116, 101, 114, 10, 109, 95, 114, 97, 116, 105, 111, 123, 107, 61, 34, 118, 34, 44, 103, 61, 34, 120, 34, 125, 32, 48, 10>>])
    >>
----


=============================================================================

---- CONFIG MCPromText_TTrace_1791070095 ----
CONSTANTS
    UnitFix = FALSE
    Alphabet = { 97 , 110 , 48 , 95 , 58 , 34 , 92 , 10 , 32 , 233 }
    MaxLen = 2
    PairLen = 1
    PairAlphabet = { 97 }
    Scopes = { "matrix" }

INVARIANT
    _inv

CHECK_DEADLOCK
    \* CHECK_DEADLOCK off because of PROPERTY or INVARIANT above.
    FALSE

INIT
    _init

NEXT
    _next

CONSTANT
    _TETrace <- _trace

ALIAS
    _expression
=============================================================================
\* Generated on Sat Oct 03 23:28:17 UTC 2026